"""C04 - fix subtracts the reference bin-for-bin by coordinate and normalises soundly.

E1: every reference of a small family (layouts x pooled/flat x with/without gc, rmask columns) with every
single bad bin / every pair of bad bins / every boundary value, every sample obtained by deleting <= 2 bins,
empty antitargets, every subset of {gc, edge, rmask}, depth scale factors and row permutations of each of
the three inputs, all through the real `cnvlib.fix.do_fix`; refusal inputs (bin absent from the reference,
duplicated coordinates) must raise.  Oracle: models/fixref.py (kept set, genomic order, per-class constant
after replaying the corrections, centring, weight range and monotonicity) plus direct comparison of every
rescaled / permuted run with the identity run of the same configuration.
"""
import itertools
import math

from checks.common import np, pd  # noqa: F401  (binds the tree under test first)
from cnvlib import fix as FIX
from cnvlib import smoothing
from cnvlib.cnary import CopyNumArray as CNA
from mc.engine import Exc
from models import fixref as M

ID = "C04"
BUDGET = {"quick": 900, "thorough": 7200}
CASE_TIMEOUT = 900

TOL = 1e-9

# ---------------------------------------------------------------------------------------------
# Alphabet.  Bin sizes are distinct inside a class, gc / rmask / spread / reference log2 values are
# distinct and not monotone in position or size, so every covariate order is total.
LAYOUTS = {
    # 7 targets + 4 antitargets, chr1 / chr2; one close target pair (gap 100 < insert size)
    "A": {
        "T": [("chr1", 1000, 1300), ("chr1", 1400, 1810), ("chr1", 5000, 5520), ("chr1", 9000, 9630),
              ("chr2", 1000, 1340), ("chr2", 3000, 3450), ("chr2", 7000, 7560)],
        "A": [("chr1", 2000, 4900), ("chr1", 5600, 8900), ("chr2", 3500, 6900), ("chr2", 7600, 10700)],
    },
    # 6 targets + 4 antitargets, chr1 / chr2 / chr10 (numeric, not lexical, chromosome order); tiles smaller
    # than the insert size, a neighbour flank reaching past the far side of a 120-base tile
    "B": {
        "T": [("chr1", 2000, 2200), ("chr1", 2300, 2780), ("chr1", 8000, 8350),
              ("chr2", 1000, 1120), ("chr2", 1200, 1500), ("chr10", 4000, 4640)],
        "A": [("chr1", 3000, 7900), ("chr2", 2000, 5500), ("chr2", 6000, 9800), ("chr10", 5000, 9100)],
    },
    # 5 targets + 3 antitargets: every permutation of the sample rows is enumerated on this one
    "tiny": {
        "T": [("chr1", 1000, 1300), ("chr1", 1400, 1810), ("chr1", 5000, 5520), ("chr2", 1000, 1340), ("chr2", 3000, 3450)],
        "A": [("chr1", 2000, 4900), ("chr2", 3500, 6900), ("chr2", 7000, 9900)],
    },
    # thorough: with a sex chromosome (left out of the centring)
    "X": {
        "T": [("chr1", 1000, 1300), ("chr1", 1400, 1810), ("chr1", 5000, 5520), ("chr2", 1000, 1340),
              ("chr2", 3000, 3450), ("chr2", 7000, 7560), ("chrX", 2000, 2630), ("chrX", 6000, 6270)],
        "A": [("chr1", 2000, 4900), ("chr2", 3500, 6900), ("chrX", 2700, 5900), ("chrX", 6400, 9500)],
    },
    # thorough: 10 targets + 4 antitargets
    "big": {
        "T": [("chr1", 1000, 1300), ("chr1", 1400, 1810), ("chr1", 5000, 5520), ("chr1", 9000, 9630), ("chr1", 9700, 9930),
              ("chr2", 1000, 1340), ("chr2", 3000, 3450), ("chr2", 7000, 7560), ("chr2", 7800, 8470), ("chr2", 9000, 9380)],
        "A": [("chr1", 2000, 4900), ("chr1", 5600, 8900), ("chr2", 3500, 6900), ("chr2", 9500, 12700)],
    },
}
REF_LOG2 = [-0.31, 0.17, 0.42, -0.08, 0.29, -0.23, 0.11, 0.36, -0.17, 0.05]
SPREAD = [0.12, 0.31, 0.07, 0.22, 0.18, 0.27, 0.09, 0.35, 0.15, 0.25]
GC = [0.41, 0.58, 0.36, 0.63, 0.47, 0.52, 0.33, 0.66, 0.44, 0.55]
RMASK = [0.15, 0.62, 0.33, 0.08, 0.47, 0.71, 0.26, 0.54, 0.39, 0.02]
DEPTH_T = [40.0, 52.0, 33.0, 61.0, 45.0, 38.0, 57.0, 36.0, 49.0, 43.0]
DEPTH_A = [6.5, 4.8, 7.9, 5.6]
NOISE = [3.0, -3.0, 2.5, -2.0, 3.5, -3.5, 1.5, -2.5, 2.0, -1.5]  # log2 units, the "noisy" sample

BAD = {  # way -> (column, value)
    "log2<-5": ("log2", -5.5),
    "log2>5": ("log2", 5.5),
    "spread>1": ("spread", 1.2),
    "depth0": ("depth", 0.0),
    "gc<0.3": ("gc", 0.25),
    "gc>0.7": ("gc", 0.75),
}
EDGE = {  # exactly on the boundary: the bin passes
    "log2=-5": ("log2", -5.0),
    "log2=5": ("log2", 5.0),
    "spread=1": ("spread", 1.0),
    "spread=0": ("spread", 0.0),  # the other end: a bin every normal agreed on, among bins with real spread
    "depth>0": ("depth", 1e-9),
    "gc=0.3": ("gc", 0.3),
    "gc=0.7": ("gc", 0.7),
}
WAYS = dict(BAD, **EDGE)
CORR_ALL = [c for n in range(4) for c in itertools.combinations(("gc", "edge", "rmask"), n)]  # 8 subsets, fewest first
CORR_ENDS = [(), ("gc", "edge", "rmask")]
COLSETS = {"both": ("gc", "rmask"), "none": (), "gc": ("gc",), "rmask": ("rmask",)}


RULERS = [265, 330, 425, 550, 725, 1010]  # isolated tiles: edge value -125/size, a ruler for the values of the tiles under test
EDGE_GRID = {
    "quick": {"a": [60, 120, 200, 250, 300, 480], "b": [70, 130, 210, 270, 310, 500], "g1": [0, 40, 100, 180, 249, 250, 300], "g2": [200, 400]},
    "thorough": {"a": [30, 60, 90, 120, 160, 200, 249, 250, 300, 480], "b": [35, 70, 100, 130, 170, 210, 251, 270, 310, 500],
                 "g1": [-20, 0, 1, 40, 100, 140, 180, 220, 249, 250, 300], "g2": [200, 249, 400]},
}


def get_layout(name):
    """A named layout, or a generated one "E/a/g1/b/g2": chr1 carries three tiles of sizes a, b, 280 separated by gaps g1, g2
    (g1 + b + g2 >= insert size, so only adjacent tiles are ever within the margin), chr2 the isolated ruler tiles."""
    if name in LAYOUTS:
        return LAYOUTS[name]
    _, a, g1, b, g2 = name.split("/")
    a, g1, b, g2 = int(a), int(g1), int(b), int(g2)
    s1 = 5000 + a + g1
    s2 = s1 + b + g2
    tiles = [("chr1", 5000, 5000 + a), ("chr1", s1, s1 + b), ("chr1", s2, s2 + 280)]
    tiles += [("chr2", 2000 * (k + 1), 2000 * (k + 1) + w) for k, w in enumerate(RULERS)]
    return {"T": tiles, "A": []}


def layout_bins(name):
    """All bins of a layout in genomic order: (chrom, start, end, cls, index inside the class)."""
    lay = get_layout(name)
    rows = [(c, s, e, "T", i) for i, (c, s, e) in enumerate(lay["T"])] + [(c, s, e, "A", i) for i, (c, s, e) in enumerate(lay["A"])]
    return sorted(rows, key=lambda r: (M.chrom_key(r[0]), r[1], r[2]))


def build_reference(layout, kind, cols, bad):
    """Reference bins (dicts) in genomic order; bad = [(bin index in genomic order, way), ...]."""
    out = []
    for c, s, e, cls, i in layout_bins(layout):
        off = 0.0 if cls == "T" else 0.013
        log2 = (REF_LOG2[i] + off) if kind == "pooled" else 0.0
        r = {
            "chromosome": c, "start": s, "end": e,
            "gene": ("G%d" % i) if cls == "T" else "Antitarget",
            "log2": log2,
            "depth": 2.0 ** log2,
            "spread": (SPREAD[i] + off) if kind == "pooled" else 0.0,
        }
        if "gc" in COLSETS[cols]:
            r["gc"] = GC[i] + off
        if "rmask" in COLSETS[cols]:
            r["rmask"] = RMASK[i] + off
        out.append(r)
    for k, way in bad:
        col, val = WAYS[way]
        if col in out[k]:
            out[k][col] = val
    return out


def build_sample(layout, variant):
    """(target bins, antitarget bins) in genomic order, each bin carrying 'k' = its index in the layout."""
    tgt, anti = [], []
    for k, (c, s, e, cls, i) in enumerate(layout_bins(layout)):
        depth = DEPTH_T[i] if cls == "T" else DEPTH_A[i]
        log2 = math.log2(depth)
        if variant == "noisy":
            log2 += NOISE[i]
            depth = 2.0 ** log2
        if variant == "zero" and i == 1:
            depth, log2 = 0.0, -20.0
        b = {"chromosome": c, "start": s, "end": e, "gene": ("G%d" % i) if cls == "T" else "Antitarget", "log2": log2, "depth": depth, "k": k}
        (tgt if cls == "T" else anti).append(b)
    return tgt, anti


REF_COLS = ["chromosome", "start", "end", "gene", "log2", "depth", "gc", "rmask", "spread"]
SAMPLE_COLS = ["chromosome", "start", "end", "gene", "log2", "depth"]
DTYPES = {"chromosome": "object", "start": "int64", "end": "int64", "gene": "object"}


def to_cna(bins, cols, sample_id, shifted=False):
    """shifted: the same rows with row labels 1..n (a longer table minus its first row, as a filtered array has)."""
    cols = [c for c in cols if not bins or c in bins[0]]
    if not bins:
        cols = [c for c in cols if c not in ("gc", "rmask", "spread")]
    if shifted and bins:
        bins = [bins[0]] + list(bins)
    data = {c: pd.Series([b[c] for b in bins], dtype=DTYPES.get(c, "float64")) for c in cols}
    df = pd.DataFrame(data, columns=cols)
    if shifted and bins:
        df = df.iloc[1:]
    return CNA(df, {"sample_id": sample_id})


def rows_out(res):
    d = res.data
    cols = {c: d[c].tolist() for c in d.columns}
    n = len(d)
    return [{c: cols[c][i] for c in cols} for i in range(n)]


# ---------------------------------------------------------------------------------------------
def perms(n, family):
    """Named permutations of range(n): {name: order}; identity is never included."""
    out = {}
    ident = list(range(n))
    if n < 2:
        return out
    if family == "all":
        for p in itertools.permutations(range(n)):
            if list(p) != ident:
                out["p" + "".join(map(str, p))] = list(p)
        return out
    out["rev"] = ident[::-1]
    if family == "one":
        return out
    out["rot1"] = ident[1:] + ident[:1]
    out["swap01"] = [1, 0] + ident[2:]
    if n > 3:
        h = n // 2
        out["roth"] = ident[h:] + ident[:h]
    if family == "rot":
        for k in range(2, n):
            out["rot%d" % k] = ident[k:] + ident[:k]
        for k in range(1, n - 1):
            out["swap%d%d" % (k, k + 1)] = ident[:k] + [k + 1, k] + ident[k + 2:]
    return {k: v for k, v in out.items() if v != ident}


def variants_for(spec, nt, na, nr):
    """[(kind, name, tperm, aperm, rperm, scale)] for a variants spec (dict)."""
    out = []
    for s in spec.get("scale", []):
        out.append(("depth-scaled", "x%g" % s, None, None, None, s))
    for name, p in perms(nt, spec.get("tperm", "none")).items() if spec.get("tperm") else []:
        out.append(("sample-rows-permuted", "target:" + name, p, None, None, 1))
    for name, p in perms(na, spec.get("aperm", "none")).items() if spec.get("aperm") else []:
        out.append(("sample-rows-permuted", "antitarget:" + name, None, p, None, 1))
    if spec.get("bothperm") and nt > 1 and na > 1:
        out.append(("sample-rows-permuted", "both:rev", list(range(nt))[::-1], list(range(na))[::-1], None, 1))
    for name, p in perms(nr, spec.get("rperm", "none")).items() if spec.get("rperm") else []:
        out.append(("reference-rows-permuted", "reference:" + name, None, None, p, 1))
    if spec.get("relabel"):
        out.append(("row-labels-shifted", "labels-1..n", None, None, None, 1))
    return out


VARIANTS = {
    "none": {},
    "lite": {"tperm": "one", "rperm": "one", "relabel": True},
    "std": {"scale": [0.5, 3], "tperm": "std", "aperm": "std", "bothperm": True, "rperm": "std", "relabel": True},
    "rot": {"scale": [0.5, 3, 8], "tperm": "rot", "aperm": "all", "bothperm": True, "rperm": "rot", "relabel": True},
    "tall": {"tperm": "all"},
    "aall": {"aperm": "all"},
}


# ---------------------------------------------------------------------------------------------
def describe(tier):
    t = tier == "thorough"
    return {
        "rule": "every (reference, target table, antitarget table, correction subset, window fraction) of the bound through "
        "cnvlib.fix.do_fix; each configuration once with rows in genomic order and depth scale 1 (compared with the model: kept "
        "set, genomic order, per-class constant after replaying the corrections, centring, weights) and once per enumerated "
        "depth scale / row permutation of the target table, the antitarget table or the reference (compared with the first run "
        "bin for bin). state = (case, correction subset, variant); non-trivial = a bin was filtered or absent, a correction acted, "
        "or rows were permuted / rescaled",
        "bound": {
            "layouts": "A (7 targets + 4 antitargets, chr1 chr2), B (6 + 4, chr1 chr2 chr10, tiles < insert size), tiny (5 + 3)"
            + ("; X (8 + 4 with chrX), big (10 + 4)" if t else ""),
            "reference": "pooled / flat x columns {gc+rmask, none, gc, rmask}" + ("" if t else " (column subsets and flat x column subsets on layout A)"),
            "bad_bins": "every single bin x 6 bad ways + 6 on-the-boundary values x all 8 correction subsets (on-target bins also with an empty antitarget); every pair of bins x 6x6 bad ways"
            + (" on every layout x {none, all, gc, edge} corrections; every triple of bins x 6^3 ways on layout A" if t else " on layout A x {no, all} corrections"),
            "sample": "same bins; every deletion of <= 2 bins; empty antitarget; sample variants plain / noisy (weights clipped) / one zero-depth bin",
            "corrections": "all 8 subsets of {gc, edge, rmask}; window fraction 0.5" + (" and 0.9" if t else " (0.9 on layout A)"),
            "scales": [1, 0.5, 3] + ([8] if t else []),
            "row_orders": "tiny layout: all 120 orders of the target rows and all 6 of the antitarget rows; otherwise reversal, rotation by 1 and n/2, "
            "one transposition" + (", every rotation and every adjacent transposition" if t else "") + " for each of the three inputs",
            "edge_grid": "three adjacent tiles of sizes a, b, 280 with gaps g1, g2 next to six isolated ruler tiles; a x b x g1 x g2 = "
            + "x".join(str(len(EDGE_GRID[tier][k])) for k in ("a", "b", "g1", "g2")) + ", edge correction only",
            "refusals": "every bin x {start shifted, end changed, other chromosome, extra bin} absent from the reference; every bin duplicated in the "
            "target table / antitarget table / reference (adjacent and at the end)",
        },
        "alphabet": {"bad": list(BAD), "boundary": list(EDGE), "corrections": ["+".join(c) or "none" for c in CORR_ALL], "layouts": list(LAYOUTS) if t else ["A", "B", "tiny"]},
        "assumptions": [
            "smoothing.rolling_median is used inside the oracle (DESIGN section 4 rule 6; verified by C19); a class of one bin is its own rolling median",
            "the window fraction is passed explicitly (the default-window heuristic is not part of the statement)",
            "GC correction acts on both classes, the edge correction on on-target bins, the repeat correction on off-target bins, in the order gc, edge, rmask; "
            "a correction whose column the reference lacks is skipped; the edge covariate is computed over the emitted on-target bins (adjacent neighbours)",
            "the statement fixes log2 up to one constant per class; observed - model must be constant inside each class, and the centring clause pins the rest",
            "bin sizes and gc / rmask / edge values are distinct inside a class (ties are ordered by a seeded shuffle: C10's business); a run with a covariate tie skips the value clause",
            "samples where most bins have no coverage (corrections are then skipped with a warning) are outside the bound; with one zero-depth bin the centring clause "
            "accepts both readings (with / without that bin), the value clause is evaluated with corrections off only, and depth rescaling is not applied",
            "on-target and off-target tables do not share a coordinate; the target table is never empty; inputs carry a default row index as read from file",
            "refusal = any exception; on other inputs any exception is a violation",
        ],
    }


def cases(tier):
    t = tier == "thorough"
    main = ["A", "B"] + (["X", "big"] if t else [])
    # 1. refusals (cheap, simplest)
    for layout in main:
        for kind in ("pooled", "flat"):
            for k in range(len(layout_bins(layout))):
                yield {"check": "refuse", "layout": layout, "ref": kind, "k": k}
    # 2. core configurations: every correction subset x scales x row orders
    core = []
    for layout in main:
        for kind in ("pooled", "flat"):
            for cols in COLSETS:
                if not t and (layout != "A" and cols != "both"):
                    continue
                if not t and kind == "flat" and cols != "both":
                    continue
                for frac in (0.5, 0.9):
                    if frac == 0.9 and not (t or (layout == "A" and kind == "pooled" and cols == "both")):
                        continue
                    core.append((layout, kind, cols, frac))
    for layout, kind, cols, frac in core:
        for anti in ("full", "empty"):
            for corr in CORR_ALL:
                yield {"check": "core", "layout": layout, "ref": kind, "cols": cols, "sample": "plain", "anti": anti, "bad": [], "drop": [],
                       "corr": [list(corr)], "frac": frac, "variants": "rot" if t else "std"}
    for layout in main if t else ["A"]:
        for kind in ("pooled", "flat"):
            for variant in ("noisy", "zero"):
                for anti in ("full", "empty"):
                    yield {"check": "core", "layout": layout, "ref": kind, "cols": "both", "sample": variant, "anti": anti, "bad": [], "drop": [],
                           "corr": [list(c) for c in (CORR_ALL if t else CORR_ENDS)], "frac": 0.5, "variants": "std"}
    # 3. every order of the sample rows on the tiny layout
    for anti in ("empty", "full"):
        for corr in [(), ("gc",), ("edge",), ("gc", "edge", "rmask")] if not t else CORR_ALL:
            yield {"check": "perm-all", "layout": "tiny", "ref": "pooled", "cols": "both", "sample": "plain", "anti": anti, "bad": [], "drop": [],
                   "corr": [list(corr)], "frac": 0.5, "variants": "tall"}
    yield {"check": "perm-all", "layout": "tiny", "ref": "pooled", "cols": "both", "sample": "plain", "anti": "full", "bad": [], "drop": [],
           "corr": [list(c) for c in CORR_ALL], "frac": 0.5, "variants": "aall"}
    # 3b. the edge covariate: tile sizes and gaps on a grid around the insert size, ranked against isolated ruler tiles
    grid = EDGE_GRID[tier]
    for a in grid["a"]:
        for b in grid["b"]:
            yield {"check": "edge-grid", "a": a, "b": b, "ref": "pooled", "cols": "none", "sample": "plain", "anti": "empty",
                   "corr": [["edge"]], "frac": 0.5, "variants": "none"}
    # 4. one bad bin / one boundary value, every bin, every way
    for layout in main:
        n = len(layout_bins(layout))
        for kind in ("pooled", "flat") if (t or layout == "A") else ("pooled",):
            for k in range(n):
                for way in WAYS:
                    yield {"check": "bad1", "layout": layout, "ref": kind, "cols": "both", "sample": "plain", "anti": "full", "k": k, "way": way,
                           "corr": [list(c) for c in (CORR_ALL if kind == "pooled" else CORR_ENDS)], "frac": 0.5,
                           "variants": "lite", "variants_on": "ends" if not t else "all"}
                    if kind == "pooled" and way in EDGE and (t or layout == "A"):
                        # a bin exactly on a filter boundary (kept) in a noisy sample: both weight estimates sit at their extremes
                        yield {"check": "bad1", "layout": layout, "ref": kind, "cols": "both", "sample": "noisy", "anti": "full", "k": k, "way": way,
                               "corr": [list(c) for c in CORR_ENDS], "frac": 0.5, "variants": "none"}
                    if kind == "pooled" and layout_bins(layout)[k][3] == "T":
                        # empty antitarget: nothing re-sorts / re-indexes the tables after the corrections
                        yield {"check": "bad1", "layout": layout, "ref": kind, "cols": "both", "sample": "plain", "anti": "empty", "k": k, "way": way,
                               "corr": [list(c) for c in (CORR_ALL if t else [(), ("gc",), ("edge",), ("gc", "edge", "rmask")])], "frac": 0.5, "variants": "none"}
    # 5. sample = subset of the reference bins (<= 2 deleted); the tiny layout leaves classes of one bin
    for layout in main + ["tiny"]:
        n = len(layout_bins(layout))
        for anti in ("full", "empty"):
            for m in (1, 2):
                for drop in itertools.combinations(range(n), m):
                    if anti == "empty" and any(layout_bins(layout)[k][3] == "A" for k in drop):
                        continue
                    yield {"check": "subset", "layout": layout, "ref": "pooled", "cols": "both", "sample": "plain", "anti": anti, "bad": [], "drop": list(drop),
                           "corr": [list(c) for c in (CORR_ALL if t else CORR_ENDS)], "frac": 0.5, "variants": "lite"}
    # 6. every pair of bad bins
    for layout in main if t else ["A"]:
        n = len(layout_bins(layout))
        for pair in itertools.combinations(range(n), 2):
            yield {"check": "bad2", "layout": layout, "ref": "pooled", "cols": "both", "sample": "plain", "anti": "full", "ks": list(pair),
                   "corr": [list(c) for c in ([(), ("gc", "edge", "rmask"), ("gc",), ("edge",)] if t else CORR_ENDS)], "frac": 0.5, "variants": "none"}
    # 7. every triple of bad bins (thorough)
    if t:
        n = len(layout_bins("A"))
        for tri in itertools.combinations(range(n), 3):
            for w0 in BAD:
                yield {"check": "bad3", "layout": "A", "ref": "pooled", "cols": "both", "sample": "plain", "anti": "full", "ks": list(tri), "w0": w0,
                       "corr": [["gc", "edge", "rmask"]], "frac": 0.5, "variants": "none"}


# ---------------------------------------------------------------------------------------------
def run(case, ctx):
    kind = case["check"]
    if kind == "refuse":
        return run_refuse(case, ctx)
    if kind in ("core", "perm-all", "subset"):
        return explore(ctx, case, case["bad"], case["drop"])
    if kind == "edge-grid":
        grid = EDGE_GRID[ctx.tier]
        for g1 in grid["g1"]:
            for g2 in grid["g2"]:
                if g1 + case["b"] + g2 < M.INSERT_SIZE:
                    continue  # a second neighbour inside the margin: the statement does not say whether it counts
                name = "E/%d/%d/%d/%d" % (case["a"], g1, case["b"], g2)
                explore(ctx, dict(case, layout=name), [], [], sub0={"layout": name})
        return None
    if kind == "bad1":
        return explore(ctx, case, [(case["k"], case["way"])], [])
    if kind == "bad2":
        k0, k1 = case["ks"]
        for w0 in BAD:
            for w1 in BAD:
                explore(ctx, case, [(k0, w0), (k1, w1)], [], sub0={"bad": [[k0, w0], [k1, w1]]})
        return None
    if kind == "bad3":
        k0, k1, k2 = case["ks"]
        for w1 in BAD:
            for w2 in BAD:
                explore(ctx, case, [(k0, case["w0"]), (k1, w1), (k2, w2)], [], sub0={"bad": [[k0, case["w0"]], [k1, w1], [k2, w2]]})
        return None
    raise ValueError(kind)


def do_fix(ctx, tgt, anti, ref, corr, frac, shifted=False):
    t = to_cna(tgt, SAMPLE_COLS, "sample", shifted)
    a = to_cna(anti, SAMPLE_COLS, "sample", shifted)
    r = to_cna(ref, REF_COLS, "reference", shifted)
    return ctx.call(
        FIX.do_fix, t, a, r, do_gc="gc" in corr, do_edge="edge" in corr, do_rmask="rmask" in corr, smoothing_window_fraction=frac
    )


def bad_feature(bad):
    ways = sorted({w for _, w in bad})
    return "+".join(ways) if ways else "clean-reference"


def explore(ctx, case, bad, drop, sub0=None):
    layout = case["layout"]
    ref = build_reference(layout, case["ref"], case["cols"], bad)
    tgt, anti = build_sample(layout, case["sample"])
    tgt = [b for b in tgt if b["k"] not in drop]
    anti = [] if case["anti"] == "empty" else [b for b in anti if b["k"] not in drop]
    frac = case["frac"]
    sub0 = dict(sub0 or {})
    if drop:
        sub0["drop"] = list(drop)
    bfeat = bad_feature(bad)
    afeat = "antitarget-" + case["anti"]
    for way in {w for _, w in bad}:
        ctx.stratum(("bad/" if way in BAD else "boundary/") + way)
    if drop:
        ctx.stratum("sample-subset-%d" % len(drop))
    ctx.stratum(afeat)
    ctx.stratum("reference-" + case["ref"] + "/cols=" + case["cols"])
    ctx.stratum("sample-" + case["sample"])
    if any(b["chromosome"] == "chrX" for b in tgt):
        ctx.stratum("chrX")
    zero = case["sample"] == "zero"
    for corr in [tuple(c) for c in case["corr"]]:
        cname = "+".join(corr) or "none"
        sub = dict(sub0, corr=cname)
        exp, info = M.expected(tgt, anti, ref, "gc" in corr, "edge" in corr, "rmask" in corr, frac, smoothing.rolling_median)
        applied = sorted(set(info["applied"]["target"]) | set(info["applied"]["antitarget"]))
        aname = "+".join(n for n in ("gc", "edge", "rmask") if n in applied) or "none"
        ctx.stratum("applied=" + aname)
        if len(applied) < len(corr):
            ctx.stratum("correction-requested-but-column-absent")
        one_bin = [cls for cls in ("target", "antitarget") if info["n"][cls] == 1 and info["applied"][cls]]
        if one_bin:
            ctx.stratum("one-bin-class-with-correction")
        if "edge" in applied:
            for f in M.edge_features([b for b in exp if b["cls"] == "target"]):
                ctx.stratum("edge/" + f)
        if info["tie"]:
            ctx.stratum("covariate-tie(value-clause-skipped)")
        nontrivial = bool(info["dropped"]) or bool(applied) or bool(drop)
        # ---- identity run: rows in genomic order, scale 1
        res = do_fix(ctx, tgt, anti, ref, corr, frac)
        ctx.state((case, sub, "identity"), nontrivial=nontrivial)
        base = judge(ctx, res, exp, info, "identity", sub, bfeat, afeat, aname, one_bin, zero, full=True)
        if isinstance(res, Exc):
            continue  # reported once; the permuted / rescaled runs of a configuration that cannot run add nothing
        # ---- the same three table objects handed to do_fix a second time
        objs = (to_cna(tgt, SAMPLE_COLS, "sample"), to_cna(anti, SAMPLE_COLS, "sample"), to_cna(ref, REF_COLS, "reference"))
        kw = dict(do_gc="gc" in corr, do_edge="edge" in corr, do_rmask="rmask" in corr, smoothing_window_fraction=frac)
        ctx.call(FIX.do_fix, *objs, **kw)
        res_again = ctx.call(FIX.do_fix, *objs, **kw)
        ctx.state((case, sub, "same-objects-again"), nontrivial=True)
        ctx.stratum("variant/same-objects-again")
        judge(ctx, res_again, exp, info, "same-objects-again", dict(sub, variant="second call on the same table objects"), bfeat, afeat, aname, one_bin, zero, full=False)
        # ---- variants
        vspec = VARIANTS[case["variants"]]
        if case.get("variants_on") == "ends" and corr not in CORR_ENDS:
            vspec = {}
        for vkind, vname, tp, ap, rp, scale in variants_for(vspec, len(tgt), len(anti), len(ref)):
            if zero and vkind == "depth-scaled":
                continue
            t2 = [tgt[i] for i in tp] if tp else tgt
            a2 = [anti[i] for i in ap] if ap else anti
            r2 = [ref[i] for i in rp] if rp else ref
            if scale != 1:
                t2 = [dict(b, depth=b["depth"] * scale, log2=b["log2"] + math.log2(scale)) for b in t2]
                a2 = [dict(b, depth=b["depth"] * scale, log2=b["log2"] + math.log2(scale)) for b in a2]
            vsub = dict(sub, variant=vname, order=tp or ap or rp, scale=scale)
            if tp and ap:
                vsub["order"] = [tp, ap]
            res2 = do_fix(ctx, t2, a2, r2, corr, frac, shifted=vkind == "row-labels-shifted")
            ctx.state((case, sub, vname), nontrivial=True)
            ctx.stratum("variant/" + vkind)
            got = judge(ctx, res2, exp, info, vkind, vsub, bfeat, afeat, aname, one_bin, zero, full=False)
            if got is None or base is None:
                continue
            # invariance: the same table, bin for bin
            ctx.trace()
            worst = 0.0
            where = None
            for o, b in zip(got, base):
                for col in ("log2", "weight"):
                    x, y = o.get(col), b.get(col)
                    d = abs(x - y) if (x is not None and y is not None and x == x and y == y) else float("inf")
                    if d > worst:
                        worst, where = d, (M.coord(o), col)
            if worst > TOL:
                ctx.violation(
                    "the output is unchanged by rescaling the sample's depth or permuting the rows of any input",
                    f"invariance/{vkind}/applied={'some' if applied else 'none'}/{afeat}",
                    expected=[[b["chromosome"], b["start"], b["end"], b["log2"], b["weight"]] for b in base],
                    observed=[[b["chromosome"], b["start"], b["end"], b["log2"], b["weight"]] for b in got],
                    sub=vsub,
                    detail={"largest difference": worst, "at": where},
                )
    ctx.sample(case["check"], {"reference": ref, "target": tgt, "antitarget": anti, "frac": frac})


def judge(ctx, res, exp, info, vkind, sub, bfeat, afeat, aname, one_bin, zero, full):
    """Compare one do_fix result with the model; returns the observed rows re-ordered genomically by
    coordinate (for the invariance comparison) or None if the run cannot be compared further."""
    if isinstance(res, Exc):
        feat = "one-bin-class-with-correction" if one_bin else f"bins>1/{vkind}"
        ctx.violation(
            "fix emits the bins whose reference bin passes the filters (a result, not an error, on valid input)",
            f"raises/{res.key}/{feat}",
            expected="a table of %d bins" % len(exp),
            observed=res,
            sub=sub,
        )
        return None
    ctx.trace()
    obs = rows_out(res)
    ctx.outcome([(o["chromosome"], o["start"], o["end"], round(o.get("log2", 0.0), 7), round(o.get("weight", 0.0), 7)) for o in obs])
    want = [M.coord(e) for e in exp]
    got = [M.coord(o) for o in obs]
    if sorted(got) != sorted(want):
        ctx.violation(
            "fix emits exactly the sample bins whose coordinate-matched reference bin passes the reference filters",
            f"kept-set/{vkind}/{bfeat}" + ("/subset-sample" if sub.get("drop") else ""),
            expected=want,
            observed=got,
            sub=sub,
            detail={"filtered": {"%s:%d-%d" % k: v for k, v in info["dropped"].items()}},
        )
        return None
    if got != want:
        ctx.violation("the emitted bins are in genomic order", f"genomic-order/{vkind}/{afeat}", expected=want, observed=got, sub=sub)
        # continue with the rows matched by coordinate
        by = {M.coord(o): o for o in obs}
        obs = [by[c] for c in want]
    if "weight" not in (obs[0] if obs else {"weight": 1}):
        ctx.violation("the output carries a per-bin weight", f"weight-missing/{vkind}", observed=list(obs[0]), sub=sub)
        return None
    for e, o in zip(exp, obs):
        if o["gene"] != e["gene"]:
            ctx.violation(
                "each emitted bin is the sample's bin (matched by coordinate)", f"gene-mismatch/{vkind}", expected=e["gene"], observed=o["gene"], sub=sub
            )
            break
    if not all(math.isfinite(o["log2"]) for o in obs):
        ctx.violation(
            "each bin's log2 equals sample log2 - reference log2 plus a constant",
            f"values/non-finite/{vkind}/applied={aname}",
            observed=[o["log2"] for o in obs],
            sub=sub,
        )
        return None
    if not full:
        # weights' range is still checked on every run
        if any(f[0] == "range" for f in M.weight_faults(obs, exp)):
            ctx.violation("weights lie in [0.0001, 1]", f"weight-range/{vkind}", observed=[o["weight"] for o in obs], sub=sub)
        return obs
    # ---- values: observed - model is constant inside each class
    if info["tie"]:
        pass
    elif zero and aname != "none":
        ctx.stratum("zero-depth-bin/value-clause-open")
    else:
        for cls, (spread, n) in M.class_constant_spread(obs, exp).items():
            if spread > TOL:
                ctx.violation(
                    "with corrections off each bin's log2 equals sample log2 - reference log2 plus a single constant for its class; each enabled "
                    "correction subtracts the rolling median of log2 over the bins ordered by the bias covariate",
                    f"values/{cls}/applied={aname}/{vkind}",
                    expected=[[e["chromosome"], e["start"], e["end"], e["base"]] for e in exp if e["cls"] == cls],
                    observed=[[o["chromosome"], o["start"], o["end"], o["log2"]] for o, e in zip(obs, exp) if e["cls"] == cls],
                    sub=sub,
                    detail={"spread of (observed - model) inside the class": spread},
                )
    # ---- centring
    c_all = M.centre_of(obs)
    ok = c_all is not None and abs(c_all) <= TOL
    low = [o for o in obs if o["log2"] < M.LOW_LOG2 or o["depth"] == 0]
    if low:
        ctx.stratum("low-coverage-bin-in-output")
        c_skip = M.centre_of(obs, skip=lambda o: o["log2"] < M.LOW_LOG2 or o["depth"] == 0)
        ok = ok or (c_skip is not None and abs(c_skip) <= TOL)
    if not ok:
        ctx.violation(
            "the output is centred: the median of the autosomal chromosome medians is 0",
            f"centred/{vkind}/{'low-coverage-bin' if low else 'all-covered'}",
            expected=0.0,
            observed=c_all,
            sub=sub,
        )
    # ---- weights
    faults = M.weight_faults(obs, exp)
    ws = [o["weight"] for o in obs]
    if any(abs(w - M.WEIGHT_LO) < 1e-15 for w in ws):
        ctx.stratum("weight-clipped-at-0.0001")
    for kind_, a, b in faults[:1]:
        if kind_ == "range":
            ctx.violation("weights lie in [0.0001, 1]", f"weight-range/{vkind}", expected="[0.0001, 1]", observed=ws, sub=sub)
        else:
            ctx.violation(
                "a weight never decreases with bin size nor increases with reference spread",
                f"weight-monotone/{kind_}/{exp[a]['cls']}",
                expected="weight(%s:%d-%d) >= weight(%s:%d-%d)" % (M.coord(exp[a]) + M.coord(exp[b])),
                observed=[obs[a]["weight"], obs[b]["weight"]],
                sub=sub,
                detail={"sizes": [exp[a]["size"], exp[b]["size"]], "spreads": [exp[a]["spread"], exp[b]["spread"]]},
            )
    return obs


# ---------------------------------------------------------------------------------------------
def run_refuse(case, ctx):
    layout = case["layout"]
    bins = layout_bins(layout)
    for kind in (case["ref"],):
        ref = build_reference(layout, kind, "both", [])
        tgt, anti = build_sample(layout, "plain")
        muts = []
        for k in (case["k"],):
            cls = bins[k][3]
            rows = tgt if cls == "T" else anti
            i = next(j for j, b in enumerate(rows) if b["k"] == k)

            def with_row(new, i=i, rows=rows, cls=cls, append=False):
                r2 = list(rows)
                if append == "end":
                    r2 = r2 + [new]
                elif append == "after":
                    r2 = r2[: i + 1] + [new] + r2[i + 1:]
                else:
                    r2[i] = new
                return (r2, anti) if cls == "T" else (tgt, r2)

            b = rows[i]
            muts.append(("absent/start-shifted", k, with_row(dict(b, start=b["start"] + 1)), ref))
            muts.append(("absent/end-changed", k, with_row(dict(b, end=b["end"] + 10)), ref))
            muts.append(("absent/other-chromosome", k, with_row(dict(b, chromosome="chr3")), ref))
            muts.append(("absent/extra-bin", k, with_row(dict(b, start=b["end"] + 5, end=b["end"] + 45), append="end"), ref))
            muts.append(("absent/not-in-reference", k, (tgt, anti), [r for j, r in enumerate(ref) if j != k]))
            muts.append(("duplicate/sample-adjacent", k, with_row(dict(b), append="after"), ref))
            muts.append(("duplicate/sample-at-end", k, with_row(dict(b, log2=b["log2"] + 0.5), append="end"), ref))
            muts.append(("duplicate/reference-adjacent", k, (tgt, anti), ref[: k + 1] + [dict(ref[k])] + ref[k + 1:]))
            muts.append(("duplicate/reference-at-end", k, (tgt, anti), ref + [dict(ref[k], log2=ref[k]["log2"] + 0.25)]))
        for name, k, (t2, a2), r2 in muts:
            reasons = M.refusal(t2, a2, r2)
            assert reasons, (name, k)
            for anti_mode in ("full", "empty"):
                a3 = a2 if anti_mode == "full" else []
                if not M.refusal(t2, a3, r2):
                    continue  # the offending row sat in the antitarget table
                for corr in CORR_ENDS:
                    sub = {"mutation": name, "bin": k, "reference": kind, "antitarget": anti_mode, "corr": "+".join(corr) or "none"}
                    res = do_fix(ctx, t2, a3, r2, corr, 0.5)
                    ctx.state((layout, sub), nontrivial=True)
                    ctx.trace()
                    ctx.stratum("refuse/" + name)
                    ctx.outcome(("refuse", name, isinstance(res, Exc) and res.type))
                    if not isinstance(res, Exc):
                        ctx.violation(
                            "fix refuses (error) a sample bin absent from the reference or duplicated coordinates",
                            f"refuse/{name}/{'on-target' if bins[k][3] == 'T' else 'off-target'}/not-raised",
                            expected="an error (" + ", ".join(M.refusal(t2, a3, r2)) + ")",
                            observed=[[o["chromosome"], o["start"], o["end"], o["log2"]] for o in rows_out(res)],
                            sub=sub,
                        )
    ctx.sample("refuse", {"layout": layout, "mutations": sorted({m[0] for m in muts})})


MANIFEST = {
    "text": "Bounded-exhaustive exploration of the real cnvlib.fix.do_fix: a family of references (three layouts in the quick tier, five in the "
    "thorough one; pooled and flat; with and without gc / rmask columns) with every single bin and every pair of bins made bad in each of six ways, "
    "every boundary value, every sample missing <= 2 bins, empty antitarget tables, every subset of the three bias corrections, depth scale factors "
    "and row permutations of each input (all 120 orders on the 5-target layout), and a grid of tile sizes and gaps around the insert size ranked "
    "against isolated ruler tiles (edge covariate). Each result is compared with an independent model: kept set by "
    "coordinate, genomic order, per-class constant after replaying the corrections with an independent edge formula, centring, weight range and "
    "monotonicity, and bin-for-bin equality with the unpermuted / unscaled run. Inputs that must be refused are enumerated bin by bin. Exhaustive inside the bound.",
    "note": "Trusted: pandas/numpy; smoothing.rolling_median inside the oracle (rule 6, verified by C19). Not covered: covariate ties (seeded shuffle), "
    "samples with most bins uncovered, clustered references (do_cluster), PAR handling, tables beyond the bound.",
    "technique": "exhaustive enumeration of (reference, sample tables, correction subset, scale, row order) on the real code against a pure-Python model; every configuration also called a second time on the same table objects",
}

"""C13 - access lists exactly the non-N runs of the genome, joined and excluded as asked.

E2: `get_regions` is a state machine over lines with state (cursor, run_start).  The explorer drives
it with EVERY FASTA text of a small alphabet: every word over {A,N} / {A,c,N,n} up to a length
bound, rendered at every line width 1..len+1, with / without a final newline, header with / without
a description; every pair / triple / quadruple of short words as multi-record files (empty records
included); long runs (0..200) whose lengths sit on, one short of and one past the line breaks at
every width 1..80.  `do_access` is run on every (word, <=2 exclude intervals, min_gap) of its grid,
on two-contig files with excludes on either / an absent contig, on every ordered pair of contig
names x skip_noncanonical, on long runs with min_gap up to 300, and through the command line.

Oracle (models/fasta.py): regular expression [^N]+ on the record's sequence; minus the excluded base
set; an admissible joining of the pieces (gaps < min_gap bridged, gaps > min_gap left, a gap equal
to min_gap may be either - the statement is silent on it).
"""
import itertools
import os
import shutil
import tempfile

from checks.common import coords_of, intervals
from mc.engine import Exc
from models import fasta as F

from cnvlib import access  # noqa: E402  (bound by checks.common)
from cnvlib.antitarget import is_canonical_contig_name  # noqa: E402

ID = "C13"
BUDGET = {"quick": 900, "thorough": 5400}
CASE_TIMEOUT = 600

# The statement: "joins neighbouring regions whose gap is smaller than the minimum gap size while
# leaving larger gaps".  A gap exactly equal to the minimum is neither; both outcomes are accepted.
EQUAL_GAP_OPEN = True

TMP_ROOT = "/dev/shm" if os.path.isdir("/dev/shm") and os.access("/dev/shm", os.W_OK) else tempfile.gettempdir()

# Contig names.  The statement names the classes; these are the examples the rule is held to.
CANONICAL = ["chr1", "1", "chrX", "X", "chrY"]
NONCANONICAL = {
    "chr6_x_alt": "alt",
    "chr1_gl_random": "random",
    "chrUn_gl1": "Un",
    "HLA-A": "HLA",
    "chrEBV": "EBV",
    "chrM": "mitochondrial",
    "MT": "mitochondrial",
}
# real assembly spellings of the same classes (rule check only)
NONCANONICAL_REAL = {
    "chr6_GL000250v2_alt": "alt",
    "chr1_KI270706v1_random": "random",
    "chr1_gl000191_random": "random",
    "chrUn_gl000211": "Un",
    "chrUn_KI270302v1": "Un",
    "HLA-A*01:01:01:01": "HLA",
    "HLA-DRB1*15:03:01:02": "HLA",
}
DEFERRED = ["chr6_hap1"]  # not a class the statement names: the package's own rule decides (DESIGN 4.6)
NAMES = CANONICAL + list(NONCANONICAL) + DEFERRED


def keep_name(name, skip):
    """Is a contig of this name reported?"""
    if not skip or name in CANONICAL or name in ("chr2", "chr3", "chr4"):
        return True
    if name in NONCANONICAL:
        return False
    return bool(is_canonical_contig_name(name))


def name_class(name):
    if name in NONCANONICAL:
        return "noncanonical"
    if name in DEFERRED:
        return "package-rule"
    return "canonical"


# --------------------------------------------------------------------------------------------
def describe(tier):
    t = tier == "thorough"
    return {
        "rule": "E2: the line scanner (state = cursor, run_start) is driven by every FASTA text of the alphabet: every word x every "
        "line width 1..len+1 x final newline yes/no x header description yes/no; every tuple of short words as a multi-record "
        "file; long runs with lengths on / around the line breaks at every width 1..80. do_access on every (word, <=2 exclude "
        "intervals as one file / two files / reversed rows, min_gap), two-contig files x excludes on either or an absent contig, "
        "every ordered pair of contig names x skip_noncanonical, long runs x min_gap up to 300, and through `cnvkit.py access`. "
        "state = canonical input (text[, exclude files, min_gap, skip]); non-trivial = the text has both N and non-N characters "
        "(scanner) / the result differs from the plain non-N runs (do_access)",
        "bound": {
            "scan_words": "{A,N}^<=%d and {A,c,N,n}^<=%d, widths 1..len+1, x2 final newline x2 description" % ((13, 8) if t else (10, 6)),
            "scan_records": "pairs of {A,N}^<=4 and of {A,N,n}^<=3; triples of {A,N}^<=%d; quadruples of {A,N}^<=%d; widths 1..maxlen+1"
            % ((4, 3) if t else (3, 2)),
            "scan_long": "segments base/N alternating, lengths from {0,1,2,w-1,w,w+1,2w-1,2w,2w+1,200}: "
            + ("4 segments at every width 1..80" if t else "4 segments at widths 1,60,80; 3 segments from {0,1,w-1,w,w+1,2w,200} at every width 1..80")
            + ", alone and followed by a second record",
            "join": "every {A,N}^<=%d x min_gap 0..len-1, no exclude" % (12 if t else 9),
            "exclude": "every {A,N}^<=%d x every multiset of <=2 intervals over 0..len+1 x min_gap 0..len-1 (one file); two files in both "
            "orders and reversed rows for len<=%d; single intervals for len %d" % ((6, 4, 7) if t else (4, 3, 5)),
            "multi": "two contigs (both name orders) with words from %s x every multiset of <=2 (contig in {first, second, absent}, interval over 0..3) x min_gap %s"
            % (("{ANA,AAA,NAN,AAN,NAA}", "{0,1,2}") if t else ("{ANA,AAA}", "{0,2}")),
            "names": "every ordered pair of the %d names x skip on/off x min_gap {0,2} x {no exclude, exclude on the first}; 4-record windows" % len(NAMES),
            "long_access": "A^a N^g1 A^a N^g2 A^a, a in {1,61}, g in %s, min_gap in %s, widths 60/80, without and with an exclude inside the middle run"
            % (("{1,2,99,100,101,199,200}", "{0,1,2,3,99..102,199..201,299,300}") if t else ("{1,99,100,101,200}", "{0,1,2,100,101,200,201,300}")),
            "cli": "every {A,N}^<=4 + a chrM record x min_gap {0,1,2} x 4 exclude layouts through commands.parse_args / _cmd_access",
        },
        "alphabet": {"names": NAMES, "characters": "A C G T a c g t n (non-N) and N", "equal_gap": "open" if EQUAL_GAP_OPEN else "kept"},
        "assumptions": [
            "FASTA texts have no blank lines inside or after a record (an empty sequence is a header with no sequence line); DESIGN 4 rule 2",
            "a gap exactly equal to min_gap may be kept or bridged (the statement says smaller joins, larger stays)",
            "the contig-name rule is held to the named examples (chr1, 1, chrX, X, chrY canonical; alt, random, Un, HLA, EBV, chrM/MT "
            "non-canonical); for chr6_hap1 the oracle defers to cnvlib.antitarget.is_canonical_contig_name (DESIGN 4 rule 6)",
            "contig names are distinct within a file; the order of contigs in the output is not claimed, only per-contig order",
            "exclude files are 3-column BED with non-empty intervals; the command line always skips non-canonical contigs",
        ],
    }


def words(alpha, n):
    return ["".join(p) for p in itertools.product(alpha, repeat=n)]


def words_upto(alpha, n):
    out = []
    for k in range(n + 1):
        out += words(alpha, k)
    return out


def long_lengths(w, reduced=False):
    base = [0, 1, w - 1, w, w + 1, 2 * w, 200] if reduced else [0, 1, 2, w - 1, w, w + 1, 2 * w - 1, 2 * w, 2 * w + 1, 200]
    return sorted({x for x in base if 0 <= x <= 200})


def cases(tier):
    t = tier == "thorough"
    yield {"check": "rule"}
    # --- scanner: single record, every word ---
    for alpha, maxlen, chunk in (("AN", 13 if t else 10, 5), ("AcNn", 8 if t else 6, 3)):
        for n in range(maxlen + 1):
            for prefix in words(alpha, max(0, n - chunk)):
                yield {"check": "scan-words", "alpha": alpha, "len": n, "prefix": prefix}
    # --- scanner: multi-record files ---
    for alpha, maxlen, k in (("AN", 4, 2), ("ANn", 3, 2), ("AN", 4 if t else 3, 3), ("AN", 3 if t else 2, 4)):
        nhead = 1 if k == 2 else 2
        for head in itertools.product(words_upto(alpha, maxlen), repeat=nhead):
            yield {"check": "scan-records", "alpha": alpha, "maxlen": maxlen, "k": k, "head": list(head)}
    # --- do_access: joining only ---
    for n in range((12 if t else 9) + 1):
        for prefix in words("AN", max(0, n - 3)):
            yield {"check": "join", "len": n, "prefix": prefix}
    # --- do_access: excludes ---
    full, layouts_upto, single = (6, 4, 7) if t else (4, 3, 5)
    for n in range(full + 1):
        for w in words("AN", n):
            for e1 in [None] + intervals(n + 1):
                yield {"check": "excl", "word": w, "e1": e1, "layouts": "all" if n <= layouts_upto else "one"}
    for n in range(full + 1, single + 1):
        for w in words("AN", n):
            yield {"check": "excl-single", "word": w}
    # --- do_access: two contigs, excludes on either / an absent one ---
    mw = ["ANA", "AAA", "NAN", "AAN", "NAA"] if t else ["ANA", "AAA"]
    for w1 in mw:
        for w2 in mw:
            for names in (["chr1", "chr2"], ["chr2", "chr1"]):
                for e1 in [None] + multi_items(names):
                    yield {"check": "multi", "words": [w1, w2], "names": names, "e1": e1, "gaps": [0, 1, 2] if t else [0, 2]}
    # --- do_access: contig names x skip_noncanonical ---
    for n1 in NAMES:
        yield {"check": "names", "n1": n1}
    for i in range(len(NAMES)):
        yield {"check": "names4", "start": i}
    # --- command line ---
    for w in words_upto("AN", 4):
        yield {"check": "cli", "word": w}
    # --- scanner: long runs ---
    if not t:
        for w in (1, 60, 80):
            for first in ("base", "N"):
                for l0 in long_lengths(w):
                    yield {"check": "scan-long", "width": w, "first": first, "k": 4, "reduced": False, "l0": l0}
        for w in range(1, 81):
            for first in ("base", "N"):
                yield {"check": "scan-long", "width": w, "first": first, "k": 3, "reduced": True, "l0": None}
    else:
        for w in range(1, 81):
            for first in ("base", "N"):
                for l0 in long_lengths(w):
                    yield {"check": "scan-long", "width": w, "first": first, "k": 4, "reduced": False, "l0": l0}
    # --- do_access: long runs, min_gap up to 300 ---
    for w in (60, 80):
        for a in (1, 61):
            for ex in (False, True):
                if ex and a == 1:
                    continue
                yield {"check": "long-access", "width": w, "a": a, "exclude": ex, "thorough": t}


def multi_items(names):
    return [[c, s, e] for c in list(names) + ["chr3"] for s, e in intervals(3)]


# --------------------------------------------------------------------------------------------
def run(case, ctx):
    d = tempfile.mkdtemp(prefix="verif-c13-", dir=TMP_ROOT)
    try:
        RUNNERS[case["check"]](case, ctx, d)
    finally:
        shutil.rmtree(d, ignore_errors=True)


def put(d, name, text):
    path = os.path.join(d, name)
    with open(path, "w") as f:
        f.write(text)
    return path


def bed_text(rows):
    return "".join("%s\t%d\t%d\n" % (c, s, e) for c, s, e in rows)


# ---- rule -------------------------------------------------------------------------------------
def run_rule(case, ctx, d):
    table = [(n, True, "canonical") for n in CANONICAL]
    table += [(n, False, k) for n, k in NONCANONICAL.items()]
    table += [(n, False, k) for n, k in NONCANONICAL_REAL.items()]
    for name, want, kind in table:
        got = ctx.call(is_canonical_contig_name, name)
        ctx.state(("rule", name), nontrivial=True)
        ctx.stratum("rule/" + kind)
        if isinstance(got, Exc):
            ctx.violation("the contig-name rule classifies the named examples", f"rule/raises/{got.key}", expected=want, observed=got, sub={"name": name})
            continue
        ctx.trace()
        ctx.outcome(("rule", name, bool(got)))
        if bool(got) != want:
            ctx.violation(
                "the contig-name rule deems alt, random, Un, HLA, EBV, mitochondrial names non-canonical and chr1, 1, chrX, X, chrY canonical",
                f"rule/{kind}/{'called-canonical' if got else 'called-noncanonical'}",
                expected=want,
                observed=bool(got),
                sub={"name": name},
            )
    ctx.sample("rule", {"names": [r[0] for r in table]})


# ---- scanner ------------------------------------------------------------------------------------
def scan_kind(feats):
    if any(f.startswith("line-mixed") for f in feats):
        kind = "mixed-line"
    elif any(f.startswith("line-all-N") for f in feats):
        kind = "all-N-line"
    else:
        kind = "plain-lines"
    return ("multi-record" if "multi-record" in feats else "one-record") + "/" + kind


def scan_all(ctx, d, records, widths, variants=((True, False), (False, False), (True, True), (False, True)), tag="scan"):
    """get_regions on the rendering of `records` at every width x (final newline, description)."""
    want = F.accessible(records)
    want_by = {}
    for c, s, e in want:
        want_by.setdefault(c, []).append((s, e))
    nontrivial = any("N" in seq and seq.count("N") < len(seq) for _, seq in records)
    path = os.path.join(d, "g.fa")
    for width in widths:
        feats = F.line_trace(records, width)
        for f in feats:
            ctx.stratum("scan/" + f)
        for nl, desc in variants:
            text = F.render(records, width, nl, desc)
            with open(path, "w") as fh:
                fh.write(text)
            ctx.state(text, nontrivial=nontrivial)
            if not nl:
                ctx.stratum("scan/no-final-newline")
            if desc:
                ctx.stratum("scan/header-with-description")
            got = ctx.call(lambda: [(c, int(s), int(e)) for c, s, e in access.get_regions(path)])
            sub = {"records": records, "width": width, "final_newline": nl, "description": desc}
            if isinstance(got, Exc):
                ctx.violation(
                    "get_regions reports the non-N runs of any FASTA file",
                    f"get_regions/raises/{got.key}/{scan_kind(feats)}",
                    expected=want,
                    observed=got,
                    sub=sub,
                )
                continue
            ctx.trace()
            ctx.outcome(hash(repr(got)))
            if got == want:
                continue
            got_by = {}
            for c, s, e in got:
                got_by.setdefault(c, []).append((s, e))
            if got_by == want_by:
                continue  # only the order among sequences differs: not claimed
            missing = [r for r in want if r not in got]
            extra = [r for r in got if r not in want]
            if any(e <= s for _, s, e in got):
                reason = "empty-region"
            elif missing and extra:
                reason = "wrong-coordinates"
            elif missing:
                reason = "run-missing"
            elif extra:
                reason = "run-extra"
            else:
                reason = "order-or-duplicates"
            ctx.violation(
                "per sequence exactly the maximal runs of characters other than 'N' (0-based half-open), sorted",
                f"get_regions/{reason}/{scan_kind(feats)}",
                expected=want,
                observed=got,
                sub=sub,
                detail={"text": text},
            )


def run_scan_words(case, ctx, d):
    alpha, n, prefix = case["alpha"], case["len"], case["prefix"]
    for suffix in words(alpha, n - len(prefix)):
        w = prefix + suffix
        scan_all(ctx, d, [["chr1", w]], range(1, max(1, n) + 2))
    ctx.sample("scan-words", {"word": w, "widths": [1, max(1, n) + 1]})


def run_scan_records(case, ctx, d):
    pool = words_upto(case["alpha"], case["maxlen"])
    names = ["chr1", "chr2", "chr3", "chr4"]
    head = case["head"]
    variants = ((True, False), (False, False), (True, True), (False, True)) if case["k"] == 2 else ((True, False), (False, True))
    for tail in itertools.product(pool, repeat=case["k"] - len(head)):
        seqs = head + list(tail)
        records = [[names[i], s] for i, s in enumerate(seqs)]
        scan_all(ctx, d, records, range(1, max(1, max(len(s) for s in seqs)) + 2), variants)
    ctx.sample("scan-records/%d" % case["k"], {"records": records})


BASES = ("ACGT", "acgtn", "TGCAtgca")


def long_sequence(first, lengths):
    seq = []
    nb = 0
    for i, n in enumerate(lengths):
        is_base = (i % 2 == 0) == (first == "base")
        if is_base:
            pat = BASES[nb % len(BASES)]
            nb += 1
            seq.append((pat * (n // len(pat) + 1))[:n])
        else:
            seq.append("N" * n)
    return "".join(seq)


def run_scan_long(case, ctx, d):
    w, first, k = case["width"], case["first"], case["k"]
    lens = long_lengths(w, case["reduced"])
    heads = [[case["l0"]]] if case["l0"] is not None else [[]]
    for head in heads:
        for tail in itertools.product(lens, repeat=k - len(head)):
            seq = long_sequence(first, head + list(tail))
            for recs in ([["chr1", seq]], [["chr1", seq], ["chr2", "NA"]]):
                scan_all(ctx, d, recs, [w], ((True, False), (False, False)))
                ctx.stratum("scan-long/" + ("one-record" if len(recs) == 1 else "two-records"))
    ctx.sample("scan-long", {"width": w, "first": first, "lengths": head + list(tail)})


# ---- do_access --------------------------------------------------------------------------------
def pair_shape(a, b):
    """Relation of two exclude intervals (contig, s, e)."""
    if a[0] != b[0]:
        return "different-contigs"
    (s1, e1), (s2, e2) = sorted([(a[1], a[2]), (b[1], b[2])])
    if (s1, e1) == (s2, e2):
        return "duplicate"
    if s2 >= s1 and e2 <= e1:
        return "nested"
    if s2 < e1:
        return "overlapping"
    if s2 == e1:
        return "touching"
    return "disjoint"


def exclude_feature(exfiles):
    rows = [r for f in exfiles for r in f]
    if not rows:
        return "no-exclude"
    if len(rows) == 1:
        return "one-exclude"
    if len(rows) == 2:
        return "two-excludes-" + pair_shape(rows[0], rows[1]) + ("/two-files" if len(exfiles) == 2 else "/one-file")
    return "many-excludes"


def exclude_strata(ctx, records, exfiles):
    rows = [r for f in exfiles for r in f]
    ctx.stratum("exclude/" + exclude_feature(exfiles))
    names = {n for n, _ in records}
    for c, s, e in rows:
        if c not in names:
            ctx.stratum("exclude/on-absent-contig")
            continue
        seq = dict((n, q) for n, q in records)[c]
        if s >= len(seq):
            ctx.stratum("exclude/beyond-sequence-end")
        for rs, re_ in F.non_n_runs(seq):
            if s <= rs and e >= re_:
                ctx.stratum("exclude/covers-whole-run")
            elif rs < s and e < re_:
                ctx.stratum("exclude/splits-run")
            elif s < re_ and e > rs:
                ctx.stratum("exclude/trims-run-" + ("left" if s <= rs else "right" if e >= re_ else "?"))
            elif e == rs or s == re_:
                ctx.stratum("exclude/abuts-run-edge-outside")
            if s < re_ and e > rs and (s == rs or e == re_):
                ctx.stratum("exclude/touches-run-edge-inside")


def scanner_wrong(fa, records):
    """Classification only: does get_regions itself misreport this file?  (Then do_access inherits it.)"""
    try:
        got = [(c, int(s), int(e)) for c, s, e in access.get_regions(fa)]
    except Exception:  # noqa: BLE001
        return True
    return sorted(got) != sorted(F.accessible(records))


def judge_access(ctx, rows, records, exfiles, min_gap, skip, sub, op="do_access", fa=None):
    """Compare reported rows [(contig, start, end)] with the statement, clause by clause."""
    exall = [tuple(r) for f in exfiles for r in f]
    exfeat = exclude_feature(exfiles)
    inherited = []

    def coord_key(reason):
        # one key for everything a wrong scanner drags along; otherwise reason x exclude layout
        if not inherited:
            inherited.append(fa is not None and scanner_wrong(fa, records))
        return f"{op}/inherited-from-get_regions" if inherited[0] else f"{op}/{reason}/{exfeat}"

    obs = {}
    for c, s, e in rows:
        obs.setdefault(c, []).append((s, e))
    plain = {}
    for c, s, e in F.accessible(records):
        plain.setdefault(c, []).append((s, e))
    seqs = {}
    for n, q in records:
        seqs[n] = q
    # clause: every reported region is non-empty
    empties = [(c, s, e) for c, s, e in rows if e <= s]
    if empties:
        ctx.violation("every reported region is non-empty", coord_key("empty-region"), expected="end > start", observed=empties, sub=sub)
    # clause: sorted and separated by at least one base
    for c, regs in obs.items():
        regs_ne = [r for r in regs if r[1] > r[0]]
        bad = [(a, b) for a, b in zip(regs_ne[:-1], regs_ne[1:]) if not b[0] - a[1] >= 1]
        if bad:
            what = "touching" if all(b[0] == a[1] for a, b in bad) else "unsorted-or-overlapping"
            ctx.violation(
                "regions of a sequence are sorted and separated by at least one base",
                coord_key(what),
                expected="start[i+1] - end[i] >= 1",
                observed=[[c, list(a), list(b)] for a, b in bad],
                sub=sub,
            )
    # clause: contigs
    for c in obs:
        if c not in seqs:
            ctx.violation("only sequences of the FASTA file are reported", f"{op}/unknown-contig/{exfeat}", expected=sorted(seqs), observed=c, sub=sub)
    changed = False
    for name, seq in records:
        ex = F.excluded_positions((s, e) for c, s, e in exall if c == name)
        pieces = F.remove_bases(F.non_n_runs(seq), ex)
        kept = keep_name(name, skip)
        got = sorted(r for r in obs.get(name, []) if r[1] > r[0])
        if not kept:
            ctx.stratum("access/contig-dropped-by-name")
            if plain.get(name):
                changed = True
            if got:
                ctx.violation(
                    "sequences with non-canonical names are dropped when the option is on",
                    f"{op}/noncanonical-contig-reported/skip-on",
                    expected=[],
                    observed=[[name] + list(r) for r in got],
                    sub=sub,
                )
            continue
        if skip is False and name_class(name) == "noncanonical" and pieces:
            ctx.stratum("access/noncanonical-kept-with-option-off")
        if pieces and not got:
            ctx.violation(
                "a sequence is dropped exactly when its name is non-canonical and the option is on",
                coord_key(f"contig-missing/{name_class(name)}/skip-{'on' if skip else 'off'}"),
                expected=[[name] + list(r) for r in F.join_strict(pieces, min_gap)],
                observed=[],
                sub=sub,
            )
            continue
        strict = F.join_strict(pieces, min_gap)
        if strict != plain.get(name, []):
            changed = True
        gaps = [b[0] - a[1] for a, b in zip(pieces[:-1], pieces[1:])]
        for g in gaps:
            ctx.stratum("access/gap-smaller-than-min" if g < min_gap else "access/gap-equal-min" if g == min_gap else "access/gap-larger-than-min")
        if not pieces:
            ctx.stratum("access/sequence-has-no-accessible-base" if not plain.get(name) else "access/everything-excluded")
        if min_gap in gaps and got == strict:
            ctx.stratum("access/equal-gap/implementation-kept-it")
        elif min_gap in gaps and F.join_strict(pieces, min_gap + 1) == got:
            ctx.stratum("access/equal-gap/implementation-bridged-it")
        reasons = F.judge_join(pieces, got, min_gap, EQUAL_GAP_OPEN)
        if not reasons:
            continue
        for reason in reasons:
            detail = None
            if reason == "inaccessible-base-reported":
                bridge = set()
                for a, b in zip(pieces[:-1], pieces[1:]):
                    if b[0] - a[1] < min_gap or (EQUAL_GAP_OPEN and b[0] - a[1] == min_gap):
                        bridge.update(range(a[1], b[0]))
                bad = sorted(F.excluded_positions(got) - F.excluded_positions(pieces) - bridge)
                kinds = set()
                for p in bad:
                    kinds.add("beyond-sequence-end" if p >= len(seq) else "N-base" if seq[p] == "N" else "excluded-base")
                reason = "+".join(sorted(kinds)) + "-reported"
                detail = {"positions": bad[:20]}
            clause = {
                "accessible-base-missing": "access reports exactly the non-N runs minus the excluded regions (an accessible base is not reported)",
                "small-gap-not-joined": "neighbouring regions whose gap is smaller than the minimum gap size are joined",
                "not-a-joining-of-the-pieces": "the reported regions are the non-N, non-excluded pieces joined over gaps smaller than the minimum, larger gaps left",
            }.get(reason, "no reported base is an N or excluded unless it lies in a gap that was deliberately bridged (larger gaps are left)")
            ctx.violation(
                clause,
                coord_key(reason),
                expected=[[name] + list(r) for r in strict],
                observed=[[name] + list(r) for r in got],
                sub=sub,
                detail=detail,
            )
    if not rows:
        ctx.stratum("access/result-empty")
    return changed


def access_once(ctx, d, records, width, exfiles, min_gap, skip, extra_sub=None):
    fa = put(d, "g.fa", F.render(records, width))
    paths = [put(d, "x%d.bed" % i, bed_text(rows)) for i, rows in enumerate(exfiles)]
    sub = {"records": records, "width": width, "exclude_files": exfiles, "min_gap_size": min_gap, "skip_noncanonical": skip}
    if extra_sub:
        sub.update(extra_sub)
    res = ctx.call(access.do_access, fa, paths, min_gap, skip)
    if isinstance(res, Exc):
        ctx.violation(
            "do_access reports the accessible regions of any FASTA file",
            "do_access/inherited-from-get_regions" if scanner_wrong(fa, records) else f"do_access/raises/{res.key}/{exclude_feature(exfiles)}",
            expected="a region table",
            observed=res,
            sub=sub,
        )
        ctx.state(("access", records, width, exfiles, min_gap, skip))
        return
    rows = ctx.call(coords_of, res)
    if isinstance(rows, Exc):
        ctx.violation("do_access returns a region table", f"do_access/result-unreadable/{rows.key}", observed=rows, sub=sub)
        return
    ctx.trace()
    ctx.outcome(hash(repr(rows)))
    exclude_strata(ctx, records, exfiles)
    changed = judge_access(ctx, rows, records, exfiles, min_gap, skip, sub, fa=fa)
    ctx.state(("access", records, width, exfiles, min_gap, skip), nontrivial=changed)


def run_join(case, ctx, d):
    n, prefix = case["len"], case["prefix"]
    for suffix in words("AN", n - len(prefix)):
        w = prefix + suffix
        for m in range(0, max(2, n)):
            access_once(ctx, d, [["chr1", w]], 1 + m % 3, [], m, True)
    ctx.sample("join", {"word": w, "min_gap": [0, max(2, n) - 1]})


def gap_range(n):
    return range(0, max(2, n))


def run_excl(case, ctx, d):
    w, e1 = case["word"], case["e1"]
    n = len(w)
    recs = [["chr1", w]]
    ivs = intervals(n + 1)
    if e1 is None:
        seconds = [None]
    else:
        e1 = tuple(e1)
        seconds = [None] + [iv for iv in ivs if iv >= e1]
    for e2 in seconds:
        rows = [["chr1", e[0], e[1]] for e in (e1, e2) if e is not None]
        layouts = [[rows]] if rows else [[]]
        if len(rows) == 2 and case["layouts"] == "all":
            layouts += [[[rows[0]], [rows[1]]], [[rows[1]], [rows[0]]]]
            if rows[0] != rows[1]:
                layouts.append([[rows[1], rows[0]]])
        for m in gap_range(n):
            for files in layouts:
                access_once(ctx, d, recs, 1 + m % 3, files, m, True)
    ctx.sample("excl", {"word": w, "e1": e1, "e2_last": e2})


def run_excl_single(case, ctx, d):
    w = case["word"]
    n = len(w)
    for iv in intervals(n + 1):
        for m in gap_range(n):
            access_once(ctx, d, [["chr1", w]], 1 + m % 3, [[["chr1", iv[0], iv[1]]]], m, True)
    ctx.sample("excl-single", {"word": w})


def run_multi(case, ctx, d):
    names, e1 = case["names"], case["e1"]
    recs = [[names[0], case["words"][0]], [names[1], case["words"][1]]]
    items = multi_items(names)
    seconds = [None] if e1 is None else [None] + items[items.index(e1) :]
    for e2 in seconds:
        rows = [e for e in (e1, e2) if e is not None]
        layouts = [[rows]] if rows else [[]]
        if len(rows) == 2 and rows[0][0] != rows[1][0]:
            layouts.append([[rows[1]], [rows[0]]])
        for m in case["gaps"]:
            for files in layouts:
                access_once(ctx, d, recs, 2, files, m, True)
    ctx.sample("multi", {"records": recs, "e1": e1})


def run_names(case, ctx, d):
    n1 = case["n1"]
    for n2 in NAMES:
        if n2 == n1:
            continue
        recs = [[n1, "ANA"], [n2, "AAN"]]
        for skip in (True, False):
            for m in (0, 2):
                for files in ([], [[[n1, 0, 1]]]):
                    access_once(ctx, d, recs, 2, files, m, skip)
    ctx.sample("names", {"n1": n1})


def run_names4(case, ctx, d):
    i = case["start"]
    four = [NAMES[(i + j) % len(NAMES)] for j in range(4)]
    seqs = ["ANA", "", "NNA", "AANA"]
    recs = [[n, s] for n, s in zip(four, seqs)]
    for skip in (True, False):
        for m in (0, 2):
            for files in ([], [[[four[3], 1, 2]], [[four[0], 0, 1]]]):
                access_once(ctx, d, recs, 3, files, m, skip)
    ctx.sample("names4", {"records": recs})


def run_long_access(case, ctx, d):
    t, a, w = case["thorough"], case["a"], case["width"]
    gaps = [1, 2, 99, 100, 101, 199, 200] if t else [1, 99, 100, 101, 200]
    mins = [0, 1, 2, 3, 99, 100, 101, 102, 199, 200, 201, 299, 300] if t else [0, 1, 2, 100, 101, 200, 201, 300]
    for g1 in gaps:
        for g2 in gaps:
            seq = long_sequence("base", [a, g1, a, g2, a])
            files = []
            if case["exclude"]:
                mid = a + g1
                files = [[["chr1", mid + 10, mid + 20], ["chr1", mid + 12, mid + 15]]]  # a nested pair opening a 10-base gap
            for m in mins:
                access_once(ctx, d, [["chr1", seq]], w, files, m, True)
    ctx.sample("long-access", {"a": a, "width": w})


# ---- command line -------------------------------------------------------------------------------
def run_cli(case, ctx, d):
    from cnvlib import commands

    w = case["word"]
    recs = [["chr1", w], ["chrM", "AA"]]
    n = len(w)
    layouts = [[], [[["chr1", 1, 2]]], [[["chr1", 0, 3], ["chr1", 1, 2]]], [[["chr1", 0, 1]], [["chr1", 2, 3]]]]
    for files in layouts:
        for m in (0, 1, 2):
            fa = put(d, "g.fa", F.render(recs, 2))
            paths = [put(d, "x%d.bed" % i, bed_text(rows)) for i, rows in enumerate(files)]
            out = os.path.join(d, "out.bed")
            argv = ["access", fa, "-s", str(m), "-o", out]
            for p in paths:
                argv += ["-x", p]
            sub = {"records": recs, "width": 2, "exclude_files": files, "argv": ["access", "g.fa", "-s", str(m), "-o", "out.bed"] + ["-x <bed>"] * len(paths)}

            def go():
                args = commands.parse_args(argv)
                try:
                    args.func(args)
                finally:
                    args.output.close()
                with open(out) as f:
                    return [(p[0], int(p[1]), int(p[2])) for p in (ln.rstrip("\n").split("\t") for ln in f if ln.strip())]

            rows = ctx.call(go)
            ctx.state(("cli", recs, files, m))
            if isinstance(rows, Exc):
                ctx.violation(
                    "the access command writes the accessible regions of any FASTA file",
                    "access-cli/inherited-from-get_regions" if scanner_wrong(fa, recs) else f"access-cli/raises/{rows.key}/{exclude_feature(files)}",
                    expected="a BED file",
                    observed=rows,
                    sub=sub,
                )
                continue
            ctx.trace()
            ctx.outcome(hash(repr(rows)))
            ctx.stratum("cli/" + exclude_feature(files))
            judge_access(ctx, rows, recs, files, m, True, sub, op="access-cli", fa=fa)
    ctx.sample("cli", {"word": w, "n": n})


RUNNERS = {
    "rule": run_rule,
    "scan-words": run_scan_words,
    "scan-records": run_scan_records,
    "scan-long": run_scan_long,
    "join": run_join,
    "excl": run_excl,
    "excl-single": run_excl_single,
    "multi": run_multi,
    "names": run_names,
    "names4": run_names4,
    "long-access": run_long_access,
    "cli": run_cli,
}


MANIFEST = {
    "text": "Explicit-state exploration of the real FASTA scanner (cnvlib.access.get_regions, state = cursor and open run, one "
    "transition per line) driven by every FASTA text of a small alphabet: every word over {A,N} and {A,c,N,n} up to a length "
    "bound at every line width, with/without final newline and header description, every tuple of short words as a "
    "multi-record file (empty records included), and long runs whose lengths sit on and around the line breaks at every width "
    "1..80; plus bounded-exhaustive enumeration of do_access over (sequence, <=2 exclude intervals in one or two BED files, "
    "min_gap), two-contig files with excludes on either or an absent contig, every ordered pair of contig names x "
    "skip_noncanonical, long runs with min_gap up to 300, and the `access` command line. Each result is compared with a "
    "regular-expression / base-set reference model clause by clause. Exhaustive inside the stated bound, nothing sampled.",
    "note": "Trusted: pandas/numpy, the reference model (two formulations cross-checked in selftest/fasta.py). A gap exactly equal "
    "to min_gap may be kept or bridged (the statement is silent). The contig-name rule is held to the named examples; for "
    "chr6_hap1 the oracle defers to the package rule. Not covered: blank lines inside a FASTA record (outside the "
    "quantifier), CRLF files, IUPAC codes other than N, sequences beyond the bound, duplicate contig names.",
    "technique": "explicit-state enumeration of FASTA texts x line widths on the real scanner and of (text, excludes, min_gap, skip) "
    "configurations on do_access, regular-expression + base-set reference model as oracle",
}

"""C12 - target and antitarget bins partition exactly the space they should.

E1: every bait table of a small grid (overlapping, nested, abutting, duplicated, zero-width rows; 1..3
contigs) through `do_target` in every mode (no split / split x average sizes, short names, annotation);
every (target table, access table | none, average, minimum) of a deviation-bounded product through
`do_antitarget`; one-base sweeps across every behavioural boundary (padded targets meeting, stretch =
minimum, bin = 1.5 x average, access regions meeting after shrinking).

Coordinates: unit 400 bases, origin 200 000 (the guessed-extent path, which skips the first 150 kb, is
live); the 500-base margin is therefore never a multiple of the grid.

Oracle (models/bins.py): the clauses of the statement, each evaluated on the returned bins from interval
sweeps over the inputs - nothing of the implementation is called.
"""
import atexit
import itertools
import os
import shutil
import tempfile

from checks.common import GA, multisets
from checks.c06 import shape_of
from mc.engine import Exc
from models import bins as B
from models import intervals as M

from cnvlib import antitarget, commands, target  # noqa: E402  (bound by checks.common)

ID = "C12"
BUDGET = {"quick": 900, "thorough": 5400}
CASE_TIMEOUT = 900

O, U = 200000, 400
CONTIG_ORDER = ["chr1", "chr2", "chr3", "chr10", "chrM", "chrUn_x", "chr6_x_alt"]  # as GenomicArray.sort orders them
CANONICAL = {"chr1", "chr2", "chr3", "chr10"}  # chrM (mitochondrial), chrUn_x (unplaced), chr6_x_alt (alternate) are not canonically named
DEFAULT_TARGET_AVG = 200 / 0.75

# (average, minimum); None = the default minimum; the statement's precondition is minimum <= average / 2
SIZES = [(1000, None), (600, 300), (1000, 100), (1000, 500), (600, None), (600, 100), (3000, None), (3000, 100), (3000, 1500)]
SIZES_MAIN = SIZES[:2]

# access tables on chr1 in units; None = no access table (guessed extents)
A_REP = [
    None,
    ((-2, 12),),
    ((1, 12),),  # starts inside the target grid
    ((-2, 5),),  # ends inside the target grid
    ((-2, 4), (4, 12)),  # abutting: each region loses its own margin
    ((-2, 6), (5, 12)),  # overlap shorter than two margins: a gap opens after shrinking
    ((-2, 8), (3, 12)),  # overlap longer than two margins
    ((-2, 12), (2, 6)),  # nested
    ((0, 3), (7, 12)),  # far apart
]
A_ALL = list(range(9))
A_CORE = [0, 1, 2, 4, 7]  # none, full, starts-inside, abutting, nested
A_NAMES = ["none", "full", "starts-inside", "ends-inside", "abutting", "short-overlap", "long-overlap", "nested", "far-apart"]

# target tables on chr1 in units
T_REP = [
    ((3, 5),),
    ((0, 2),),
    ((3, 5), (3, 5)),  # duplicate
    ((2, 4), (4, 6)),  # abutting
    ((2, 5), (4, 7)),  # overlapping
    ((1, 7), (3, 4)),  # nested
    ((2, 3), (2, 6)),  # nested, shared start
    ((2, 6), (5, 6)),  # nested, shared end
    ((2, 3), (4, 5)),  # gap 400: padded targets overlap
    ((2, 3), (5, 6)),  # gap 800: padded targets overlap
    ((1, 2), (5, 6)),  # gap 1200: 200 bases left
    ((1, 2), (6, 7)),  # gap 1600: 600 left
    ((0, 1), (6, 7)),  # gap 2000: 1000 left
    ((0, 1), (7, 8)),  # gap 2400: 1400 left
    ((0, 1), (3, 4), (7, 8)),
    ((0, 8), (1, 6), (2, 4)),  # nested three deep
    ((0, 3), (2, 5), (4, 8)),  # chain
]

LABELS = ["A", "B", "mRNA|X1,ref|G1", "ens|E1,ref|G1", "mRNA|X1,mRNA|X2", "ref|G2,ens|E1", "-"]
LABEL_SHAPES = {
    "disjoint": ((0, 1), (2, 3), (4, 5)),
    "zero-first": ((0, 0), (1, 2), (3, 4)),
    "zero-middle": ((0, 1), (2, 2), (3, 4)),
    "zero-last": ((0, 1), (2, 3), (4, 4)),
    "overlapping": ((0, 2), (1, 3), (4, 5)),
    "nested": ((0, 5), (1, 2), (3, 4)),
}
LABEL_SHAPES4 = {
    "disjoint4": ((0, 1), (2, 3), (4, 5), (6, 7)),
    "zero-first4": ((0, 0), (1, 2), (2, 4), (6, 7)),
}
ANNOTATIONS = {
    "one-gene": [("chr1", -2, 12, "GENEA")],
    "two-overlapping": [("chr1", 0, 4, "GA"), ("chr1", 3, 9, "GB")],
    "nested-multi-accession": [("chr1", 0, 9, "mRNA|X1,ref|G1"), ("chr1", 2, 3, "ens|E1,ref|G1"), ("chr2", 0, 9, "G2")],
    "elsewhere": [("chr1", 20, 22, "FAR"), ("chr2", 0, 9, "G2")],
}
TARGET_LAYOUTS = {
    "single": [],
    "+chr2": [("chr2", 2, 4)],
    "+chrUn_x": [("chrUn_x", 1, 2)],
    "+chr2+chrUn_x": [("chr2", 2, 4), ("chrUn_x", 1, 2)],
    # genomic order (chr2 before chr10) differs from the order of the names as strings; the two baits differ in length
    "+chr2+chr10": [("chr2", 2, 4), ("chr10", 1, 9)],
}
FINE_GEOMETRIES = ["gap", "left-edge", "right-edge", "access-overlap"]


def pos(u):
    return O + U * u


def describe(tier):
    t = tier == "thorough"
    return {
        "rule": "E1: every bait table of the grid through do_target (no split; split x avg; short names; annotation files) and every "
        "label sequence through shorten_labels; every (targets, access | none, avg, min) of the deviation-bounded product through "
        "do_antitarget: all target tables x representative access tables, representative target tables x all access tables, "
        "small target tables x representative access x all 9 size pairs, contig layouts, zero-width targets, target output fed to "
        "antitarget, and one-base sweeps over the distances at which behaviour changes. "
        "state = canonical (tables, sizes, options); non-trivial = bins came back and something was cut, dropped, merged or subtracted",
        "bound": {
            "grid": "unit 400 bases, origin 200000; margins are 500 so grid and margin never coincide",
            "target_tables": ("<=3 bait rows incl. zero-width over 0..10 units" if t else "<=3 bait rows incl. zero-width over 0..5 units")
            + " on chr1 x {alone; <=2 rows also +chr2, +chrUn_x, both} x {no split, split at 266.67 / 400 / 1000} x short names (alone)",
            "target_fine": "one bait of every length 1..%d x avg {266.67, 267, 400, 1000, 100}" % (6000 if t else 1500),
            "labels": "every label sequence over 7 labels on 6 three-row tables" + (" and 2 four-row tables" if t else "")
            + " x short x split; shorten_labels on every sequence of <=5 labels; 4 annotation files x tables x layouts x short x split",
            "antitarget_targets": ("every non-empty multiset of <=2 intervals over 0..10 and of 3 over 0..9" if t else "every non-empty multiset of <=2 intervals over 0..8 and of 3 over 0..6")
            + " x 9 representative access tables (incl. none) x sizes (1000, default), (600, 300)"
            + ("" if t else " (3-interval tables: the first size pair and 5 access tables only)")
            + "; multi-contig layout for "
            + ("<=2 over 0..8 and 3 over 0..6" if t else "<=2 over 0..6, first size pair"),
            "antitarget_access": ("every set of <=2 intervals over -2..12" if t else "every interval over -2..12 and every pair of intervals on the even grid -2..12")
            + " x 17 representative target tables x the same 2 size pairs" + ("" if t else " (pairs of access intervals: the first only)"),
            "antitarget_sizes": ("<=2 intervals over 0..8" if t else "<=2 intervals over 0..5") + (" x 9" if t else " x 5") + " access tables x avg {600,1000,3000} x min {default,100,avg/2}",
            "antitarget_contigs": "chr1 targets {none, single, nested} x {chr2, chrUn_x} baits x access {none, chr1 {absent, full, two regions} x subsets of "
            "{chr2, chrUn_x, chr3, chr6_x_alt}} sharing a contig with the targets x 2 size pairs",
            "antitarget_fine": ("distance 900..2700 step 1" if t else "distance 940..1160, 1880..1920, 2480..2520 step 1")
            + " x geometries {gap between targets, left access edge, right access edge, overlap of two access regions} x sizes",
            "antitarget_zero_width": ("<=3 rows over 0..7" if t else "<=3 rows over 0..5") + " with >=1 zero-width and >=1 non-empty target x 2 access tables",
            "antitarget_origin": "<=2 intervals over 0..4 at origin 0 (margin clipped at 0) x {none, 2 access tables}",
            "pipeline": "do_target(split) output of every <=2-interval table over 0..6 fed to do_antitarget x 3 access tables",
            "command_line": "cnvkit.py target on 20 bait files x 5 option sets; cnvkit.py antitarget on 17 target files x {no access, 2 access files} "
            "x 2 size pairs with -o, and once with the output name left to the command",
        },
        "alphabet": {
            "contigs": CONTIG_ORDER,
            "sizes": [[a, m] for a, m in SIZES],
            "access_representatives": A_NAMES,
            "target_representatives": [list(map(list, x)) for x in T_REP],
            "labels": LABELS,
            "annotations": list(ANNOTATIONS),
        },
        "assumptions": [
            "tables are built with GenomicArray.from_rows, rows sorted as GenomicArray.sort sorts them (chr1, chr2, chr3, chrUn_x, chr6_x_alt)",
            "minimum <= average/2 (DESIGN 4.2: the statement's precondition)",
            "without an access table the accessible region of a targeted contig is [150000, end of its last target) (docstring of get_antitargets)",
            "the default minimum is 1/16 of the average (command-line help); its rounding is open: bins >= avg/16 - 2, stretches >= avg/16 + 1 covered",
            "an access table names at least one targeted contig and there is at least one target (otherwise the code refuses by design: 'Chromosome names do not match')",
            "chr1, chr2, chr3 are canonically named; chrUn_x and chr6_x_alt are not (the contig-name rule itself is C13's)",
            "a zero-width target may or may not keep bins away: bins must respect the non-empty targets, coverage is demanded only outside the margins of all rows",
            "an exact .5 tie in length/avg may round either way; the order among non-canonical contigs is open",
            "annotation files are BED4, written under /tmp/c12_*; an annotation shares a contig with the baits",
        ],
    }


# --------------------------------------------------------------------------------------------
def ne_intervals(lo, hi, step=1):
    return [(s, e) for s in range(lo, hi + 1, step) for e in range(s + step, hi + 1, step)]


def all_intervals(n):
    return [(s, e) for s in range(n + 1) for e in range(s, n + 1)]


def sets_upto2(items):
    return [(x,) for x in items] + list(itertools.combinations(items, 2))


def cases(tier):
    t = tier == "thorough"
    # ---- target
    for L in range(0, 6):
        yield {"check": "shorten-labels", "len": L}
    tabs = multisets(all_intervals(10 if t else 5), 3)
    for b in tabs:
        if b:
            yield {"check": "target-tables", "b": b, "layouts": list(TARGET_LAYOUTS) if len(b) <= 2 else ["single"]}
    top = 6000 if t else 1500
    for lo in range(1, top + 1, 50):
        yield {"check": "target-fine", "lo": lo, "hi": min(top, lo + 49)}
    for shape in LABEL_SHAPES:
        for first in LABELS:
            yield {"check": "target-labels", "shape": shape, "first": first}
    if t:
        for shape in LABEL_SHAPES4:
            for first in LABELS:
                for second in LABELS:
                    yield {"check": "target-labels", "shape": shape, "first": first, "second": second}
    for shape in list(LABEL_SHAPES) + list(LABEL_SHAPES4):
        for ann in ANNOTATIONS:
            yield {"check": "target-annotate", "shape": shape, "ann": ann}
    # ---- antitarget
    if t:
        ttabs = [x for x in multisets(ne_intervals(0, 10), 2) if x] + [x for x in multisets(ne_intervals(0, 9), 3) if len(x) == 3]
        multi = [x for x in multisets(ne_intervals(0, 8), 2) if x] + [x for x in multisets(ne_intervals(0, 6), 3) if len(x) == 3]
    else:
        ttabs = [x for x in multisets(ne_intervals(0, 8), 2) if x] + [x for x in multisets(ne_intervals(0, 6), 3) if len(x) == 3]
        multi = [x for x in multisets(ne_intervals(0, 6), 2) if x]
    for x in ttabs:
        small = t or len(x) <= 2
        yield {"check": "antitarget-targets", "t": x, "layout": "single", "nsizes": 2 if small else 1, "access": A_ALL if small else A_CORE}
    for x in multi:
        yield {"check": "antitarget-targets", "t": x, "layout": "multi", "nsizes": 2 if t else 1, "access": A_ALL}
    if t:
        atabs = sets_upto2(ne_intervals(-2, 12))
    else:
        singles = ne_intervals(-2, 12)
        atabs = [(x,) for x in singles] + list(itertools.combinations(ne_intervals(-2, 12, 2), 2))
    for a in atabs:
        yield {"check": "antitarget-access", "a": a, "nsizes": 2 if (t or len(a) == 1) else 1}
    for x in multisets(ne_intervals(0, 8 if t else 5), 2):
        if x:
            yield {"check": "antitarget-sizes", "t": x, "access": A_ALL if t else A_CORE}
    for t1 in ((), ((3, 5),), ((1, 7), (3, 4))):
        for tl in TARGET_LAYOUTS:
            if t1 or TARGET_LAYOUTS[tl]:
                yield {"check": "antitarget-contigs", "t": t1, "tlayout": tl}
    # names whose *length* disagrees with the canonical-name rule: a short non-canonical one (chrM) and a canonical
    # one longer than every targeted name (chr10), with a canonical and a non-canonical contig both targeted
    # ... and chr2 before chr10 (genomic order differs from the lexicographic one) with different last-target ends,
    # which matters for the guessed extents when no access table is given
    for textra in ([("chrM", 1, 2)], [("chrUn_x", 1, 2)], [("chrM", 1, 2), ("chr2", 2, 4)], [("chr2", 2, 4), ("chr10", 1, 9)]):
        yield {"check": "antitarget-contigs", "t": ((3, 5),), "tlayout": "single", "textra": textra, "extras": NAMELEN_EXTRAS, "a1": [((-2, 12),)]}
    if t:
        dists = list(range(900, 2701))
    else:
        dists = list(range(940, 1161)) + list(range(1880, 1921)) + list(range(2480, 2521))
    for geom in FINE_GEOMETRIES:
        for i in range(0, len(dists), 40):
            yield {"check": "antitarget-fine", "geom": geom, "d": dists[i : i + 40]}
    for b in multisets(all_intervals(7 if t else 5), 3):
        if any(s == e for s, e in b) and any(s != e for s, e in b):
            yield {"check": "antitarget-zero-width", "b": b}
    for x in multisets(ne_intervals(0, 4), 2):
        if x:
            yield {"check": "antitarget-origin", "t": x}
    for x in multisets(ne_intervals(0, 6), 2):
        if x:
            yield {"check": "pipeline", "t": x}
    for i in range(len(CLI_BAITS)):
        yield {"check": "cli-target", "b": i}
    for i in range(len(T_REP)):
        yield {"check": "cli-antitarget", "t": i, "output": "given"}
    yield {"check": "cli-antitarget", "t": 0, "output": "default"}


def run(case, ctx):
    RUNNERS[case["check"]](case, ctx)


# --------------------------------------------------------------------------------------------
# table builders and readers
def sort_rows(rows):
    return sorted(rows, key=lambda r: (CONTIG_ORDER.index(r[0]), r[1], r[2]))


def bait_table(rows, labels=None):
    """(GenomicArray with a gene column, rows as tuples) from (chrom, start, end) in bases."""
    rows = sort_rows(rows)
    full = [(c, s, e, labels[i] if labels else "g%d" % i) for i, (c, s, e) in enumerate(rows)]
    return GA.from_rows(full, columns=["chromosome", "start", "end", "gene"]), full


def access_table(rows):
    return GA.from_rows(sort_rows(rows), columns=["chromosome", "start", "end"])


def read_bins(garr, with_gene=True):
    cols = ["chromosome", "start", "end"] + (["gene"] if with_gene and "gene" in garr.data.columns else [])
    out = []
    for r in garr.data[cols].itertuples(index=False, name=None):
        out.append((str(r[0]), int(r[1]), int(r[2])) + tuple(r[3:]))
    return out


def chr1_rows(units, origin=O):
    return [("chr1", origin + U * s, origin + U * e) for s, e in units]


_ANN_DIR = []


def scratch_dir():
    if not _ANN_DIR:
        d = tempfile.mkdtemp(prefix="c12_run_", dir="/tmp")
        atexit.register(shutil.rmtree, d, True)
        _ANN_DIR.append(d)
    return _ANN_DIR[0]


def annotation_file(name):
    path = os.path.join(scratch_dir(), name + ".bed")
    if not os.path.exists(path):
        with open(path, "w") as f:
            for c, s, e, g in ANNOTATIONS[name]:
                f.write("%s\t%d\t%d\t%s\n" % (c, pos(s), pos(e), g))
    return path


# --------------------------------------------------------------------------------------------
# target
def zero_feature(full):
    """How zero-width rows sit in the table: none / trailing (after every kept row) / leading-or-inner."""
    zero = [i for i, r in enumerate(full) if r[1] == r[2]]
    kept = [i for i, r in enumerate(full) if r[1] != r[2]]
    if not zero:
        return "no-zero-width"
    if not kept:
        return "only-zero-width"
    return "zero-width-before-kept-row" if zero[0] < kept[-1] else "zero-width-trailing"


def check_target(ctx, bga, full, split, avg, short, annotate, sub):
    """One do_target call against the statement.  Returns (bins or None, changed?)."""
    got = ctx.call(target.do_target, bga, annotate, short, split, avg)
    kept = B.nonempty(full)
    mode = ("split" if split else "no-split") + ("+annotate" if annotate else "") + ("+short-names" if short else "")
    s = {"split": split, "avg": avg, "short_names": short, "annotate": os.path.basename(annotate) if annotate else None, **(sub or {})}
    if isinstance(got, Exc):
        ctx.violation(
            "do_target returns the bins (annotation and label shortening never change their number or coordinates)"
            if (short or annotate)
            else "do_target returns the bins",
            f"target/raises/{got.key}/{mode}/{zero_feature(full)}",
            expected=[r[:3] for r in kept] if not split else None,
            observed=got,
            sub=s,
        )
        return None, False
    ctx.trace()
    out = read_bins(got)
    coords = [r[:3] for r in out]
    ctx.outcome(hash(("target", mode, tuple(out))))
    if not split:
        want = kept if not (short or annotate) else [r[:3] for r in kept]
        have = out if not (short or annotate) else coords
        if have != want:
            ctx.violation(
                "without --split the non-empty baits are returned unchanged"
                if not (short or annotate)
                else "label shortening and annotation never change the number or coordinates of bins",
                f"target/{mode}/rows/{zero_feature(full)}",
                expected=want,
                observed=have,
                sub=s,
            )
    else:
        for clause, key in B.split_problems(kept, coords, avg, CONTIG_ORDER[:3]):
            ctx.violation(
                "target --split: " + clause,
                f"target/{mode}/{key}/{shape_of(kept)}",
                expected={"merged_baits": M.cover(kept), "avg": avg},
                observed=coords,
                sub=s,
            )
    return coords, coords != [r[:3] for r in full]


TARGET_MODES = [(False, DEFAULT_TARGET_AVG), (True, DEFAULT_TARGET_AVG), (True, 400), (True, 1000)]


def run_target_tables(case, ctx):
    base = chr1_rows(case["b"])
    for layout in case["layouts"]:
        rows = base + [(c, pos(s), pos(e)) for c, s, e in TARGET_LAYOUTS[layout]]
        bga, full = bait_table(rows)
        kept = B.nonempty(full)
        changed = False
        for split, avg in TARGET_MODES:
            for short in (False, True) if layout == "single" else (False,):
                if short and not len(full):
                    continue
                _bins, ch = check_target(ctx, bga, full, split, avg, short, None, {"layout": layout})
                changed = changed or ch
        ctx.state(("target", case["b"], layout), nontrivial=changed)
        ctx.stratum("baits-" + shape_of(kept))
        ctx.stratum("baits-" + zero_feature(full))
        if len({r[0] for r in kept}) > 1:
            ctx.stratum("baits-multi-contig")
        for c in M.cover(kept):
            for s, e in M.cover(kept)[c]:
                for _sp, avg in TARGET_MODES[1:]:
                    q = (e - s) / avg
                    if abs(q - int(q) - 0.5) < 1e-9:
                        ctx.stratum("target-length/avg-tie")
                    if len(B.bin_counts(e - s, avg)) == 1 and max(B.bin_counts(e - s, avg)) > 1 and (e - s) % max(B.bin_counts(e - s, avg)):
                        ctx.stratum("target-uneven-cut")
    ctx.sample("target-tables", {"baits": base, "layouts": case["layouts"]})


def run_target_fine(case, ctx):
    for length in range(case["lo"], case["hi"] + 1):
        bga, full = bait_table([("chr1", O + 7, O + 7 + length)])
        for avg in (DEFAULT_TARGET_AVG, 267, 400, 1000, 100):
            _bins, ch = check_target(ctx, bga, full, True, avg, False, None, {"length": length})
            ctx.state(("target-fine", length, avg), nontrivial=ch)
            q = length / avg
            if abs(q - int(q) - 0.5) < 1e-9:
                ctx.stratum("target-length/avg-tie")
    ctx.sample("target-fine", {"lo": case["lo"], "hi": case["hi"]})


def run_shorten_labels(case, ctx):
    for seq in itertools.product(LABELS, repeat=case["len"]):
        got = ctx.call(lambda: list(target.shorten_labels(list(seq))))
        if isinstance(got, Exc):
            ctx.violation("shorten_labels emits one name per input label", f"shorten-labels/raises/{got.key}", observed=got, sub={"labels": seq})
            continue
        ctx.trace()
        ctx.outcome(hash(("short", tuple(got))))
        ctx.state(("labels", seq), nontrivial=list(got) != list(seq))
        if len(got) != len(seq):
            ctx.violation(
                "shorten_labels emits one name per input label", "shorten-labels/count", expected=len(seq), observed=got, sub={"labels": seq}
            )
        runs = sum(1 for a, b in zip(seq[:-1], seq[1:]) if set(a.split(",")) & set(b.split(",")))
        if runs:
            ctx.stratum("labels-shared-accession-run")
    ctx.sample("shorten-labels", {"len": case["len"], "labels": LABELS})


def run_target_labels(case, ctx):
    shapes = {**LABEL_SHAPES, **LABEL_SHAPES4}
    units = shapes[case["shape"]]
    fixed = [case["first"]] + ([case["second"]] if "second" in case else [])
    for rest in itertools.product(LABELS, repeat=len(units) - len(fixed)):
        labels = fixed + list(rest)
        bga, full = bait_table(chr1_rows(units), labels)
        changed = False
        for split in (False, True):
            for short in (False, True):
                _bins, ch = check_target(ctx, bga, full, split, 400, short, None, {"labels": labels})
                changed = changed or ch
        ctx.state(("target-labels", case["shape"], labels), nontrivial=changed)
    ctx.stratum("labels-table-" + zero_feature(full))
    ctx.sample("target-labels", {"shape": case["shape"], "units": units, "labels_last": labels})


def run_target_annotate(case, ctx):
    shapes = {**LABEL_SHAPES, **LABEL_SHAPES4}
    units = shapes[case["shape"]]
    path = annotation_file(case["ann"])
    for layout in TARGET_LAYOUTS:
        rows = chr1_rows(units) + [(c, pos(s), pos(e)) for c, s, e in TARGET_LAYOUTS[layout]]
        bga, full = bait_table(rows)
        changed = False
        for split in (False, True):
            for short in (False, True):
                _bins, ch = check_target(ctx, bga, full, split, 400, short, path, {"layout": layout, "annotation": ANNOTATIONS[case["ann"]]})
                changed = changed or ch
        ctx.state(("target-annotate", case["shape"], case["ann"], layout), nontrivial=changed)
        ctx.stratum("annotate-" + zero_feature(full))
    ctx.stratum("annotation-" + case["ann"])
    ctx.sample("target-annotate", {"shape": case["shape"], "annotation": ANNOTATIONS[case["ann"]]})


# --------------------------------------------------------------------------------------------
# antitarget
def access_feature(arows):
    if arows is None:
        return "access-none"
    return "access-" + shape_of(arows)


def check_antitarget(ctx, tga, trows, arows, avg, mn, sub, lenient=None, origin=O):
    """One do_antitarget call against the statement.  trows: target rows that keep bins away (bases);
    arows: access rows in bases or None; lenient: zero-width target rows."""
    aga = access_table(arows) if arows is not None else None
    got = ctx.call(antitarget.do_antitarget, tga, aga, avg, mn)
    tfeat = "targets-" + shape_of(trows) + ("+zero-width" if lenient else "")
    afeat = access_feature(arows)
    contigs = {r[0] for r in trows} | ({r[0] for r in arows} if arows else set())
    cfeat = "one-contig" if len(contigs) == 1 else "multi-contig"
    s = {"targets": list(trows) + list(lenient or []), "access": arows, "avg": avg, "min": mn, **(sub or {})}
    if isinstance(got, Exc):
        ctx.violation("do_antitarget returns the bins", f"antitarget/raises/{got.key}/{tfeat}/{'access-none' if arows is None else 'access-given'}/{cfeat}", observed=got, sub=s)
        return None
    ctx.trace()
    bins = read_bins(got)
    ctx.outcome(hash(("anti", tuple(b[:3] for b in bins))))
    if mn is None:
        lo, hi = B.default_min_band(avg)
        mfeat = "min-default"
    else:
        lo = hi = mn
        mfeat = "min-given"
    agiven = "access-none" if arows is None else "access-given"
    for clause, key, exp, obs in B.antitarget_problems(bins, trows, arows, avg, lo, hi, CANONICAL, lenient):
        fkey = f"antitarget/{key}/{tfeat}/{agiven}"
        if key in ("below-min", "stretch-uncovered"):
            fkey += "/" + mfeat
        if key == "contig":
            fkey += "/" + cfeat
        ctx.violation("antitarget: " + clause, fkey, expected=exp, observed={"problem": obs, "bins": bins[:40]}, sub=s)
    # strata and non-triviality (from the inputs and the model only)
    sp = B.space(list(trows) + list(lenient or []), arows, CANONICAL)
    ctx.stratum(afeat)
    ctx.stratum(tfeat)
    ctx.stratum(mfeat)
    nstretch = sum(len(v) for v in sp["S"].values())
    kept = B.stretches(sp, hi)
    if nstretch > len(kept):
        ctx.stratum("stretch-below-minimum-dropped")
    if any(len(B.bin_counts(e - s0, avg)) == 1 and max(B.bin_counts(e - s0, avg)) > 1 for _c, s0, e in kept):
        ctx.stratum("stretch-cut-into-several-bins")
    if any(max(B.bin_counts(e - s0, avg)) == 1 for _c, s0, e in kept):
        ctx.stratum("stretch-single-bin")
    if not bins:
        ctx.stratum("result-empty")
    pads = sorted((max(0, r[1] - B.MARGIN), r[2] + B.MARGIN) for r in trows if r[0] == "chr1")
    tcov = M.cover(trows).get("chr1", [])
    if len(tcov) > 1 and any(b[0] - a[1] < 2 * B.MARGIN for a, b in zip(tcov[:-1], tcov[1:])):
        ctx.stratum("padded-targets-merge")
    if arows is not None:
        if any(r[2] - r[1] <= 2 * B.MARGIN for r in arows):
            ctx.stratum("access-region-emptied-by-margin")
        acov = M.cover(arows)
        if any(M.iv_subtract([(r[1], r[2])], acov.get(r[0], [])) for r in trows):
            ctx.stratum("target-partly-outside-access")
        if pads and any(p[0] == 0 for p in pads) and origin == 0:
            ctx.stratum("target-margin-clipped-at-0")
    elif not sp["shrunk"]:
        ctx.stratum("guessed-extent-empty")
    nontrivial = bool(bins) and (sp["S"] != sp["shrunk"] or nstretch > len(kept))
    return bins, nontrivial


def multi_extras(arows_is_none):
    """Second targeted contig for the multi-contig layout (forces the per-chromosome grouping path)."""
    trow = [("chr2", pos(2), pos(4))]
    arow = [] if arows_is_none else [("chr2", pos(-2), pos(12))]
    return trow, arow


def run_antitarget_targets(case, ctx):
    multi = case["layout"] == "multi"
    trows = chr1_rows(case["t"]) + (multi_extras(True)[0] if multi else [])
    tga, tfull = bait_table(trows)
    trows = [r[:3] for r in tfull]
    for name, a in ((A_NAMES[i], A_REP[i]) for i in case["access"]):
        arows = None if a is None else sort_rows(chr1_rows(a) + (multi_extras(False)[1] if multi else []))
        for avg, mn in SIZES_MAIN[: case["nsizes"]]:
            r = check_antitarget(ctx, tga, trows, arows, avg, mn, {"access_name": name})
            ctx.state(("anti-t", case["t"], case["layout"], name, avg, mn), nontrivial=bool(r and r[1]))
    ctx.sample("antitarget-targets", {"targets": trows, "layout": case["layout"], "access": A_NAMES})


def run_antitarget_access(case, ctx):
    arows = sort_rows(chr1_rows(case["a"]))
    for t in T_REP:
        tga, tfull = bait_table(chr1_rows(t))
        trows = [r[:3] for r in tfull]
        for avg, mn in SIZES_MAIN[: case["nsizes"]]:
            r = check_antitarget(ctx, tga, trows, arows, avg, mn, None)
            ctx.state(("anti-a", case["a"], t, avg, mn), nontrivial=bool(r and r[1]))
    ctx.sample("antitarget-access", {"access": arows, "targets": "every representative table"})


def run_antitarget_sizes(case, ctx):
    tga, tfull = bait_table(chr1_rows(case["t"]))
    trows = [r[:3] for r in tfull]
    for name, a in ((A_NAMES[i], A_REP[i]) for i in case["access"]):
        arows = None if a is None else sort_rows(chr1_rows(a))
        for avg, mn in SIZES:
            r = check_antitarget(ctx, tga, trows, arows, avg, mn, {"access_name": name})
            ctx.state(("anti-s", case["t"], name, avg, mn), nontrivial=bool(r and r[1]))
    ctx.sample("antitarget-sizes", {"targets": trows, "sizes": SIZES})


ACCESS_EXTRAS = [("chr2", -2, 12), ("chrUn_x", -2, 8), ("chr3", 0, 6), ("chr6_x_alt", 0, 6)]


NAMELEN_EXTRAS = [("chr10", 0, 6), ("chrM", -2, 8), ("chr3", 0, 6), ("chrUn_x", -2, 8), ("chr6_x_alt", 0, 6)]


def run_antitarget_contigs(case, ctx):
    extras = [tuple(x) for x in case.get("extras") or ACCESS_EXTRAS]
    trows = chr1_rows(case["t"]) + [(c, pos(s), pos(e)) for c, s, e in list(TARGET_LAYOUTS[case["tlayout"]]) + [tuple(x) for x in case.get("textra", [])]]
    tga, tfull = bait_table(trows)
    trows = [r[:3] for r in tfull]
    targeted = {r[0] for r in trows}
    tables = [None]
    for a1 in [tuple(tuple(y) for y in x) for x in case.get("a1", [])] or ((), ((-2, 12),), ((-2, 4), (6, 12))):
        for k in range(len(extras) + 1):
            for extra in itertools.combinations(extras, k):
                rows = chr1_rows(a1) + [(c, pos(s), pos(e)) for c, s, e in extra]
                if rows and targeted & {r[0] for r in rows}:
                    tables.append(sort_rows(rows))
    for arows in tables:
        for avg, mn in SIZES_MAIN:
            r = check_antitarget(ctx, tga, trows, arows, avg, mn, None)
            ctx.state(("anti-c", case["t"], case["tlayout"], arows, avg, mn), nontrivial=bool(r and r[1]))
        if arows is not None:
            names = {r[0] for r in arows}
            for c in sorted(names - targeted):
                ctx.stratum("contig-untargeted-canonical-binned" if c in CANONICAL else "contig-untargeted-noncanonical-skipped")
                if (len(c) > max(map(len, targeted))) != (c not in CANONICAL) and (targeted & CANONICAL) and (targeted - CANONICAL):
                    ctx.stratum("contig-name-length-disagrees-with-canonical-rule/mixed-targets")
            for c in sorted(names & targeted):
                if c not in CANONICAL:
                    ctx.stratum("contig-noncanonical-targeted-binned")
            if not (targeted & CANONICAL):
                ctx.stratum("contig-no-canonical-target")
            if targeted - names:
                ctx.stratum("contig-targeted-but-not-in-access")
    ctx.sample("antitarget-contigs", {"targets": trows, "n_access_tables": len(tables)})


FINE_SIZES = {"quick": [(1000, 100), (600, None)], "thorough": [(1000, 100), (600, None), (600, 300), (1000, None)]}


def fine_geometry(geom, d):
    """(target rows, access rows) where the distance d decides what is left."""
    if geom == "gap":  # two targets d apart inside one long access region
        return [("chr1", pos(1), pos(2)), ("chr1", pos(2) + d, pos(3) + d)], [("chr1", pos(-2), pos(14))]
    if geom == "left-edge":  # access starts d before the target
        return [("chr1", pos(4), pos(5))], [("chr1", pos(4) - d, pos(12))]
    if geom == "right-edge":  # access ends d after the target
        return [("chr1", pos(4), pos(5))], [("chr1", pos(-2), pos(5) + d)]
    if geom == "access-overlap":  # two access regions sharing d bases; they meet after shrinking at d = 1000
        return [("chr1", pos(12), pos(13))], [("chr1", pos(-4), pos(3) + d), ("chr1", pos(3), pos(10))]
    raise ValueError(geom)


def run_antitarget_fine(case, ctx):
    for d in case["d"]:
        trows, arows = fine_geometry(case["geom"], d)
        tga, _ = bait_table(trows)
        for avg, mn in FINE_SIZES[ctx.tier if ctx.tier in FINE_SIZES else "quick"]:
            r = check_antitarget(ctx, tga, trows, sort_rows(arows), avg, mn, {"geometry": case["geom"], "distance": d})
            ctx.state(("anti-f", case["geom"], d, avg, mn), nontrivial=bool(r and r[1]))
            left = d - 2 * B.MARGIN
            if case["geom"] != "access-overlap":
                if left == (mn if mn else -1):
                    ctx.stratum("fine-stretch-equals-minimum")
                if left == 1.5 * avg:
                    ctx.stratum("fine-stretch-equals-1.5-avg")
                if left == 0:
                    ctx.stratum("fine-margins-meet")
            elif left == 0:
                ctx.stratum("fine-shrunk-access-regions-abut")
    ctx.sample("antitarget-fine", {"geometry": case["geom"], "distances": [case["d"][0], case["d"][-1]]})


ZW_ACCESS = [((-2, 12),), ((1, 6),)]


def run_antitarget_zero_width(case, ctx):
    rows = chr1_rows(case["b"])
    tga, tfull = bait_table(rows)
    kept = [r[:3] for r in tfull if r[1] != r[2]]
    zero = [r[:3] for r in tfull if r[1] == r[2]]
    for a in ZW_ACCESS:
        arows = sort_rows(chr1_rows(a))
        r = check_antitarget(ctx, tga, kept, arows, 1000, 100, None, lenient=zero)
        ctx.state(("anti-z", case["b"], a), nontrivial=bool(r and r[1]))
    ctx.sample("antitarget-zero-width", {"targets": kept, "zero_width": zero})


def run_antitarget_origin(case, ctx):
    trows = chr1_rows(case["t"], origin=0)
    tga, tfull = bait_table(trows)
    trows = [r[:3] for r in tfull]
    for a in (None, ((0, 14),), ((0, 5), (3, 14))):
        arows = None if a is None else sort_rows(chr1_rows(a, origin=0))
        for avg, mn in SIZES_MAIN:
            r = check_antitarget(ctx, tga, trows, arows, avg, mn, {"origin": 0}, origin=0)
            ctx.state(("anti-o", case["t"], a, avg, mn), nontrivial=bool(r and r[1]))
    ctx.sample("antitarget-origin", {"targets": trows})


def run_pipeline(case, ctx):
    bga, full = bait_table(chr1_rows(case["t"]))
    tgt = ctx.call(target.do_target, bga, None, False, True, DEFAULT_TARGET_AVG)
    if isinstance(tgt, Exc):
        return  # reported by target-tables
    trows = read_bins(tgt, with_gene=False)
    if len(trows) > len(full):
        ctx.stratum("pipeline-targets-are-abutting-bins")
    for a in (None, ((-2, 12),), ((-2, 4), (4, 12))):
        arows = None if a is None else sort_rows(chr1_rows(a))
        r = check_antitarget(ctx, tgt, trows, arows, 1000, None, {"baits": full})
        ctx.state(("pipeline", case["t"], a), nontrivial=bool(r and r[1]))
    ctx.sample("pipeline", {"baits": full, "targets": trows})


# --------------------------------------------------------------------------------------------
# command line (cnvkit.py target / antitarget, BED in, BED out)
CLI_BAITS = [x for x in T_REP] + [((0, 0), (1, 3)), ((1, 3), (2, 2), (4, 5)), ((2, 2), (3, 5), (3, 5))]


def write_bed(name, rows):
    path = os.path.join(scratch_dir(), name)
    with open(path, "w") as f:
        for r in rows:
            f.write("\t".join(str(x) for x in r) + "\n")
    return path


def read_bed(path):
    out = []
    with open(path) as f:
        for line in f:
            if line.strip() and not line.startswith(("#", "track", "browser")):
                x = line.rstrip("\n").split("\t")
                out.append((x[0], int(x[1]), int(x[2])) + ((x[3],) if len(x) > 3 else ()))
    return out


def run_cli(ctx, argv):
    def go():
        args = commands.parse_args(argv)
        return args.func(args)

    return ctx.call(go)


def run_cli_target(case, ctx):
    units = CLI_BAITS[case["b"]]
    full = [(c, s, e, "g%d" % i) for i, (c, s, e) in enumerate(sort_rows(chr1_rows(units) + [("chr2", pos(2), pos(4))]))]
    kept = B.nonempty(full)
    src = write_bed("cli_baits.bed", full)
    dst = os.path.join(scratch_dir(), "cli_targets.bed")
    for opts in ([], ["--split", "-a", "400"], ["--split"], ["--split", "-a", "400", "--short-names"], ["--short-names"]):
        if os.path.exists(dst):
            os.remove(dst)
        got = run_cli(ctx, ["target", src] + opts + ["-o", dst])
        sub = {"baits": full, "options": opts}
        mode = "+".join(o.lstrip("-") for o in opts if o.startswith("--")) or "plain"
        if isinstance(got, Exc) or not os.path.exists(dst):
            ctx.violation("cnvkit.py target writes the bins", f"cli/target/raises/{getattr(got, 'key', 'no-output-file')}/{mode}", observed=got, sub=sub)
            continue
        ctx.trace()
        out = read_bed(dst)
        coords = [r[:3] for r in out]
        ctx.outcome(hash(("cli-target", mode, tuple(out))))
        if "--split" in opts:
            avg = 400 if "-a" in opts else DEFAULT_TARGET_AVG
            for clause, key in B.split_problems(kept, coords, avg, CONTIG_ORDER[:3]):
                ctx.violation("target --split: " + clause, f"cli/target/{mode}/{key}", expected={"merged_baits": M.cover(kept), "avg": avg}, observed=coords, sub=sub)
        else:
            want = kept if not opts else [r[:3] for r in kept]
            have = out if not opts else coords
            if have != want:
                ctx.violation("without --split the non-empty baits are returned unchanged", f"cli/target/{mode}/rows", expected=want, observed=have, sub=sub)
        ctx.state(("cli-target", case["b"], mode), nontrivial=coords != [r[:3] for r in full])
    ctx.stratum("cli-target")
    ctx.sample("cli-target", {"baits": full})


def run_cli_antitarget(case, ctx):
    trows = sort_rows(chr1_rows(T_REP[case["t"]]))
    src = write_bed("cli_anti_targets.bed", [r + ("g%d" % i,) for i, r in enumerate(trows)])
    d = scratch_dir()
    for a in (None, ((-2, 12),), ((-2, 4), (4, 12))):
        arows = None if a is None else sort_rows(chr1_rows(a) + [("chr3", pos(0), pos(6)), ("chr6_x_alt", pos(0), pos(6))])
        acc = ["-g", write_bed("cli_access.bed", arows)] if arows else []
        for avg, mn in ((1000, None), (600, 300)):
            argv = ["antitarget", src] + acc + ["-a", str(avg)] + (["-m", str(mn)] if mn else [])
            sub = {"targets": trows, "access": arows, "avg": avg, "min": mn, "output": case["output"]}
            dst = os.path.join(d, "cli_antitargets.bed")
            for name in os.listdir(d):
                if "antitarget" in name and name != "cli_anti_targets.bed":
                    os.remove(os.path.join(d, name))
            before = set(os.listdir(d))
            got = run_cli(ctx, argv + (["-o", dst] if case["output"] == "given" else []))
            new = sorted(set(os.listdir(d)) - before)
            if isinstance(got, Exc) or len(new) != 1:
                ctx.violation(
                    "cnvkit.py antitarget writes the bins",
                    f"cli/antitarget/raises/{getattr(got, 'key', 'no-output-file')}/output-{case['output']}",
                    observed=got if isinstance(got, Exc) else new,
                    sub=sub,
                )
                continue
            ctx.trace()
            bins = read_bed(os.path.join(d, new[0]))
            ctx.outcome(hash(("cli-anti", tuple(bins))))
            lo, hi = B.default_min_band(avg) if mn is None else (mn, mn)
            for clause, key, exp, obs in B.antitarget_problems(bins, trows, arows, avg, lo, hi, CANONICAL):
                ctx.violation("antitarget: " + clause, f"cli/antitarget/{key}", expected=exp, observed={"problem": obs, "bins": bins[:40]}, sub=sub)
            ctx.state(("cli-anti", case["t"], a, avg, mn, case["output"]), nontrivial=bool(bins))
    ctx.stratum("cli-antitarget-output-" + case["output"])
    ctx.sample("cli-antitarget", {"targets": trows})


RUNNERS = {
    "shorten-labels": run_shorten_labels,
    "target-tables": run_target_tables,
    "target-fine": run_target_fine,
    "target-labels": run_target_labels,
    "target-annotate": run_target_annotate,
    "antitarget-targets": run_antitarget_targets,
    "antitarget-access": run_antitarget_access,
    "antitarget-sizes": run_antitarget_sizes,
    "antitarget-contigs": run_antitarget_contigs,
    "antitarget-fine": run_antitarget_fine,
    "antitarget-zero-width": run_antitarget_zero_width,
    "antitarget-origin": run_antitarget_origin,
    "pipeline": run_pipeline,
    "cli-target": run_cli_target,
    "cli-antitarget": run_cli_antitarget,
}

MANIFEST = {
    "text": "Bounded-exhaustive exploration of the real do_target and do_antitarget: every bait table of a 400-base grid (overlapping, "
    "nested, abutting, duplicated and zero-width rows on up to three contigs) in every target mode (split x average sizes, short "
    "names over every label sequence of a 7-label alphabet, four annotation files), and a deviation-bounded product of target "
    "tables x access tables (or none) x average/minimum sizes through do_antitarget, plus one-base sweeps across the distances at "
    "which the result changes (margins meeting, stretch = minimum, bin = 1.5 x average). Every returned table is judged clause by "
    "clause against interval sweeps over the inputs (models/bins.py). Exhaustive inside the stated bound, nothing sampled.",
    "note": "Trusted: pandas/numpy, GenomicArray.from_rows as table builder, the interval model (two formulations cross-checked in "
    "selftest/bins.py). The full product targets x access x sizes is cut by a deviation bound (one factor swept, the others at "
    "representatives). Not covered: tables beyond the bound, unsorted inputs, access tables sharing no contig with the targets "
    "(refused by design), the name-length heuristic when no targeted contig is canonically named and an untargeted alternate has a "
    "shorter name, annotation formats other than BED4.",
    "technique": "explicit-state enumeration of input tables and configurations on the real code; statement clauses evaluated by an interval-sweep reference model",
}

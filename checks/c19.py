"""C19 - robust estimators (cnvlib.descriptives) and smoothers (cnvlib.smoothing) obey their defining invariants.

E1: every vector over a small value alphabet (as multisets, every permutation for short ones, NaN
inserted at every position) through every estimator, with shifted / rescaled copies; every
(vector, weight vector) over a small weight alphabet through the weighted estimators; every signal
over {0, 1, -2}, every constant of length 1..60 and deterministic long signals through every
smoother x window widths x weight patterns.  Oracle: the statement's clauses literally (range,
equivariance, sign, constants, counts) plus independent textbook formulas (models/stats.py).
"""
import itertools
import math

from checks.common import np
from mc.engine import Exc
from models import stats as M

from cnvlib import descriptives as D  # noqa: E402  (bound by checks.common)
from cnvlib import smoothing as S  # noqa: E402

ID = "C19"
BUDGET = {"quick": 600, "thorough": 3600}
CASE_TIMEOUT = 900

# simplest first; the set is the design's {-3, -1, 0, 0.5, 1, 2, 100}: ties, repeats, negative values, one extreme value.
VALUES = [1.0, 2.0, 0.0, 0.5, -1.0, -3.0, 100.0]
WEIGHTS = [1.0, 2.0, 0.5, 0.0, 10.0]
SHIFTS = [5.0, -0.25]
LEVEL_SHIFTS = [4000.0]  # biweight location judged on data at the level of read depths
BIG_SHIFTS = [1.0e5]  # scale estimators only: a mean far larger than the spread (conditioning of one-pass formulas)
CONST_VALUES = [0.1, 3.3, -0.7]  # constants that are not short binary fractions (rounding inside a weighted mean)
SCALES = [2.0, 0.5]
SIGNAL_VALUES = [0.0, 1.0, -2.0]
WIDTHS = [3, 0.5, 2, 5, 7, 11, 21, 0.1, 0.99, "len+5"]  # "len+5" = an integer wider than the signal
LONG_N = {"quick": [10, 11, 50, 399, 400], "thorough": [10, 11, 50, 100, 200, 399, 400]}
NAN = float("nan")

TOL = 1e-9  # arithmetic identities
TOL_ITER = 1e-6  # iterative estimators


def bounds(tier):
    t = tier == "thorough"
    return {
        "multiset_len": 7 if t else 6,  # unweighted estimators: every multiset up to this length
        "perm_len": 5 if t else 4,  # ... and every ordering up to this length
        "weighted_ordered_len": 4 if t else 3,  # every ordered vector x every weight vector
        "weighted_sorted_len": 5 if t else 4,  # non-decreasing vectors x every weight vector
        "weighted_nan_len": 3,
        "signal_len": 9 if t else 8,
        "signal_allpos_len": 7 if t else 6,  # dominant / zero weight at every position up to this length
        "const_len": 60,
    }


def describe(tier):
    b = bounds(tier)
    return {
        "rule": "every multiset over the value alphabet through every unweighted estimator, with 2 shifted and 2 rescaled copies, "
        "every distinct ordering of the short ones, and NaN inserted at every position of every ordering; every (vector, weight "
        "vector) through weighted median / MAD / std with the same copies and a NaN-valued cell inserted at every position; "
        "deterministic long vectors (arithmetic, two clusters, one outlier, constant) x 4 weight patterns; every signal over the "
        "signal alphabet, every constant of length 1..60 and 5 long signal shapes through rolling_median, kaiser, savgol and "
        "weighted savgol x every width x weight patterns. state = canonical input (vector[, weights] or signal); non-trivial = "
        "at least two distinct finite values",
        "bound": {
            "unweighted": f"multisets of length 1..{b['multiset_len']}; all orderings for length <= {b['perm_len']}; NaN at each of the len+1 positions",
            "weighted": f"ordered vectors of length 1..{b['weighted_ordered_len']} and non-decreasing vectors of length "
            f"{b['weighted_ordered_len'] + 1}..{b['weighted_sorted_len']} x every weight vector with positive total; NaN cell inserted for length <= {b['weighted_nan_len']}",
            "long_vectors": {"lengths": LONG_N[tier], "shapes": list(LONG_SHAPES), "weights": list(LONG_WEIGHTS)},
            "signals": f"length 1..{b['signal_len']} over the signal alphabet; constants of length 1..{b['const_len']}; long shapes "
            f"{list(LONG_SIGNALS)} at lengths 50 and 400",
            "weight_patterns": f"none, all 1, one dominant (10) / one zero at every position (length <= {b['signal_allpos_len']}) or at first/middle/last",
        },
        "alphabet": {
            "values": VALUES,
            "weights": WEIGHTS,
            "shifts": SHIFTS,
            "big_shifts_scale_estimators_only": BIG_SHIFTS,
            "level_shifts_biweight_location": LEVEL_SHIFTS,
            "constant_vectors": CONST_VALUES,
            "scales": SCALES,
            "signal_values": SIGNAL_VALUES,
            "widths": WIDTHS + ["default (kaiser only)"],
        },
        "assumptions": [
            "weight vectors have a positive total (the all-zero vector is not a weighting); weights and signals are float arrays",
            "NaN only in the values (the decorators promise to drop them together with their weights); all-NaN vectors are out of scope",
            "quartiles are linear-interpolation quartiles (Hyndman-Fan 7); weighted std is the population form sqrt(sum w (x-mu)^2 / sum w)",
            "Qn is compared with the formula documented in q_n's docstring (first quartile of pairwise distances / finite-sample "
            "factor 1.392 | 1+4/n | 1), not with Rousseeuw-Croux's k-th order statistic x 2.2219",
            "biweight steps divide by max(c * MAD, 1e-3) (MAD about the current estimate); the floor is counted when active on non-degenerate data",
            "biweight midvariance: where published forms differ the oracle accepts n = all observations or n = observations with "
            "|u| < 1; the default-centre call is compared with the formula about the implementation's own biweight location "
            "(verified separately here), the initial=median call with the formula about the model's median; on (nearly) exactly "
            "symmetric data the 1.4826 * MAD fallback is accepted as well",
            "mode = a data value where the Gaussian KDE (Scott bandwidth) evaluated at the data peaks; density ties (1e-9) leave the choice open, also under shifts",
            "weighted MAD is compared by the defining inequalities on |x - m| with m the implementation's own weighted median "
            "(verified separately here), and with the ordinary MAD for equal weights",
            "kaiser(do_fit_edges=True), weighted kaiser, rolling_quantile / rolling_std and the outlier detectors are outside the statement",
        ],
    }


# --------------------------------------------------------------------------------------------
# long deterministic vectors / signals
def _arith(n):
    return [0.5 * i for i in range(n)]


def _clusters(n):
    h = n // 2
    return [0.5 * (i % 3) for i in range(h)] + [10.0 + 0.25 * (i % 4) for i in range(n - h)]


def _outlier(n):
    return [0.25 * ((7 * i) % 5) for i in range(n - 1)] + [1000.0]


def _constant(n):
    return [2.5] * n


LONG_SHAPES = {"constant": _constant, "arithmetic": _arith, "two-clusters": _clusters, "one-outlier": _outlier}
LONG_WEIGHTS = {
    "equal": lambda n: [1.0] * n,
    "ramp": lambda n: [1.0 + 0.5 * (i % 4) for i in range(n)],
    "one-dominant": lambda n: [10.0 * n if i == n // 3 else 1.0 for i in range(n)],
    "zeros": lambda n: [0.0 if i % 3 == 0 else 1.0 for i in range(n)],
}
LONG_SIGNALS = {
    "ramp": lambda n: [0.25 * i for i in range(n)],
    "step": lambda n: [0.0] * (n // 2) + [1.0] * (n - n // 2),
    "spike": lambda n: [100.0 if i == n // 3 else 0.0 for i in range(n)],
    "alternating": lambda n: [float(i % 2) for i in range(n)],
    "clusters": _clusters,
}


# --------------------------------------------------------------------------------------------
def cases(tier):
    b = bounds(tier)
    for k in range(1, b["multiset_len"] + 1):
        for ms in itertools.combinations_with_replacement(VALUES, k):
            yield {"check": "estimators", "values": list(ms), "orderings": k <= b["perm_len"]}
    for c in CONST_VALUES:
        for k in range(2, 5):
            yield {"check": "estimators", "values": [c] * k, "orderings": False}
            yield {"check": "weighted", "values": [c] * k, "nan": False}
    for k in range(1, b["weighted_sorted_len"] + 1):
        if k <= b["weighted_ordered_len"]:
            vecs = itertools.product(VALUES, repeat=k)
        else:
            vecs = (sorted(ms) for ms in itertools.combinations_with_replacement(VALUES, k))
        for v in vecs:
            yield {"check": "weighted", "values": list(v), "nan": k <= b["weighted_nan_len"]}
    for n in LONG_N[tier]:
        for shape in LONG_SHAPES:
            yield {"check": "long-vector", "shape": shape, "n": n}
    for k in range(1, b["signal_len"] + 1):
        t = min(k - 1, 2)
        for head in itertools.product(SIGNAL_VALUES, repeat=k - t):
            yield {"check": "signals", "head": list(head), "tail_len": t, "all_positions": k <= b["signal_allpos_len"]}
    for n in range(1, b["const_len"] + 1):
        yield {"check": "constant-signal", "n": n}
    for n in (50, 400):
        for shape in LONG_SIGNALS:
            yield {"check": "long-signal", "shape": shape, "n": n}


def run(case, ctx):
    c = case["check"]
    if c == "estimators":
        run_estimators(case, ctx)
    elif c == "weighted":
        run_weighted(case, ctx)
    elif c == "long-vector":
        run_long_vector(case, ctx)
    elif c == "signals":
        run_signals(case, ctx)
    elif c == "constant-signal":
        run_constant_signal(case, ctx)
    elif c == "long-signal":
        run_long_signal(case, ctx)
    else:
        raise ValueError(c)


# --------------------------------------------------------------------------------------------
# helpers
def close(a, b, tol):
    return abs(a - b) <= tol * max(1.0, abs(a), abs(b))


def arr(v):
    return np.array(v, dtype=float)


def strip(vec):
    return [x for x in vec if x == x]


def value(ctx, name, got, feat, sub, slot=None, tokens=None, ref=None):
    """float(result), or None after reporting an exception / a non-finite result.

    tokens[slot] records what was observed (a float, or ("exc", where)).  `ref` holds the tokens of the
    same input without its NaN cells: an identical observation satisfies / violates exactly the same
    clauses, which are evaluated (and reported) on the NaN-free input itself, so None is returned."""
    if isinstance(got, Exc):
        token = ("exc", got.key)
    else:
        try:
            token = float(got)
        except (TypeError, ValueError):
            ctx.violation(f"{name} returns a number", f"{name}/not-a-number/{feat}", expected="a finite number", observed=repr(got), sub=sub)
            return None
    if tokens is not None:
        tokens[slot] = token
    if ref is not None and ref.get(slot) == token:
        ctx.trace()
        ctx.stratum("NaN input: result identical to the result without the NaN")
        return None
    if isinstance(got, Exc):
        ctx.violation(f"{name} returns a value on an in-scope input", f"{name}/raises/{got.key}/{feat}", expected="a finite number", observed=got, sub=sub)
        return None
    v = token
    ctx.trace()
    ctx.outcome(hash((name, round(v, 9))) if math.isfinite(v) else hash((name, repr(v))))
    if not math.isfinite(v):
        ctx.violation(f"{name} returns a finite value on finite data", f"{name}/non-finite/{feat}", expected="a finite number", observed=repr(v), sub=sub)
        return None
    return v


_MODEL_CACHE = {}


def model_of(data):
    """Reference values for one multiset of finite data (cached; order-independent by definition)."""
    key = tuple(sorted(data))
    m = _MODEL_CACHE.get(key)
    if m is not None:
        return m
    if len(_MODEL_CACHE) > 4000:
        _MODEL_CACHE.clear()
    lo, hi = M.minmax(data)
    m = {"n": len(data), "lo": lo, "hi": hi, "const": lo == hi, "median": M.median(data)}
    if not m["const"]:
        m["median_absolute_deviation"] = M.mad(data)
        m["mad_raw"] = M.mad(data, scale_to_sd=False)
        m["interquartile_range"] = M.iqr(data)
        m["gapper_scale"] = M.gapper(data)
        m["q_n"] = M.qn(list(key))
        m["biloc"] = M.biweight_location(data)
        m["mode"] = M.kde_mode_candidates(data)
        m["midvar_median"] = M.biweight_midvariance(data, m["median"])
    _MODEL_CACHE[key] = m
    return m


def value_feature(m, has_nan):
    return ("n1" if m["n"] == 1 else "all-equal" if m["const"] else "spread") + ("/nan" if has_nan else "")


# --------------------------------------------------------------------------------------------
# unweighted estimators
LOCATIONS = ("biweight_location", "modal_location")
SCALES_PLAIN = ("median_absolute_deviation", "interquartile_range", "gapper_scale", "q_n")


def check_location_value(ctx, name, v, m, feat, sub):
    tol = TOL * max(1.0, abs(m["lo"]), abs(m["hi"]))
    if not (m["lo"] - tol <= v <= m["hi"] + tol):
        ctx.violation(f"{name} lies within the data range", f"{name}/range/{feat}", expected=[m["lo"], m["hi"]], observed=v, sub=sub)
    if m["const"]:
        return
    if name == "biweight_location":
        want, info = m["biloc"]
        if not any(close(v, t, TOL_ITER) for t in want):
            ctx.violation(
                "biweight location agrees with the published iteration (c = 6, median start, <= 5 steps, tolerance 1e-3)",
                f"{name}/formula/{feat}",
                expected=want,
                observed=v,
                sub=sub,
                detail=info,
            )
    else:
        want = m["mode"]
        if not any(close(v, t, TOL) for t in want):
            ctx.violation(
                "the mode is the data value with the highest Gaussian kernel density",
                f"{name}/formula/{feat}",
                expected=want,
                observed=v,
                sub=sub,
            )


def check_midvariance(ctx, v, data, center, m, label, feat, sub):
    mv = M.biweight_midvariance(data, center) if label == "default-centre" else m["midvar_median"]
    ok = any(close(v, t, TOL_ITER) for t in mv["values"])
    near_sym = abs(mv["sum_u"]) <= TOL * max(1.0, mv["sum_abs_u"])
    if mv["floor_with_spread"]:
        ctx.stratum("midvariance: 1e-3 floor active on non-degenerate data")
    if not mv["values"]:
        ctx.stratum("midvariance: formula denominator zero (formula clause void)")
        return
    if near_sym:
        ctx.stratum("midvariance: exactly symmetric data (MAD fallback allowed)")
        ok = ok or close(v, mv["mad_fallback"], TOL)
    else:
        ctx.stratum("midvariance: asymmetric data (formula required)")
    if mv["n_inside"] != mv["n_total"]:
        ctx.stratum("midvariance: observations beyond 9 MAD rejected")
    if not ok:
        ctx.violation(
            "biweight midvariance agrees with the published formula (c = 9)",
            f"biweight_midvariance/formula/{label}/{feat}",
            expected={"formula": mv["values"], "mad_fallback_if_symmetric": mv["mad_fallback"] if near_sym else None},
            observed=v,
            sub=sub,
        )


def check_scale_value(ctx, name, v, m, feat, sub, model_key=None):
    tol = TOL * max(1.0, abs(m["lo"]), abs(m["hi"]))
    if v < -1e-12 * max(1.0, abs(m["lo"]), abs(m["hi"])):
        ctx.violation(f"{name} is non-negative", f"{name}/non-negative/{feat}", expected=">= 0", observed=v, sub=sub)
    if m["const"]:
        if abs(v) > tol:
            ctx.violation(f"{name} is zero for constant data", f"{name}/zero-for-constant/{feat}", expected=0.0, observed=v, sub=sub)
        return
    if model_key is not None:
        want = m[model_key]
        if not close(v, want, TOL):
            ctx.violation(f"{name} agrees with its published formula", f"{name}/formula/{feat}", expected=want, observed=v, sub=sub)


def eval_estimators(ctx, vec, full, sub, ref=None):
    """All clauses for one input vector (may contain NaN).  full = also the shifted / rescaled copies.
    ref = observations on the same vector without its NaN cells (see value()).  Returns the observations."""
    data = strip(vec)
    m = model_of(data)
    has_nan = len(data) != len(vec)
    feat = value_feature(m, has_nan)
    tokens = {}
    base = {}
    for name in LOCATIONS + SCALES_PLAIN + ("biweight_midvariance",):
        base[name] = value(ctx, name, ctx.call(getattr(D, name), arr(vec)), feat, {**sub, "fn": name}, name, tokens, ref)
    # locations
    for name in LOCATIONS:
        if base[name] is not None:
            check_location_value(ctx, name, base[name], m, feat, {**sub, "fn": name})
    # plain scales
    for name in SCALES_PLAIN:
        if base[name] is not None:
            check_scale_value(ctx, name, base[name], m, feat, {**sub, "fn": name}, model_key=name)
    s2 = {**sub, "fn": "median_absolute_deviation", "scale_to_sd": False}
    raw = value(ctx, "median_absolute_deviation", ctx.call(D.median_absolute_deviation, arr(vec), scale_to_sd=False), feat, s2, "mad_raw", tokens, ref)
    if raw is not None:
        check_scale_value(ctx, "median_absolute_deviation", raw, m, feat + "/unscaled", s2, model_key="mad_raw")
    # midvariance: sign, constants, formula about both centres; no equivariance clause (statement exempts it)
    v = base["biweight_midvariance"]
    if v is not None:
        s2 = {**sub, "fn": "biweight_midvariance"}
        check_scale_value(ctx, "biweight_midvariance", v, m, feat, s2)
        centre = tokens.get("biweight_location")
        if not m["const"] and isinstance(centre, float) and math.isfinite(centre):
            check_midvariance(ctx, v, data, centre, m, "default-centre", feat, s2)
    if not m["const"]:
        s2 = {**sub, "fn": "biweight_midvariance", "initial": "median"}
        v2 = value(ctx, "biweight_midvariance", ctx.call(D.biweight_midvariance, arr(vec), initial=m["median"]), feat, s2, "midvar_median", tokens, ref)
        if v2 is not None:
            check_scale_value(ctx, "biweight_midvariance", v2, m, feat, s2)
            check_midvariance(ctx, v2, data, m["median"], m, "median-centre", feat, s2)
    strata_estimators(ctx, m, has_nan)
    if not full:
        return tokens
    # equivariance under x -> x + s and x -> k x
    for s in SHIFTS + BIG_SHIFTS:
        moved = [x + s for x in vec]
        for name in LOCATIONS if s in SHIFTS else ():
            if base[name] is None:
                continue
            s2 = {**sub, "fn": name, "shift": s}
            g = value(ctx, name, ctx.call(getattr(D, name), arr(moved)), feat, s2)
            if g is None:
                continue
            want = base[name] + s
            if name == "biweight_location":
                ok = close(g, want, TOL_ITER) or (not m["const"] and m["biloc"][1]["borderline"])
            else:
                ok = close(g, want, TOL) or (not m["const"] and len(m["mode"]) > 1 and any(close(g - s, t, TOL) for t in m["mode"]))
            if not ok:
                ctx.violation(f"{name} moves with the data when a constant is added", f"{name}/shift/{feat}", expected=want, observed=g, sub=s2)
        for name in SCALES_PLAIN:
            if base[name] is None:
                continue
            s2 = {**sub, "fn": name, "shift": s}
            g = value(ctx, name, ctx.call(getattr(D, name), arr(moved)), feat, s2)
            if g is None:
                continue
            if m["const"]:
                if abs(g) > TOL * max(1.0, abs(m["lo"] + s)):
                    ctx.violation(f"{name} is zero for constant data", f"{name}/zero-for-constant/{feat}", expected=0.0, observed=g, sub=s2)
            elif not close(g, base[name], TOL):
                ctx.violation(f"{name} is unchanged by adding a constant", f"{name}/shift/{feat}", expected=base[name], observed=g, sub=s2)
    # locations at a level far from zero (read depths rather than log2 ratios): judged against the published iteration on
    # the moved data itself, so a tolerance that grows with the level of the data shows
    if not m["const"] and len(data) == len(vec):
        for s in LEVEL_SHIFTS:
            moved = [x + s for x in data]
            mm = model_of(moved)
            g = value(ctx, "biweight_location", ctx.call(D.biweight_location, arr(moved)), feat, {**sub, "fn": "biweight_location", "shift": s})
            if g is not None:
                check_location_value(ctx, "biweight_location", g, mm, feat + "/level-%g" % s, {**sub, "fn": "biweight_location", "shift": s})
    for k in SCALES:
        scaled = [x * k for x in vec]
        for name in SCALES_PLAIN:
            if base[name] is None:
                continue
            s2 = {**sub, "fn": name, "scale": k}
            g = value(ctx, name, ctx.call(getattr(D, name), arr(scaled)), feat, s2)
            if g is None:
                continue
            if m["const"]:
                if abs(g) > TOL * max(1.0, abs(m["lo"] * k)):
                    ctx.violation(f"{name} is zero for constant data", f"{name}/zero-for-constant/{feat}", expected=0.0, observed=g, sub=s2)
            elif not close(g, k * base[name], TOL):
                ctx.violation(f"{name} is proportional under rescaling", f"{name}/rescale/{feat}", expected=k * base[name], observed=g, sub=s2)
    return tokens


def strata_estimators(ctx, m, has_nan):
    n = m["n"]
    ctx.stratum("estimators: single value" if n == 1 else "estimators: all-equal (n >= 2)" if m["const"] else "estimators: spread")
    if has_nan:
        ctx.stratum("estimators: NaN present")
    ctx.stratum("Qn factor: n <= 10" if n <= 10 else "Qn factor: 10 < n < 400" if n < 400 else "Qn factor: n >= 400")
    if m["const"]:
        return
    info = m["biloc"][1]
    ctx.stratum("biweight location: stopped by tolerance" if not info["hit_max_iter"] else "biweight location: ran all 5 steps")
    if info["iterations"] > 1:
        ctx.stratum("biweight location: more than one step")
    if info["borderline"]:
        ctx.stratum("biweight location: step length within 1e-9 of the tolerance (both continuations accepted)")
    if info["floor_with_spread"]:
        ctx.stratum("biweight location: 1e-3 floor active on non-degenerate data")
    if len(m["mode"]) > 1:
        ctx.stratum("mode: density tie")
    if m["mad_raw"] == 0:
        ctx.stratum("estimators: MAD zero on non-constant data (majority tie)")
    if m["hi"] >= 100 and m["n"] > 2:
        ctx.stratum("estimators: one extreme value")


def orderings(values):
    seen = set()
    out = []
    for p in itertools.permutations(values):
        if p not in seen:
            seen.add(p)
            out.append(list(p))
    return out


def run_estimators(case, ctx):
    values = case["values"]
    perms = orderings(values) if case["orderings"] else [list(values)]
    for i, vec in enumerate(perms):
        seen = eval_estimators(ctx, vec, i == 0, {"a": vec})
        ctx.state(("u", vec), nontrivial=len(set(vec)) > 1)
        for p in range(len(vec) + 1):
            withnan = vec[:p] + [NAN] + vec[p:]
            eval_estimators(ctx, withnan, False, {"a": withnan}, ref=seen)
            ctx.state(("u", ["nan" if x != x else x for x in withnan]), nontrivial=len(set(vec)) > 1)
    ctx.sample("estimators", {"values": values, "orderings": len(perms)})


# --------------------------------------------------------------------------------------------
# weighted estimators
def weight_feature(xs, ws):
    """Which branch of a weighted-median search the weights reach (classifier for finding keys)."""
    total = math.fsum(ws)
    if any(w > total / 2.0 for w in ws):
        return "majority-weight"
    lo, hi = M.weighted_median_interval(xs, ws)
    return "half-split" if lo < hi else "interior"


def eval_weighted(ctx, vec, wts, full, sub, ref=None):
    pairs = [(x, w) for x, w in zip(vec, wts) if x == x]
    xs = [p[0] for p in pairs]
    ws = [p[1] for p in pairs]
    lo, hi = min(xs), max(xs)
    n = len(xs)
    const = lo == hi
    has_nan = n != len(vec)
    equal_w = min(ws) == max(ws)
    if n == 1:
        feat = "n1"
        ctx.stratum("weighted: single value")
    else:
        wfeat = weight_feature(xs, ws)
        feat = ("all-equal" if const else "spread") + "/" + wfeat
        ctx.stratum("weighted: " + wfeat)
        if equal_w:
            ctx.stratum("weighted: equal weights, n " + ("odd" if n % 2 else "even"))
    if has_nan:
        feat += "/nan"
        ctx.stratum("weighted: NaN value dropped with its weight")
    if 0.0 in ws:
        ctx.stratum("weighted: zero weights present")
    tolr = TOL * max(1.0, abs(lo), abs(hi))
    tokens = {}

    def call(name, v, slot=None, **kw):
        got = ctx.call(getattr(D, name), arr(v), arr(wts), **kw)
        return value(ctx, name, got, feat, {**sub, "fn": name, **kw}, slot, tokens if slot else None, ref if slot else None)

    # ---- weighted median
    med = call("weighted_median", vec, "weighted_median")
    if med is not None:
        s2 = {**sub, "fn": "weighted_median"}
        if not (lo - tolr <= med <= hi + tolr):
            ctx.violation("weighted median lies within the data range", f"weighted_median/range/{feat}", expected=[lo, hi], observed=med, sub=s2)
        if not M.is_weighted_median(med, xs, ws):
            below, above, total = M.half_weights(med, xs, ws)
            ctx.violation(
                "weight(values < m) <= half and weight(values > m) <= half of the total weight",
                f"weighted_median/half-weight-sides/{feat}",
                expected={"half": total / 2.0, "acceptable_m": list(M.weighted_median_interval(xs, ws))},
                observed={"m": med, "weight_below": below, "weight_above": above},
                sub=s2,
            )
        if equal_w:
            want = M.median(xs)
            if not close(med, want, TOL):
                ctx.violation("weighted median equals the ordinary median for equal weights", f"weighted_median/equal-weights-median/{feat}", expected=want, observed=med, sub=s2)
    # ---- weighted MAD (the unscaled call serves the exact formula clause)
    mad = call("weighted_mad", vec, "weighted_mad")
    raw = call("weighted_mad", vec, "weighted_mad_raw", scale_to_sd=False)
    s2 = {**sub, "fn": "weighted_mad"}
    if mad is not None:
        if mad < 0:
            ctx.violation("weighted MAD is non-negative", f"weighted_mad/non-negative/{feat}", expected=">= 0", observed=mad, sub=s2)
        if const:
            if abs(mad) > tolr:
                ctx.violation("weighted MAD is zero for constant data", f"weighted_mad/zero-for-constant/{feat}", expected=0.0, observed=mad, sub=s2)
        elif equal_w:
            want = M.mad(xs)
            if not close(mad, want, TOL):
                ctx.violation("weighted MAD equals the ordinary MAD for equal weights", f"weighted_mad/equal-weights-mad/{feat}", expected=want, observed=mad, sub=s2)
    centre = tokens.get("weighted_median")
    if raw is not None and isinstance(centre, float) and math.isfinite(centre):
        if const:
            if abs(raw) > tolr:
                ctx.violation("weighted MAD is zero for constant data", f"weighted_mad/zero-for-constant/{feat}", expected=0.0, observed=raw, sub={**s2, "scale_to_sd": False})
        else:
            dev = [abs(x - centre) for x in xs]
            if not M.is_weighted_median(raw, dev, ws):
                below, above, total = M.half_weights(raw, dev, ws)
                ctx.violation(
                    "weighted MAD is a weighted median of the absolute deviations from the weighted median",
                    f"weighted_mad/formula/{feat}",
                    expected={"half": total / 2.0, "acceptable": list(M.weighted_median_interval(dev, ws)), "about": centre},
                    observed={"mad_unscaled": raw, "weight_below": below, "weight_above": above},
                    sub={**s2, "scale_to_sd": False},
                )
            scaled = tokens.get("weighted_mad")
            if isinstance(scaled, float) and not close(scaled, raw * M.MAD_TO_SD, TOL):
                ctx.violation("scaled weighted MAD = 1.4826 x unscaled", f"weighted_mad/formula-sd-constant/{feat}", expected=raw * M.MAD_TO_SD, observed=scaled, sub=s2)
    # ---- weighted standard deviation
    sd = call("weighted_std", vec, "weighted_std")
    if sd is not None:
        s2 = {**sub, "fn": "weighted_std"}
        if sd < 0:
            ctx.violation("weighted std is non-negative", f"weighted_std/non-negative/{feat}", expected=">= 0", observed=sd, sub=s2)
        if const:
            if abs(sd) > tolr:
                ctx.violation("weighted std is zero for constant data", f"weighted_std/zero-for-constant/{feat}", expected=0.0, observed=sd, sub=s2)
        else:
            want = M.weighted_std(xs, ws)
            if not close(sd, want, TOL):
                ctx.violation("weighted std agrees with sqrt(sum w (x - mu)^2 / sum w)", f"weighted_std/formula/{feat}", expected=want, observed=sd, sub=s2)
    if not full:
        return tokens
    for s in SHIFTS + BIG_SHIFTS:
        moved = [x + s for x in vec]
        if med is not None:
            g = call("weighted_median", moved)
            if g is not None and not close(g, med + s, TOL):
                ctx.violation("weighted median moves with the data when a constant is added", f"weighted_median/shift/{feat}", expected=med + s, observed=g, sub={**sub, "fn": "weighted_median", "shift": s})
        for name, b in (("weighted_mad", mad), ("weighted_std", sd)):
            if b is None:
                continue
            g = call(name, moved)
            if g is None:
                continue
            s2 = {**sub, "fn": name, "shift": s}
            if const:
                if abs(g) > TOL * max(1.0, abs(lo + s)):
                    ctx.violation(f"{name} is zero for constant data", f"{name}/zero-for-constant/{feat}", expected=0.0, observed=g, sub=s2)
            elif not close(g, b, TOL):
                ctx.violation(f"{name} is unchanged by adding a constant", f"{name}/shift/{feat}", expected=b, observed=g, sub=s2)
    for k in SCALES:
        scaled = [x * k for x in vec]
        for name, b in (("weighted_mad", mad), ("weighted_std", sd)):
            if b is None:
                continue
            g = call(name, scaled)
            if g is None:
                continue
            s2 = {**sub, "fn": name, "scale": k}
            if const:
                if abs(g) > TOL * max(1.0, abs(lo * k)):
                    ctx.violation(f"{name} is zero for constant data", f"{name}/zero-for-constant/{feat}", expected=0.0, observed=g, sub=s2)
            elif not close(g, k * b, TOL):
                ctx.violation(f"{name} is proportional under rescaling", f"{name}/rescale/{feat}", expected=k * b, observed=g, sub=s2)
    return tokens


def run_weighted(case, ctx):
    vec = case["values"]
    k = len(vec)
    nontrivial = len(set(vec)) > 1
    for wts in itertools.product(WEIGHTS, repeat=k):
        if not any(wts):
            continue
        wts = list(wts)
        seen = eval_weighted(ctx, vec, wts, True, {"a": vec, "w": wts})
        ctx.state(("w", vec, wts), nontrivial=nontrivial)
        if case["nan"]:
            for p in range(k + 1):
                v2 = vec[:p] + [NAN] + vec[p:]
                w2 = wts[:p] + [1.0] + wts[p:]
                eval_weighted(ctx, v2, w2, False, {"a": v2, "w": w2}, ref=seen)
                ctx.state(("w", ["nan" if x != x else x for x in v2], w2), nontrivial=nontrivial)
    ctx.sample("weighted", {"values": vec, "weight_vectors": len(WEIGHTS) ** k - 1})


def run_long_vector(case, ctx):
    n = case["n"]
    vec = LONG_SHAPES[case["shape"]](n)
    nontrivial = len(set(vec)) > 1
    seen = eval_estimators(ctx, vec, True, {"shape": case["shape"], "n": n})
    ctx.state(("ul", case["shape"], n), nontrivial=nontrivial)
    for p in (0, n // 2, n):
        withnan = vec[:p] + [NAN] + vec[p:]
        eval_estimators(ctx, withnan, False, {"shape": case["shape"], "n": n, "nan_at": p}, ref=seen)
        ctx.state(("ul", case["shape"], n, p), nontrivial=nontrivial)
    for wname, wf in LONG_WEIGHTS.items():
        wts = wf(n)
        seen = eval_weighted(ctx, vec, wts, True, {"shape": case["shape"], "n": n, "weights": wname})
        ctx.state(("wl", case["shape"], n, wname), nontrivial=nontrivial)
        p = n // 2
        eval_weighted(ctx, vec[:p] + [NAN] + vec[p:], wts[:p] + [1.0] + wts[p:], False, {"shape": case["shape"], "n": n, "weights": wname, "nan_at": p}, ref=seen)
        ctx.state(("wl", case["shape"], n, wname, p), nontrivial=nontrivial)
    ctx.sample("long-vector", {"shape": case["shape"], "n": n, "head": vec[:6]})


# --------------------------------------------------------------------------------------------
# smoothers
def width_value(width, n):
    return n + 5 if width == "len+5" else width


def width_feature(width, n):
    if width is None:
        return "default-width"
    if width == "len+5":
        return "wider-than-signal"
    if width < 1:
        return "fraction"
    return "integer>=len" if width >= n else "integer"


def weight_patterns(n, all_positions):
    """(name, class, weights) - all 1, one dominant (10), one zero; at every position or first/middle/last."""
    out = [("ones", "all-ones", [1.0] * n)]
    if n < 2:
        return out + [("dominant@0", "one-dominant", [10.0])]
    pos = list(range(n)) if all_positions else sorted({0, n // 2, n - 1})
    for p in pos:
        out.append((f"dominant@{p}", "one-dominant", [10.0 if i == p else 1.0 for i in range(n)]))
    for p in pos:
        out.append((f"zero@{p}", "one-zero", [0.0 if i == p else 1.0 for i in range(n)]))
    return out


def check_smoothed(ctx, name, y, sig, feat, in_range, sub):
    n = len(sig)
    if isinstance(y, Exc):
        ctx.violation(f"{name} returns one value per input value", f"{name}/raises/{y.key}/{feat}", expected=f"{n} finite values", observed=y, sub=sub)
        return
    try:
        out = np.asarray(y, dtype=float)
    except (TypeError, ValueError):
        ctx.violation(f"{name} returns numbers", f"{name}/not-numeric/{feat}", expected=f"{n} finite values", observed=repr(y)[:200], sub=sub)
        return
    ctx.trace()
    ctx.outcome(hash((name, tuple(np.round(out, 9).tolist()))) if out.ndim == 1 else 0)
    if out.ndim != 1 or len(out) != n:
        ctx.violation(f"{name} returns one value per input value", f"{name}/count/{feat}", expected=n, observed=list(out.shape), sub=sub)
        return
    if not np.isfinite(out).all():
        ctx.violation(f"{name} returns finite values", f"{name}/non-finite/{feat}", expected="all finite", observed=out.tolist()[:40], sub=sub)
        return
    lo, hi = min(sig), max(sig)
    tol = TOL * max(1.0, abs(lo), abs(hi))
    if lo == hi:
        if float(np.abs(out - lo).max()) > tol:
            ctx.violation(f"{name} reproduces a constant signal", f"{name}/constant/{feat}", expected=lo, observed=out.tolist()[:40], sub=sub)
    elif in_range and (float(out.min()) < lo - tol or float(out.max()) > hi + tol):
        ctx.violation(f"{name} stays within the input range", f"{name}/range/{feat}", expected=[lo, hi], observed=[float(out.min()), float(out.max())], sub=sub)


def smoother_strata(ctx, n, width):
    """Which clamp of the width -> half-window conversion this (n, width) reaches (bookkeeping only)."""
    if n < 2:
        ctx.stratum("smooth: length-1 signal")
        return
    w = width_value(width, n)
    if w < 1:
        wing = int(math.ceil(n * w * 0.5))
        ctx.stratum("smooth: fractional width")
    else:
        if w > n - 1:
            ctx.stratum("smooth: integer width cut to len-1")
        wing = int(min(w, n - 1) // 2)
        ctx.stratum("smooth: integer width")
    if wing < 3:
        ctx.stratum("smooth: half-window raised to the minimum 3")
    if max(wing, 3) > n - 1:
        ctx.stratum("smooth: half-window clamped to len-1")
    wing = min(max(wing, 3), n - 1)
    if (2 * wing + 1) // min(7, 2 * wing + 1) > 1:
        ctx.stratum("smooth: savgol iterates more than once")
    if 2 * wing + 1 < 7:
        ctx.stratum("smooth: savgol window/order reduced for a short signal")


def eval_signal(ctx, sig, widths, patterns, sub):
    n = len(sig)
    nfeat = "n1" if n == 1 else "n2-3" if n <= 3 else "n>=4"
    for width in widths:
        w = width_value(width, n)
        feat = nfeat if n == 1 else f"{nfeat}/{width_feature(width, n)}"
        s2 = {**sub, "width": w}
        smoother_strata(ctx, n, width)
        check_smoothed(ctx, "rolling_median", ctx.call(S.rolling_median, arr(sig), w), sig, feat, True, {**s2, "fn": "rolling_median"})
        check_smoothed(ctx, "kaiser", ctx.call(S.kaiser, arr(sig), w), sig, feat, True, {**s2, "fn": "kaiser"})
        check_smoothed(ctx, "savgol", ctx.call(S.savgol, arr(sig), w), sig, feat, False, {**s2, "fn": "savgol"})
        for pname, pclass, wts in patterns:
            check_smoothed(
                ctx,
                "savgol-weighted",
                ctx.call(S.savgol, arr(sig), w, weights=arr(wts)),
                sig,
                f"{feat}/{pclass}",
                False,
                {**s2, "fn": "savgol", "weights": pname},
            )
    check_smoothed(ctx, "kaiser", ctx.call(S.kaiser, arr(sig)), sig, nfeat if n == 1 else f"{nfeat}/default-width", True, {**sub, "fn": "kaiser", "width": None})
    ctx.stratum("smooth: kaiser default width (guess_window_size)")


def run_signals(case, ctx):
    head = case["head"]
    for tail in itertools.product(SIGNAL_VALUES, repeat=case["tail_len"]):
        sig = head + list(tail)
        eval_signal(ctx, sig, WIDTHS, weight_patterns(len(sig), case["all_positions"]), {"signal": sig})
        ctx.state(("s", sig), nontrivial=len(set(sig)) > 1)
    ctx.sample("signals", {"head": head, "tail_len": case["tail_len"], "widths": len(WIDTHS) + 1})


def run_constant_signal(case, ctx):
    n = case["n"]
    for c in (2.5, -100.0):
        sig = [c] * n
        eval_signal(ctx, sig, WIDTHS, weight_patterns(n, False), {"constant": c, "n": n})
        ctx.state(("c", c, n), nontrivial=False)
    ctx.sample("constant-signal", {"n": n})


def run_long_signal(case, ctx):
    n = case["n"]
    sig = LONG_SIGNALS[case["shape"]](n)
    eval_signal(ctx, sig, WIDTHS + [0.01, 51, 401], weight_patterns(n, False), {"shape": case["shape"], "n": n})
    ctx.state(("sl", case["shape"], n), nontrivial=True)
    ctx.sample("long-signal", {"shape": case["shape"], "n": n})


MANIFEST = {
    "text": "Bounded-exhaustive exploration of cnvlib.descriptives and the smoothers: every multiset (and every ordering of the "
    "short ones, NaN inserted at every position) over {-3,-1,0,0.5,1,2,100} through biweight location / mode / MAD / IQR / "
    "gapper / Qn / biweight midvariance with shifted and rescaled copies; every (vector, weight vector) over weights "
    "{0,0.5,1,2,10} through weighted median / MAD / std; deterministic long vectors (10..400) reaching every Qn branch; every "
    "signal over {0,1,-2} up to length 8, constants of length 1..60 and long shapes through rolling_median, kaiser, savgol and "
    "weighted savgol x 10 widths (fractions, integers, wider than the signal) x weight patterns.  Range, sign, constants, "
    "equivariance and count clauses are evaluated literally; each estimator is compared with a pure-Python textbook "
    "implementation; the weighted median with its two defining inequalities.  Exhaustive inside the bound, no RNG.",
    "note": "Trusted: numpy array construction; the pure-Python reference formulas (cross-examined against numpy/scipy "
    "formulations in selftest/stats.py).  Where publications differ (quartile type, n in the midvariance, Qn's finite-sample "
    "factor) the documented variant is accepted, see assumptions.  Off-lattice floats, vectors beyond the bound, NaN in "
    "weights, integer-typed weight arrays, weighted kaiser and do_fit_edges are not covered.",
    "technique": "exhaustive enumeration of input vectors x weight vectors x window widths on the real code; literal invariant clauses plus independent formula implementations as oracle",
}

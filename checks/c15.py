"""C15 - centring is a uniform shift zeroing the autosomes; sample sex is inferred right.

E1, two halves.

centring   every bin table of a stated family (every non-empty subset of {1, 2, 3, X, Y} in both naming
           styles x bins per chromosome x per-chromosome levels x null-coverage bins x PAR-X bin kinds x
           extra contigs x tables without autosome-like names x 24-chromosome tables) through the real
           CopyNumArray.center_all for every estimator x by_chrom x skip_low x PAR genome.
           Oracle: out - in is one constant over all bins; the estimator, applied by the stated two-level
           rule to the autosomal (+ PAR-X, - null) bins of the output, is zero (ties of the kernel-density
           mode and the 1e-3 stopping rule of the biweight left open).
sex        synthetic samples whose X / Y bins sit at the levels expected for a sex against a reference
           sex, bin noise from the deterministic noise alphabet (normal quantiles arranged by affine
           permutations; no random numbers), through guess_xx, do_sex, shift_xx, expect_flat_log2.
cli        `cnvkit.py sex [-y]` and `cnvkit.py call --center ... -m none` on files, for the option wiring.
"""
import itertools
import math
import os
import shutil
import tempfile

from checks.common import np, pd
from cnvlib import cnary, commands, descriptives
from cnvlib.cnary import CopyNumArray as CNA
from mc.engine import Exc
from models import centering as C
from models import stats as S

ID = "C15"
BUDGET = {"quick": 900, "thorough": 7200}
CASE_TIMEOUT = 600

TOL = 1e-9
TOL_ITER = 1e-6
TOL_FILE = 2e-4  # values that went through %.6g twice (magnitudes up to 25)

NULL_LOG2 = -20.0  # the log2 value the package substitutes for a bin without coverage
LEVELS = (0.0, -1.0, 0.4, 2.0)
OFFSETS = (0.0, 0.1, -0.25)  # fixed within-chromosome pattern
SHAPES = {"u1": (1, 1, 1, 1, 1), "u2": (2, 2, 2, 2, 2), "u3": (3, 3, 3, 3, 3), "up": (1, 2, 3, 1, 2), "down": (3, 1, 2, 3, 1)}
BASE = ("1", "2", "3", "X", "Y")
STAIR = {"1": -1.0, "2": 0.4, "3": 2.0, "X": 0.0, "Y": -1.0}
SEX_LEVELS = ((-1.0, 2.0), (2.0, -1.0))  # (X level, Y level) variants
GENOMES = ("grch37", "grch38")
EXTRA_CONTIGS = {"": ("MT", "GL000191.1", "KI270728.1"), "chr": ("chrM", "chr1_gl000191_random", "chrUn_gl000220")}
NO_AUTOSOME_NAMES = (("I", "II", "III"), ("scaffold_1", "scaffold_2"), ("2L", "2R", "X"), ("chrI", "chrII"), ("chrX",), ("Y",))


# =============================================================================================
# description
# =============================================================================================
def describe(tier):
    t = tier == "thorough"
    return {
        "rule": "centring: state = one bin table (names, bins per chromosome, levels, null bins, PAR-X bin kinds, columns, index); "
        "non-trivial = the table has autosome-named bins and some configuration shifts it by a non-zero constant; every state is run "
        "through center_all for the listed estimator x by_chrom x skip_low x PAR-genome configurations. sex: state = one synthetic "
        "sample (sex, reference sex, bins on autosomes / X / Y, noise sd, noise arrangement, weights, naming, PAR genome); non-trivial = "
        "the noise carries at least one X bin across the midpoint between the male and the female level",
        "bound": {
            "centring_levels": (
                "every non-empty subset of {1,2,3,X,Y} x both naming styles x bins per chromosome {1,1,1,1,1 / 2,.. / 3,.. / 1,2,3,1,2 / 3,1,2,3,1} x "
                "autosome levels {0,-1,0.4,2}^k x 2 sex-chromosome level pairs; 16 configurations + default call + a PAR genome without PAR bins"
            )
            if t
            else (
                "every non-empty subset of {1,2,3,X,Y} x bins per chromosome {1,.. / 2,.. / 1,2,3,1,2} x autosome levels {0,-1,0.4,2}^k, plain names; "
                "the 1,2,3,1,2 shape also with chr names; est x by_chrom, skip_low with by_chrom, default call, a PAR genome without PAR bins"
            ),
            "centring_nulls": ("<= 3 null bins at every position set, shapes 2,.. and 1,2,3,1,2, both styles, with and without a depth column" if t else "<= 2 null bins at every position set, shape 2,.., plain names; depth column for single null bins")
            + "; est x by_chrom x skip_low",
            "centring_par": "autosomes {none, 1, 1+2} x Y present/absent x every multiset of 1..3 X bins over {outside PAR, PAR1, PAR2 of GRCh37 only, PAR2 of GRCh38 only} x both styles; "
            "genome {none, grch37, grch38} x est x by_chrom" + (" x skip_low with one null bin at each X position" if t else ""),
            "centring_other": "constant chromosomes; extra non-canonical contigs; tables with no autosome-like names; non-default row index; PAR-X bin kinds on derived tables (filtered index, null bins ahead of chrX with skip_low); "
            "rows not in genomic order (every chromosome in two separate runs); 24 chromosomes (1..22, X, Y)" + ("; 8, 12, 23 chromosomes" if t else ""),
            "sex": (
                "sex x reference sex x X bins {40,41,64,100,250,400} x Y bins {0,3,10,40} x sd {0.01,0.05,0.1,0.2,0.3} x weights {none,const,saw-tooth} x naming x autosome bins {200,1000,3000} "
                "x 12 noise arrangements; female Y level {-4,-8,-20}; PAR genome with 10 PAR-X bins; 48 noise-free samples (sd 0)"
                if t
                else "sex x reference sex x X bins {40,100,400} x Y bins {0,10,40} x sd {0.01,0.1,0.3} x weights {none,saw-tooth} x naming x autosome bins {200,1000} x 6 noise arrangements; "
                "PAR genome with 10 PAR-X bins on a sub-grid; 48 noise-free samples (sd 0, all three weight patterns)"
            ),
            "sex_history": "sex x reference sex x naming x Y bins {10, 0} (200 autosome bins, 40 X bins, sd 0.05): every word of <= "
            + ("3" if t else "2")
            + " steps over {keep, copy, mask a subset, replace log2 by the other sex's profile in place, the same on a copy} x {guess_xx, do_sex, compare_sex_chromosomes, shift_xx with the sex inferred}, "
            "all on one object lineage, no deduplication",
            "cli": "sex [-y] on 16 written samples; call --center {median,mean,biweight,mode} [--drop-low-coverage] [--diploid-parx-genome] -m none on 6 written tables",
        },
        "alphabet": {
            "levels": list(LEVELS),
            "within_chromosome_offsets": list(OFFSETS),
            "null_log2": NULL_LOG2,
            "estimators": list(C.ESTIMATORS),
            "x_bin_kinds": list(C.X_KINDS),
            "noise": "sd * Phi^-1((i+1/2)/n) over all n bins of the sample, bin i receiving quantile (a*i+b) mod n, a = first multiplier >= n*r coprime with n for r in "
            + str(list(C.RATIOS))
            + ", b = floor(n*k/7)",
        },
        "assumptions": [
            "the sex-inference half is claimed only over the deterministic noise alphabet (evenly spread subsamples of the normal quantile grid; |median(X noise) - median(autosome noise)| <= 1.5 sd/sqrt(n_X) on all of it, asserted in selftest/centering.py), not for every noise realisation",
            "null-coverage bin = log2 -20 (and depth 0 when a depth column exists); bins with depth 0 but ordinary log2, and log2 between -15 and -3, are not enumerated (the statement does not fix the threshold)",
            "tables without any autosome-named bin: the statement does not single out a reading; accepted = unchanged, or the estimator of all bins (of the PAR-X bins, with a genome) zeroed; always: uniform shift",
            "tables where skip_low removes every autosome-named bin: only the uniform-shift clause (DESIGN section 4 rule 2)",
            "bins straddling a PAR boundary are not enumerated",
            "DESIGN section 4 rule 6: when the independent biweight / kernel-density-mode model does not give zero on the output, the package's own descriptives.biweight_location / modal_location "
            "(verified by C19) is consulted on the same bins; a zero there defers the difference to C19 (counted as a stratum)",
            "third-party numerics trusted: numpy, scipy.stats.gaussian_kde, scipy.stats.median_test, statistics.NormalDist.inv_cdf",
            "sd 0 (no noise) is enumerated as the boundary of the statement's 'noise up to sd 0.3' although the quantifier's grid starts at 0.01: it is the only way to reach the documented flat-input fallback (difference of medians, weighted when a weight column exists)",
            "do_sex needs meta['filename'] (arrays read from files have it); samples are built with it",
            "expect_flat_log2 and shift_xx on PAR-X bins with a PAR genome are left open (the statement speaks of X)",
        ],
    }


# =============================================================================================
# case enumeration
# =============================================================================================
def name_sets():
    out = []
    for k in range(1, len(BASE) + 1):
        out += list(itertools.combinations(BASE, k))
    return out


def chrom_list(names, style, shape, auto_levels=None, sex_levels=SEX_LEVELS[0], level_map=None):
    """[[name, n_bins, level], ...]; bins per chromosome by position in the table."""
    out = []
    ai = 0
    for pos, nm in enumerate(names):
        if level_map is not None:
            lvl = level_map[nm]
        elif nm == "X":
            lvl = sex_levels[0]
        elif nm == "Y":
            lvl = sex_levels[1]
        else:
            lvl = auto_levels[ai]
            ai += 1
        out.append([style + nm, SHAPES[shape][pos % 5], lvl])
    return out


def center_cases(tier):
    t = tier == "thorough"
    sets = name_sets()
    # ---- levels
    plan = [("", s) for s in (("u1", "u2", "u3", "up", "down") if t else ("u1", "u2", "up"))] + [("chr", s) for s in (("u1", "u2", "u3", "up", "down") if t else ("up",))]
    for style, shape in plan:
        for names in sets:
            autos = [n for n in names if n not in "XY"]
            sexes = [n for n in names if n in "XY"]
            for lv in itertools.product(LEVELS, repeat=len(autos)):
                for sl in SEX_LEVELS if (t and sexes) else SEX_LEVELS[:1]:
                    yield {
                        "check": "center",
                        "family": "levels",
                        "style": style,
                        "chroms": chrom_list(names, style, shape, lv, sl),
                        "pattern": "spread",
                        "configs": "full" if t else "base",
                    }
    # ---- constant chromosomes
    for shape in ("u2", "u3", "up"):
        for names in sets:
            for scheme in ("stair", "zero"):
                lm = STAIR if scheme == "stair" else {n: (0.0 if n not in "XY" else STAIR[n] + 1.0) for n in BASE}
                yield {"check": "center", "family": "flat", "style": "", "chroms": chrom_list(names, "", shape, level_map=lm), "pattern": "flat", "configs": "est-by_chrom"}
    # ---- null bins
    for style, shape in ([("", "u2"), ("", "up"), ("chr", "u2"), ("chr", "up")] if t else [("", "u2")]):
        for names in sets:
            chroms = chrom_list(names, style, shape, level_map=STAIR)
            nrows = sum(c[1] for c in chroms)
            kmax = min(nrows, 3 if (t and shape == "u2") else 2)
            for k in range(1, kmax + 1):
                for nulls in itertools.combinations(range(nrows), k):
                    for depth in (False, True) if (t or k == 1) else (False,):
                        yield {"check": "center", "family": "nulls", "style": style, "chroms": chroms, "pattern": "spread", "nulls": list(nulls), "depth": depth, "configs": "est-by_chrom-skip_low"}
    # ---- PAR-X bin kinds
    kind_sets = []
    for k in (1, 2, 3):
        kind_sets += list(itertools.combinations_with_replacement(C.X_KINDS, k))
    for style in ("", "chr"):
        for autos in ((), ("1",), ("1", "2")):
            for with_y in (False, True):
                for kinds in kind_sets:
                    names = autos + ("X",) + (("Y",) if with_y else ())
                    chroms = chrom_list(names, style, "u2", level_map={"1": 0.4, "2": 2.0, "X": -1.0, "Y": -1.0})
                    base = {"check": "center", "family": "par", "style": style, "chroms": chroms, "pattern": "spread", "xkinds": list(kinds), "par_level": 0.0}
                    yield {**base, "configs": "genome-est-by_chrom"}
                    if t:
                        x0 = sum(c[1] for c in chroms[: len(autos)])
                        for p in range(len(kinds)):
                            yield {**base, "nulls": [x0 + p], "configs": "genome-est-by_chrom-skip_low"}
    # ---- PAR-X bins on a derived table: row labels with holes (filtered index), and null bins ahead of chrX dropped by skip_low
    for style in ("", "chr"):
        for kinds in kind_sets:
            chroms = chrom_list(("1", "2", "X"), style, "u2", level_map={"1": 0.4, "2": 2.0, "X": -1.0})
            base = {"check": "center", "family": "par-derived", "style": style, "chroms": chroms, "pattern": "spread", "xkinds": list(kinds), "par_level": 0.7}
            yield {**base, "index": "filtered", "configs": "genome-est-by_chrom"}
            yield {**base, "nulls": [0], "configs": "genome-est-by_chrom-skip_low"}
            yield {**base, "nulls": [1, 2], "index": "filtered", "configs": "genome-est-by_chrom-skip_low"}
    # ---- rows not in genomic order: every chromosome's bins in two separate runs (e.g. all on-target bins, then all off-target bins)
    for style in ("", "chr"):
        for names in sets:
            if not any(n not in "XY" for n in names):
                continue
            for shape in ("u3", "up") if t else ("u3",):
                chroms = chrom_list(names, style, shape, level_map=STAIR)
                yield {"check": "center", "family": "split-runs", "style": style, "chroms": chroms, "pattern": "spread", "order": "two-passes", "configs": "est-by_chrom-skip_low"}
                yield {"check": "center", "family": "split-runs", "style": style, "chroms": chroms, "pattern": "spread", "order": "two-passes", "nulls": [0], "configs": "est-by_chrom-skip_low"}
    # ---- extra contigs, no autosome-like names, non-default index
    for style in ("", "chr"):
        for names in (("1", "2"), ("1", "2", "X"), ("1", "X", "Y")):
            for extra in EXTRA_CONTIGS[style]:
                chroms = chrom_list(names, style, "u2", level_map=STAIR) + [[extra, 2, 5.0]]
                yield {"check": "center", "family": "extra-contig", "style": style, "chroms": chroms, "pattern": "spread", "configs": "base"}
    for names in NO_AUTOSOME_NAMES:
        for shape in ("u2", "up"):
            chroms = [[nm, SHAPES[shape][i], LEVELS[(i + 1) % 4]] for i, nm in enumerate(names)]
            style = "chr" if names[0].startswith("chr") else ""
            yield {"check": "center", "family": "no-autosome-names", "style": style, "chroms": chroms, "pattern": "spread", "configs": "base"}
            if shape == "u2":
                yield {"check": "center", "family": "no-autosome-names", "style": style, "chroms": chroms, "pattern": "spread", "nulls": [0], "configs": "est-by_chrom-skip_low"}
    for style in ("", "chr"):
        for names in (("1", "2", "X"), BASE):
            for shape in ("u2", "up"):
                chroms = chrom_list(names, style, shape, level_map=STAIR)
                for nulls in ([], [1]):
                    yield {"check": "center", "family": "index", "style": style, "chroms": chroms, "pattern": "spread", "nulls": nulls, "index": "filtered", "configs": "est-by_chrom-skip_low"}
    # ---- many chromosomes
    for nchrom in (24, 8, 12, 23) if t else (24,):
        names = [str(i + 1) for i in range(22)] + ["X", "Y"] if nchrom == 24 else [str(i + 1) for i in range(nchrom - 1)] + ["X"]
        for style in ("", "chr"):
            for shape in ("u1", "u3", "up"):
                for rot in range(4):
                    chroms = [[style + nm, SHAPES[shape][i % 5], (LEVELS[(i + rot) % 4] if nm not in "XY" else (-1.0 if nm == "X" else 2.0))] for i, nm in enumerate(names)]
                    yield {"check": "center", "family": "many-chromosomes", "style": style, "chroms": chroms, "pattern": "spread", "configs": "base"}


SEX_PERMS_Q = [[0, 0], [1, 3], [2, 5], [3, 1], [4, 4], [5, 2]]
SEX_PERMS_T = [[r, b] for r in range(6) for b in (0, 3)]


def sex_cases(tier):
    t = tier == "thorough"
    nxs = (40, 41, 64, 100, 250, 400) if t else (40, 100, 400)
    nys = (0, 3, 10, 40) if t else (0, 10, 40)
    sds = (0.01, 0.05, 0.1, 0.2, 0.3) if t else (0.01, 0.1, 0.3)
    wts = ("none", "const", "ramp") if t else ("none", "ramp")
    nas = (200, 1000, 3000) if t else (200, 1000)
    perms = SEX_PERMS_T if t else SEX_PERMS_Q
    for na in nas:
        for nx in nxs:
            for ny in nys:
                for sd in sds:
                    for w in wts:
                        for style in ("", "chr"):
                            for male_ref in (False, True):
                                for sex in ("female", "male"):
                                    yield {"check": "sex", "sex": sex, "male_ref": male_ref, "n_auto": na, "n_x": nx, "n_y": ny, "sd": sd, "weights": w, "style": style, "perms": perms}
    # female Y at other 'deep negative' levels
    if t:
        for deep in (-8.0, NULL_LOG2):
            for nx in (40, 100):
                for ny in (3, 10, 40):
                    for sd in (0.01, 0.1, 0.3):
                        for w in ("none", "ramp"):
                            for male_ref in (False, True):
                                yield {"check": "sex", "sex": "female", "male_ref": male_ref, "n_auto": 200, "n_x": nx, "n_y": ny, "sd": sd, "weights": w, "style": "", "perms": perms, "y_deep": deep}
    # noise-free samples: the boundary of "noise up to sd 0.3", where Mood's test degenerates and the code
    # falls back to the difference of (weighted) medians
    for w in C.WEIGHT_PATTERNS:
        for ny in (0, 10):
            for style in ("", "chr"):
                for male_ref in (False, True):
                    for sex in ("female", "male"):
                        yield {"check": "sex", "sex": sex, "male_ref": male_ref, "n_auto": 200, "n_x": 40, "n_y": ny, "sd": 0.0, "weights": w, "style": style, "perms": [[0, 0]]}
    # PAR genome named, PAR-X bins at the diploid level
    for genome in GENOMES:
        for nx in (40, 100):
            for ny in (0, 10):
                for sd in (0.1, 0.3):
                    for style in ("", "chr"):
                        for male_ref in (False, True):
                            for sex in ("female", "male"):
                                yield {"check": "sex", "sex": sex, "male_ref": male_ref, "n_auto": 200, "n_x": nx, "n_y": ny, "sd": sd, "weights": "none", "style": style, "perms": perms, "par": genome, "n_par": 10}


def cli_cases(tier):
    for style in ("", "chr"):
        for male_ref in (False, True):
            for sex in ("female", "male"):
                for ny in (0, 10):
                    yield {"check": "cli-sex", "sex": sex, "male_ref": male_ref, "n_auto": 200, "n_x": 40, "n_y": ny, "sd": 0.1, "weights": "ramp" if ny else "none", "style": style, "perm": [0, 0]}
    tables = [
        {"style": "", "chroms": chrom_list(("1", "2", "X"), "", "up", level_map=STAIR), "pattern": "spread"},
        {"style": "chr", "chroms": chrom_list(BASE, "chr", "up", level_map=STAIR), "pattern": "spread"},
        {"style": "", "chroms": chrom_list(BASE, "", "u2", level_map=STAIR), "pattern": "spread", "nulls": [1, 4]},
        {"style": "chr", "chroms": chrom_list(("1", "2", "X"), "chr", "u2", level_map=STAIR), "pattern": "spread", "nulls": [0], "depth": True},
        {"style": "", "chroms": chrom_list(("1", "2", "X"), "", "u2", level_map={"1": 0.4, "2": 2.0, "X": -1.0}), "pattern": "spread", "xkinds": ["par1", "non", "par2_grch37"], "par_level": 0.0},
        {"style": "chr", "chroms": chrom_list(("1", "X", "Y"), "chr", "u2", level_map={"1": 0.4, "X": -1.0, "Y": -1.0}), "pattern": "spread", "xkinds": ["par1", "par1", "par2_grch38"], "par_level": 0.0},
    ]
    for tb in tables:
        yield {"check": "cli-call-center", **tb}


def history_cases(tier):
    """Asking again: every word of <= 2 (thorough <= 3) steps (change to the sample, question) on one sample object."""
    depth = 3 if tier == "thorough" else 2
    for ny in (10, 0):
        for style in ("", "chr"):
            for male_ref in (False, True):
                for sex in ("female", "male"):
                    base = {"check": "sex-history", "sex": sex, "male_ref": male_ref, "n_auto": 200, "n_x": 40, "n_y": ny, "sd": 0.05, "weights": "none", "style": style, "depth": depth}
                    if depth < 3:
                        yield base
                    else:
                        for first in range(len(HIST_STEPS)):
                            yield dict(base, first=first)


def cases(tier):
    yield from center_cases(tier)
    yield from sex_cases(tier)
    yield from history_cases(tier)
    yield from cli_cases(tier)


def run(case, ctx):
    kind = case["check"]
    if kind == "center":
        run_center(case, ctx)
    elif kind == "sex":
        run_sex(case, ctx)
    elif kind == "sex-history":
        run_sex_history(case, ctx)
    elif kind == "cli-sex":
        run_cli_sex(case, ctx)
    elif kind == "cli-call-center":
        run_cli_call(case, ctx)
    else:
        raise ValueError(kind)


# =============================================================================================
# table building
# =============================================================================================
def table_rows(spec):
    """Rows [chromosome, start, end, log2, is_null] of a centring table spec."""
    style = spec["style"]
    xlab = style + "X"
    pattern = spec.get("pattern", "spread")
    kinds = spec.get("xkinds")
    rows = []
    for name, n, level in spec["chroms"]:
        use_kinds = kinds if (kinds and name == xlab) else None
        if use_kinds:
            n = len(use_kinds)
        seen = {}
        for i in range(n):
            lvl = level
            if use_kinds:
                kind = use_kinds[i]
                start = C.X_BIN_STARTS[kind][seen.get(kind, 0)]
                seen[kind] = seen.get(kind, 0) + 1
                if kind != "non":
                    lvl = spec["par_level"]
            else:
                start = C.X_BODY_START + i * 10_000
            off = OFFSETS[i % 3] if pattern == "spread" else 0.0
            rows.append([name, start, start + C.BIN_LEN, lvl + off, False])
    for p in spec.get("nulls", []):
        rows[p][3] = NULL_LOG2
        rows[p][4] = True
    if spec.get("order") == "two-passes":
        # first every chromosome's 1st, 3rd, ... bin, then every chromosome's 2nd, 4th, ... bin
        seen, first, second = {}, [], []
        for r in rows:
            k = seen.get(r[0], 0)
            seen[r[0]] = k + 1
            (first if k % 2 == 0 else second).append(r)
        rows = first + second
    return [tuple(r) for r in rows]


def build_cna(rows, depth=False, weights=None, index="default"):
    cols = {
        "chromosome": [r[0] for r in rows],
        "start": [r[1] for r in rows],
        "end": [r[2] for r in rows],
        "gene": ["g%d" % i for i in range(len(rows))],
        "log2": [float(r[3]) for r in rows],
    }
    if depth:
        cols["depth"] = [0.0 if r[4] else 10.0 + i for i, r in enumerate(rows)]
    if weights is not None:
        cols["weight"] = list(weights)
    meta = {"sample_id": "sample", "filename": "sample.cnr"}
    if index == "filtered":
        # a longer table whose first row (a copy of row 0, so the naming style is the same) is masked out:
        # the remaining rows keep the index labels 1..n
        df = pd.DataFrame({k: [v[0]] + v for k, v in cols.items()})
        big = CNA(df, meta)
        mask = np.ones(len(df), dtype=bool)
        mask[0] = False
        return big[mask]
    return CNA(pd.DataFrame(cols), meta)


def config_list(name, has_x):
    ests = C.ESTIMATORS
    if name == "est-by_chrom":
        return [(e, bc, False, None) for e in ests for bc in (True, False)]
    if name == "est-by_chrom-skip_low":
        return [(e, bc, sl, None) for e in ests for bc in (True, False) for sl in (False, True)]
    if name == "genome-est-by_chrom":
        return [(e, bc, False, g) for g in (None,) + GENOMES for e in ests for bc in (True, False)]
    if name == "genome-est-by_chrom-skip_low":
        return [(e, bc, sl, g) for g in (None,) + GENOMES for e in ests for bc in (True, False) for sl in (False, True)]
    if name == "base":
        out = [(e, bc, False, None) for e in ests for bc in (True, False)] + [(e, True, True, None) for e in ests] + [("default", True, False, None)]
        if has_x:
            out.append(("median", True, False, "grch37"))
        return out
    if name == "full":
        out = [(e, bc, sl, None) for e in ests for bc in (True, False) for sl in (False, True)] + [("default", True, False, None)]
        if has_x:
            out += [(e, True, False, g) for g in GENOMES for e in ests]
        return out
    raise ValueError(name)


# =============================================================================================
# centring
# =============================================================================================
def close0(v, tol, scale):
    return abs(v) <= tol * max(1.0, scale)


def package_two_level(est, group_values, by_chrom):
    """The package's own estimator applied by the two-level rule (DESIGN section 4 rule 6)."""
    fn = {"biweight": descriptives.biweight_location, "mode": descriptives.modal_location}[est]
    if by_chrom:
        return float(fn(np.array([float(fn(np.array(g, dtype=float))) for g in group_values])))
    return float(fn(np.array([v for g in group_values for v in g], dtype=float)))


def row_class(rows, i, style, genome):
    chrom = rows[i][0]
    if rows[i][4]:
        return "null-bin"
    if C.is_autosome_name(chrom):
        return "autosome"
    if chrom == style + "X":
        if genome and C.par_x_status(genome, rows[i][1], rows[i][2]) == "inside":
            return "par-x"
        return "x"
    if chrom == style + "Y":
        return "y"
    return "other-contig"


def run_center(case, ctx):
    rows = table_rows(case)
    style = case["style"]
    has_x = any(r[0] == style + "X" for r in rows)
    vals_in = [r[3] for r in rows]
    scale = max(abs(v) for v in vals_in)
    index = case.get("index", "default")
    base = build_cna(rows, depth=case.get("depth", False), index=index)
    nontrivial = False
    fam = case["family"]
    ctx.stratum(f"center: family {fam}")
    if len(case["chroms"]) >= 24:
        ctx.stratum("center: 24 chromosomes")
    if index != "default":
        ctx.stratum("center: non-default row index")
    if any(c[1] == 1 for c in case["chroms"]):
        ctx.stratum("center: table with a single-bin chromosome")
    # expect_flat_log2 on every chromosome subset (also Y without X, X without Y), on an array nothing has been asked of yet
    for male_ref in (False, True):
        fresh = build_cna(rows, depth=case.get("depth", False), index=index)
        f = ctx.call(fresh.expect_flat_log2, male_ref)
        fsub = {"male_reference": male_ref, "rows": rows if len(rows) <= 12 else f"{len(rows)} rows"}
        if isinstance(f, Exc):
            ctx.violation("expect_flat_log2 returns one value per bin", f"expect_flat_log2/raises/{f.key}/centre-tables", expected="0 / -1 per bin", observed=f, sub=fsub)
            continue
        ctx.trace()
        f = [float(v) for v in f]
        bad = set()
        for i, r in enumerate(rows):
            cls = "x" if r[0] == style + "X" else "y" if r[0] == style + "Y" else "autosome" if C.is_autosome_name(r[0]) else None
            want = {"x": -1.0 if male_ref else 0.0, "y": -1.0, "autosome": 0.0}.get(cls)
            if want is not None and (i >= len(f) or abs(f[i] - want) > TOL):
                bad.add(cls)
        ctx.stratum("expect_flat_log2 on a centre table" + (" without X" if not has_x else ""))
        if bad or len(f) != len(rows):
            ctx.violation(
                "expect_flat_log2 is 0 on autosomes, -1 on Y, and -1 on X only for a male reference",
                f"expect_flat_log2/{'male' if male_ref else 'female'}-reference/wrong-on:" + "+".join(sorted(bad)) + ("/no-x-bins" if not has_x else ""),
                expected="0 / -1 per bin",
                observed=f[:12],
                sub=fsub,
            )
    for est, by_chrom, skip_low, genome in config_list(case["configs"], has_x):
        sub = {"estimator": est, "by_chrom": by_chrom, "skip_low": skip_low, "diploid_parx_genome": genome, "rows": rows if len(rows) <= 12 else f"{len(rows)} rows"}
        est_name = "median" if est == "default" else est
        cna = base.copy()
        if est == "default":
            got = ctx.call(cna.center_all)
        else:
            got = ctx.call(cna.center_all, est, by_chrom=by_chrom, skip_low=skip_low, diploid_parx_genome=genome)
        sel = C.centering_selection(rows, genome=genome, skip_low=skip_low)
        groups_in = [[vals_in[i] for i in idx] for _c, idx in sel["groups"]]
        lvl = "two-level" if by_chrom else "pooled"
        if isinstance(got, Exc):
            degenerate = C.degenerate_inputs(est_name, groups_in, by_chrom) if sel["status"] == "autosomes" else C.degenerate_inputs(est_name, [[vals_in[i] for i in idx] for _c, idx in sel["all_groups"]], by_chrom)
            if est_name == "mode" and got.type == "LinAlgError" and got.where.endswith("descriptives.py:modal_location") and degenerate:
                # DESIGN section 6 defect 13 (property C19): the kernel-density mode of >= 2 all-equal values
                ctx.stratum("center: mode handed all-equal values (C19 defect 13 raised)")
                ctx.violation(
                    "center_all('mode') returns (the mode of all-equal values is that value)",
                    f"center_all/raises/{got.key}/mode/all-equal-input",
                    expected="a uniform shift that zeroes the mode",
                    observed=got,
                    sub=sub,
                    detail={"all_equal_at": degenerate},
                )
            else:
                ctx.violation("center_all returns on an in-scope table", f"center_all/raises/{got.key}/{est_name}/{lvl}/{fam}", expected="a uniform shift", observed=got, sub=sub)
            continue
        ctx.trace()
        out = [float(v) for v in cna.data["log2"].values]
        coords_out = [(c, int(s), int(e)) for c, s, e in zip(cna.data["chromosome"], cna.data["start"], cna.data["end"])]
        if coords_out != [(r[0], r[1], r[2]) for r in rows]:
            ctx.violation("center_all keeps every bin where it is", "center_all/every-bin-kept", expected=len(rows), observed=coords_out[:12], sub=sub)
            continue
        # ---- clause 1: one constant added to every bin
        diffs = [o - i for o, i in zip(out, vals_in)]
        if not all(math.isfinite(d) for d in diffs):
            ctx.violation("center_all adds one (finite) constant to every bin", f"center_all/uniform-shift/non-finite/{est_name}", expected="finite log2", observed=out[:12], sub=sub)
            continue
        shift = S.median(diffs)
        ctx.outcome(round(shift, 9))
        if shift != 0.0:
            nontrivial = nontrivial or sel["status"] == "autosomes"
        if max(diffs) - min(diffs) > TOL * max(1.0, scale, abs(shift)):
            classes = [row_class(rows, i, style, genome) for i in range(len(rows))]
            ref = diffs[classes.index("autosome")] if "autosome" in classes else shift
            odd = sorted({c for c, d in zip(classes, diffs) if abs(d - ref) > TOL * max(1.0, scale, abs(ref))})
            ctx.violation(
                "center_all adds one constant to every bin (differences between bins untouched)",
                "center_all/uniform-shift/rows-moved-differently:" + "+".join(odd),
                expected="out - in constant over all bins",
                observed={"out_minus_in": diffs[:12]},
                sub=sub,
            )
            continue
        # ---- clause 2: the estimator of the selected bins of the output is zero
        status = sel["status"]
        if status == "autosome-bins-all-null":
            ctx.stratum("center: skip_low removes every autosome-named bin (only the uniform shift is claimed)")
            continue
        if status == "straddling-par-bin":
            raise AssertionError("alphabet produced a straddling PAR bin")
        tol = TOL_ITER if est_name == "biweight" else TOL
        if status == "no-autosome-names":
            ctx.stratum("center: no autosome-like names (open between unchanged / all bins zeroed)")
            readings = {"unchanged": close0(shift, TOL, scale)}
            all_vals = [[out[i] for i in idx] for _c, idx in sel["all_groups"]]
            readings["all-bins-zeroed"] = zeroed(ctx, est_name, all_vals, by_chrom, tol, scale)
            if sel["groups"]:
                readings["par-bins-zeroed"] = zeroed(ctx, est_name, [[out[i] for i in idx] for _c, idx in sel["groups"]], by_chrom, tol, scale)
            if not any(readings.values()):
                ctx.violation(
                    "without autosome-like names center_all either leaves the table alone or zeroes the estimator of all bins",
                    f"center_all/no-autosome-names/{est_name}/{lvl}",
                    expected=sorted(readings),
                    observed={"shift": shift},
                    sub=sub,
                )
            continue
        ctx.stratum("center: autosomal bins selected")
        groups_out = [[out[i] for i in idx] for _c, idx in sel["groups"]]
        flags = []
        if any(r[4] for r in rows):
            flags.append("nulls-ignored" if skip_low else "nulls-kept")
            ctx.stratum("center: null bins present, skip_low " + ("on" if skip_low else "off"))
        if genome is not None:
            n_par = sum(1 for i in range(len(rows)) if row_class(rows, i, style, genome) == "par-x" or (rows[i][4] and rows[i][0] == style + "X" and C.par_x_status(genome, rows[i][1], rows[i][2]) == "inside"))
            if n_par:
                flags.append("par-x")
                ctx.stratum("center: PAR-X bins counted as autosomal")
            elif case.get("xkinds") and any(k != "non" for k in case["xkinds"]):
                ctx.stratum("center: X bin in the PAR of the other build only")
        if any(row_class(rows, i, style, genome) == "other-contig" for i in range(len(rows))):
            flags.append("extra-contig")
        if len(groups_in) > 1 and by_chrom:
            other = C.two_level_candidates(est_name, groups_in, by_chrom=False)
            mine = C.two_level_candidates(est_name, groups_in, by_chrom=True)
            if not any(abs(a - b) <= 1e-6 for a in other for b in mine):
                ctx.stratum("center: estimator of estimators differs from the pooled estimator")
        ok = zeroed(ctx, est_name, groups_out, by_chrom, tol, scale)
        if not ok:
            ctx.violation(
                f"after center_all the {est_name} of the autosomal bins ({'per chromosome, then across chromosomes' if by_chrom else 'pooled'}) is zero",
                f"center_all/estimator-zero/{est_name}/{lvl}/" + ("+".join(flags) if flags else "plain"),
                expected=0.0,
                observed={"estimate_of_output": C.two_level_candidates(est_name, groups_out, by_chrom), "shift": shift},
                sub=sub,
            )
        elif skip_low and est != "default" and est_name in ("median", "mean") and case.get("nulls"):
            # centring an already centred table with the same options changes nothing: in particular the null-coverage
            # bins, which the first call moved along with everything else, are still ignored
            once = [float(v) for v in cna["log2"]]
            again = ctx.call(cna.center_all, est, by_chrom=by_chrom, skip_low=skip_low, diploid_parx_genome=genome)
            twice = [float(v) for v in cna["log2"]]
            ctx.trace()
            ctx.stratum("center: centred a second time (null bins present, skip_low)")
            moved = max((abs(a - b) for a, b in zip(once, twice)), default=0.0)
            if isinstance(again, Exc) or not close0(moved, TOL, scale):
                ctx.violation(
                    "centring a centred table again (same options) changes nothing: null-coverage bins stay ignored",
                    f"center_all/second-call-moves/{est_name}/{lvl}",
                    expected=0.0,
                    observed=again if isinstance(again, Exc) else moved,
                    sub={**sub, "first_shift": shift},
                )
    ctx.state(("center", case["style"], case["chroms"], case.get("pattern"), case.get("nulls"), case.get("depth"), case.get("xkinds"), index), nontrivial=nontrivial)
    ctx.sample("center/" + fam, {"rows": rows[:12], "configs": case["configs"]})


def zeroed(ctx, est, group_values, by_chrom, tol, scale):
    """Is the two-level estimate of these (output) values zero?  Independent model first; for the
    iterative / kernel estimators the package's own function second (rule 6)."""
    group_values = [g for g in group_values if g]
    if not group_values:
        return False
    cands = C.two_level_candidates(est, group_values, by_chrom)
    if len(cands) > 1:
        ctx.stratum("center: several admissible estimates (mode tie / biweight stopping rule)")
    if any(close0(v, tol, scale) for v in cands):
        return True
    if est in ("biweight", "mode"):
        try:
            v = package_two_level(est, group_values, by_chrom)
        except Exception:  # noqa: BLE001 - the package estimator is only a second opinion here
            return False
        if close0(v, tol, scale):
            ctx.stratum(f"center: {est} model and package estimator disagree on the output (deferred to C19)")
            return True
    return False


# =============================================================================================
# sex
# =============================================================================================
class MedianTestRecorder:
    """Counts how the four Mood's median tests inside compare_sex_chromosomes ended (a seam swap of the
    module attribute cnvlib.cnary.median_test for the duration of one call)."""

    def __init__(self):
        self.ok = self.failed = 0

    def __enter__(self):
        self.orig = cnary.median_test

        def wrapped(*a, **k):
            try:
                res = self.orig(*a, **k)
            except ValueError:
                self.failed += 1
                raise
            self.ok += 1
            return res

        cnary.median_test = wrapped
        return self

    def __exit__(self, *exc):
        cnary.median_test = self.orig
        return False


def sex_key(case):
    return (
        f"{case['sex']}-sample/{'male' if case['male_ref'] else 'female'}-reference/"
        + ("y-bins" if case["n_y"] else "no-y")
        + ("/par-genome" if case.get("par") else "")
        + ("/noise-free" if case["sd"] == 0 else "")
        + ("/y-at-null" if case.get("y_deep", -4.0) <= -15 else "")
    )


def build_sex_sample(case, perm):
    rows, noise = C.sex_sample_rows(
        case["sex"], case["male_ref"], case["n_auto"], case["n_x"], case["n_y"], case["sd"], perm[0], perm[1],
        style=case["style"], par_genome=case.get("par"), n_par=case.get("n_par", 0), y_deep=case.get("y_deep", -4.0),
    )
    w = C.weights_for(case["weights"], len(rows))
    return rows, noise, build_cna(rows, weights=w)


def run_sex(case, ctx):
    sex, male_ref, sd, nx = case["sex"], case["male_ref"], case["sd"], case["n_x"]
    genome = case.get("par")
    style = case["style"]
    xlab, ylab = C.sex_labels(style)
    is_female = sex == "female"
    fk = sex_key(case)
    margin = 3.0 * sd / math.sqrt(nx) + TOL
    for perm in case["perms"]:
        rows, noise, cna = build_sex_sample(case, perm)
        sub = {"noise_ratio_index": perm[0], "noise_offset_index": perm[1]}
        cls = ["auto" if C.is_autosome_name(r[0]) else ("par" if (genome and r[0] == xlab and C.par_x_status(genome, r[1], r[2]) == "inside") else ("x" if r[0] == xlab else "y")) for r in rows]
        nz_auto = [n for n, c in zip(noise, cls) if c == "auto"]
        nz_x = [n for n, c in zip(noise, cls) if c == "x"]
        if abs(S.median(nz_x) - S.median(nz_auto)) > 3.0 * sd / math.sqrt(nx):
            ctx.stratum("sex: noise arrangement atypical (skipped; must stay 0)")
            continue
        ctx.state(("sex", {k: v for k, v in case.items() if k != "perms"}, perm), nontrivial=max(abs(n) for n in nz_x) > 0.5)
        ctx.stratum(f"sex: {sex} sample, {'male' if male_ref else 'female'} reference")
        ctx.stratum("sex: Y bins present" if case["n_y"] else "sex: no Y bins")
        if case["weights"] != "none":
            ctx.stratum("sex: weight column present")
        if genome:
            ctx.stratum("sex: PAR genome named")
        # ---- guess_xx (default verbosity)
        with MedianTestRecorder() as rec:
            g = ctx.call(cna.guess_xx, male_ref, genome)
        if rec.ok:
            ctx.stratum("sex: Mood's median test usable", rec.ok)
        if rec.failed:
            ctx.stratum("sex: median test failed (median-difference fallback)", rec.failed)
        if isinstance(g, Exc):
            ctx.violation("guess_xx returns the sample's sex", f"guess_xx/raises/{g.key}/{fk}", expected=is_female, observed=g, sub=sub)
        else:
            ctx.trace()
            if g is None or bool(g) != is_female:
                ctx.violation("guess_xx returns True exactly for a female sample", f"guess_xx/wrong-sex/{fk}", expected=is_female, observed=None if g is None else bool(g), sub=sub)
        # ---- the sex report
        t = ctx.call(commands.do_sex, [cna], male_ref, genome)
        if isinstance(t, Exc):
            ctx.violation("the sex report states the sample's sex", f"do_sex/raises/{t.key}/{fk}", expected=sex, observed=t, sub=sub)
        else:
            ctx.trace()
            said = [str(v) for v in t["sex"]] if "sex" in t else None
            ctx.outcome((said, [str(v) for v in t.iloc[0]] if len(t) else None))
            if said != ["Female" if is_female else "Male"]:
                ctx.violation("the sex report states the sample's sex (one row per sample)", f"do_sex/wrong-sex/{fk}", expected="Female" if is_female else "Male", observed=said, sub=sub)
        # ---- shift_xx: sex inferred, and sex given
        for how, arg in (("inferred", None), ("given", is_female)):
            s = ctx.call(cna.shift_xx, male_ref, arg, genome)
            if isinstance(s, Exc):
                ctx.violation("shift_xx returns the adjusted sample", f"shift_xx/raises/{s.key}/{how}/{fk}", expected="chrX at the autosomal level", observed=s, sub=sub)
                continue
            ctx.trace()
            sv = [float(v) for v in s.data["log2"].values]
            if len(sv) != len(rows):
                ctx.violation("shift_xx keeps every bin", f"shift_xx/bins-lost/{how}", expected=len(rows), observed=len(sv), sub=sub)
                continue
            mx = S.median([v for v, c in zip(sv, cls) if c == "x"])
            ma = S.median([v for v, c in zip(sv, cls) if c == "auto"])
            if not abs(mx - ma) <= margin:
                ctx.violation(
                    "after shift_xx chrX sits at the autosomal level (|median X - median autosomes| <= 3 sd / sqrt(n_X))",
                    f"shift_xx/x-not-at-autosomal-level/sex-{how}/{fk}",
                    expected={"median_autosomes": ma, "margin": margin},
                    observed={"median_x": mx},
                    sub=sub,
                )
        # ---- expect_flat_log2
        f = ctx.call(cna.expect_flat_log2, male_ref, genome)
        if isinstance(f, Exc):
            ctx.violation("expect_flat_log2 returns one value per bin", f"expect_flat_log2/raises/{f.key}/{fk}", expected="0 / -1 per bin", observed=f, sub=sub)
        else:
            ctx.trace()
            want = C.expected_flat(rows, male_ref)
            fv = [float(v) for v in f]
            bad = sorted({c for c, a, b in zip(cls, fv, want) if c != "par" and a != b}) if len(fv) == len(want) else ["length"]
            if bad:
                ctx.violation(
                    "expect_flat_log2 is 0 on autosomes, -1 on Y, and -1 on X only for a male reference",
                    f"expect_flat_log2/{'male' if male_ref else 'female'}-reference/wrong-on:" + "+".join(bad),
                    expected={c: want[cls.index(c)] for c in bad if c in cls},
                    observed={c: fv[cls.index(c)] for c in bad if c in cls and len(fv) == len(want)},
                    sub=sub,
                )
    ctx.sample("sex", {k: v for k, v in case.items() if k != "perms"})


# =============================================================================================
# sex inference along a history of questions and changes on one sample object (explicit sequences, no dedup)
# =============================================================================================
HIST_CHANGES = ("keep", "copy", "subset", "relevel", "copy+relevel")
HIST_QUESTIONS = ("guess_xx", "do_sex", "compare_sex_chromosomes", "shift_xx(sex inferred)")
HIST_STEPS = [(c, q) for c in HIST_CHANGES for q in HIST_QUESTIONS]


def run_sex_history(case, ctx):
    """The sample object is asked for its sex, changed (copied, masked, or its log2 column replaced by the profile of
    the other sex on the same bins, in place or on a copy) and asked again; every answer must be the sex whose
    expected X / Y levels the bins hold *now*."""
    male_ref, style = case["male_ref"], case["style"]
    xlab, ylab = C.sex_labels(style)
    other = {"female": "male", "male": "female"}
    profiles = {}
    for sx in ("female", "male"):
        rows, _noise, cna = build_sex_sample(dict(case, sex=sx), [0, 0])
        profiles[sx] = (rows, np.asarray([float(r[3]) for r in rows]))
    rows0 = profiles[case["sex"]][0]
    cls = np.asarray(["auto" if C.is_autosome_name(r[0]) else ("x" if r[0] == xlab else "y") for r in rows0])
    margin = 3.0 * case["sd"] / math.sqrt(case["n_x"]) + TOL
    words = itertools.chain.from_iterable(itertools.product(range(len(HIST_STEPS)), repeat=d) for d in range(1, case["depth"] + 1))
    for word in words:
        if "first" in case and word[0] != case["first"]:
            continue
        cur = build_cna(rows0)
        idx = np.arange(len(rows0))  # positions of the current rows in the full table
        sex = case["sex"]
        told = []
        for pos, si in enumerate(word):
            change, question = HIST_STEPS[si]
            if change == "copy":
                cur = cur.copy()
            elif change == "subset":
                keep = np.ones(len(idx), dtype=bool)
                keep[np.flatnonzero(cls[idx] == "auto")[::7]] = False
                cur = cur[keep]
                idx = idx[keep]
            elif change in ("relevel", "copy+relevel"):
                if change == "copy+relevel":
                    cur = cur.copy()
                sex = other[sex]
                cur["log2"] = profiles[sex][1][idx]
            is_female = sex == "female"
            told.append(f"{change}:{question}")
            sub = {"history": list(told)}
            fk = f"after:{'+'.join(sorted({HIST_STEPS[w][0] for w in word[: pos + 1]} - {'keep'})) or 'nothing'}/asked-before:{'yes' if pos else 'no'}"
            if question == "guess_xx":
                g = ctx.call(cur.guess_xx, male_ref)
                ok = (not isinstance(g, Exc)) and g is not None and bool(g) == is_female
                obs = g if isinstance(g, Exc) or g is None else bool(g)
            elif question == "do_sex":
                t = ctx.call(commands.do_sex, [cur], male_ref, None)
                obs = t if isinstance(t, Exc) else ([str(v) for v in t["sex"]] if "sex" in t else None)
                ok = obs == ["Female" if is_female else "Male"]
            elif question == "compare_sex_chromosomes":
                r = ctx.call(cur.compare_sex_chromosomes, male_ref)
                obs = r if isinstance(r, Exc) else (None if r[0] is None else bool(r[0]))
                ok = (not isinstance(r, Exc)) and r[0] is not None and bool(r[0]) == (not is_female)
            else:
                sh = ctx.call(cur.shift_xx, male_ref)
                if isinstance(sh, Exc) or len(sh) != len(idx):
                    obs, ok = (sh if isinstance(sh, Exc) else len(sh)), False
                else:
                    sv = np.asarray(sh.data["log2"].values, dtype=float)
                    mx = S.median([float(v) for v in sv[cls[idx] == "x"]])
                    ma = S.median([float(v) for v in sv[cls[idx] == "auto"]])
                    obs, ok = {"median_x": mx, "median_autosomes": ma}, abs(mx - ma) <= margin
            ctx.trace()
            if not ok:
                ctx.violation(
                    "the sex inferred from an array is the sex whose expected chrX / chrY levels its bins hold now, whatever was asked or changed before",
                    f"sex-history/{question}/{fk}",
                    expected=sex,
                    observed=obs,
                    sub=sub,
                )
                break
        ctx.outcome((case["sex"], male_ref, word, sex))
        ctx.state(("sex-history", {k: v for k, v in case.items() if k not in ("depth", "first")}, word), nontrivial=any(HIST_STEPS[w][0].endswith("relevel") for w in word))
        ctx.stratum(f"sex-history: words of {len(word)} step(s)")
        if len(word) > 1 and any(HIST_STEPS[w][0].endswith("relevel") for w in word[1:]):
            ctx.stratum("sex-history: asked, then the bins changed sex, then asked again")
    ctx.sample("sex-history", {k: v for k, v in case.items()})


# =============================================================================================
# command line
# =============================================================================================
def _scratch():
    return tempfile.mkdtemp(prefix="c15_", dir="/tmp")


def run_cli_sex(case, ctx):
    from skgenome import tabio

    rows, noise, cna = build_sex_sample(case, case["perm"])
    is_female = case["sex"] == "female"
    fk = sex_key(case)
    tmp = _scratch()
    try:
        path, outp = os.path.join(tmp, "sample.cnr"), os.path.join(tmp, "sex.tsv")
        tabio.write(cna, path)
        argv = ["sex", path, "-o", outp] + (["-y"] if case["male_ref"] else [])
        res = ctx.call(lambda: (lambda a: a.func(a))(commands.parse_args(argv)))
        ctx.state(("cli-sex", case), nontrivial=True)
        ctx.stratum("cli: sex command")
        if isinstance(res, Exc):
            ctx.violation("`cnvkit.py sex` writes the report", f"cli-sex/raises/{res.key}/{fk}", expected=case["sex"], observed=res, sub={"argv": argv[2:]})
            return
        ctx.trace()
        with open(outp) as fh:
            lines = [ln.rstrip("\n").split("\t") for ln in fh if ln.strip()]
        ctx.outcome(lines)
        head, body = lines[0], lines[1:]
        said = [r[head.index("sex")] for r in body] if "sex" in head else None
        if said != ["Female" if is_female else "Male"]:
            ctx.violation("`cnvkit.py sex` reports the sample's sex", f"cli-sex/wrong-sex/{fk}", expected="Female" if is_female else "Male", observed=lines, sub={"argv": argv[2:]})
    finally:
        shutil.rmtree(tmp, ignore_errors=True)
    ctx.sample("cli-sex", {k: v for k, v in case.items()})


def run_cli_call(case, ctx):
    from skgenome import tabio

    rows = table_rows(case)
    style = case["style"]
    cna = build_cna(rows, depth=case.get("depth", False))
    tmp = _scratch()
    try:
        path = os.path.join(tmp, "sample.cnr")
        tabio.write(cna, path)
        # the values the command will read are the printed ones
        printed = pd.read_csv(path, sep="\t", dtype={"chromosome": str})
        rows_p = [(r[0], r[1], r[2], float(v), r[4]) for r, v in zip(rows, printed["log2"])]
        vals_in = [r[3] for r in rows_p]
        scale = max(abs(v) for v in vals_in)
        has_null = any(r[4] for r in rows)
        has_par = bool(case.get("xkinds"))
        for est in C.ESTIMATORS:
            for skip_low in (False, True) if has_null else (False,):
                for genome in ((None,) + GENOMES) if has_par else (None,):
                    outp = os.path.join(tmp, "out.cns")
                    argv = ["call", path, "--center", est, "-m", "none", "-o", outp]
                    argv += ["--drop-low-coverage"] if skip_low else []
                    argv += ["--diploid-parx-genome", genome] if genome else []
                    sub = {"argv": argv[2:6] + argv[8:], "rows": rows}
                    res = ctx.call(lambda: (lambda a: a.func(a))(commands.parse_args(argv)))
                    ctx.stratum("cli: call --center")
                    if isinstance(res, Exc):
                        sel = C.centering_selection(rows_p, genome=genome, skip_low=skip_low)
                        gi = [[vals_in[i] for i in idx] for _c, idx in sel["groups"]]
                        if est == "mode" and res.type == "LinAlgError" and res.where.endswith("descriptives.py:modal_location") and C.degenerate_inputs("mode", gi, True):
                            ctx.violation("call --center mode returns", f"cli-call-center/raises/{res.key}/mode/all-equal-input", expected="a centred table", observed=res, sub=sub)
                        else:
                            ctx.violation("`cnvkit.py call --center` writes the centred table", f"cli-call-center/raises/{res.key}/{est}", expected="a centred table", observed=res, sub=sub)
                        continue
                    ctx.trace()
                    got = pd.read_csv(outp, sep="\t", dtype={"chromosome": str})
                    os.unlink(outp)
                    if [(c, int(s), int(e)) for c, s, e in zip(got["chromosome"], got["start"], got["end"])] != [(r[0], r[1], r[2]) for r in rows]:
                        ctx.violation("call --center keeps every bin", "cli-call-center/every-bin-kept", expected=len(rows), observed=len(got), sub=sub)
                        continue
                    out = [float(v) for v in got["log2"]]
                    diffs = [o - i for o, i in zip(out, vals_in)]
                    ctx.outcome([round(d, 4) for d in diffs])
                    if max(diffs) - min(diffs) > 2 * TOL_FILE:
                        ctx.violation("call --center adds one constant to every bin", "cli-call-center/uniform-shift", expected="constant", observed=diffs, sub=sub)
                        continue
                    sel = C.centering_selection(rows_p, genome=genome, skip_low=skip_low)
                    if sel["status"] != "autosomes":
                        continue
                    # zero to file precision: shift the exact inputs by the observed constant
                    shift = S.median(diffs)
                    groups = [[vals_in[i] + shift for i in idx] for _c, idx in sel["groups"]]
                    cands = C.two_level_candidates(est, groups, True)
                    flags = [f for f, on in (("drop-low-coverage", skip_low), ("no-drop-low-coverage", has_null and not skip_low), ("par-genome", bool(genome))) if on]
                    if not zeroed(ctx, est, groups, True, 2 * TOL_FILE, 1.0):
                        ctx.violation(
                            f"after call --center {est} the {est} of the autosomal bins is zero",
                            f"cli-call-center/estimator-zero/{est}/" + ("+".join(flags) if flags else "plain"),
                            expected=0.0,
                            observed={"estimate_of_output": cands, "shift": shift},
                            sub=sub,
                        )
        ctx.state(("cli-call", case), nontrivial=True)
    finally:
        shutil.rmtree(tmp, ignore_errors=True)
    ctx.sample("cli-call-center", {"rows": rows})


MANIFEST = {
    "text": "Bounded-exhaustive exploration of the real CopyNumArray.center_all, guess_xx / compare_sex_chromosomes, shift_xx, "
    "expect_flat_log2 and commands.do_sex. Centring: every bin table of a stated family (every subset of {1,2,3,X,Y} in both naming "
    "styles, bins per chromosome, every assignment of per-chromosome levels, null-coverage bins at every position set, every multiset "
    "of PAR / non-PAR X bin kinds for both genome builds, extra contigs, tables without autosome-like names, non-default row index, "
    "24 chromosomes) under every estimator x by_chrom x skip_low x PAR genome; the result must differ from the input by one constant "
    "and an independent two-level estimator of the autosomal (+PAR-X, -null) output bins must be zero. Sex: every synthetic sample of "
    "the grid sex x reference sex x bins on X / Y / autosomes x noise sd x weights x naming x noise arrangement; the inferred sex, the "
    "report, the X adjustment and the flat expectation are compared with the constructed truth; and every short history of questions "
    "and changes (copy, mask, log2 column replaced by the other sex's profile, in place or on a copy) on one object lineage must "
    "answer for the bins as they are now. The file-based `sex` and "
    "`call --center` commands are run on a few written tables for the option wiring. Exhaustive inside the bound, nothing sampled.",
    "note": "The noise is not random: normal quantiles arranged by affine permutations; the sex half is claimed over that alphabet "
    "only. Trusted: numpy, scipy gaussian_kde / median_test, NormalDist.inv_cdf; the reference model (models/centering.py, "
    "cross-examined in selftest/centering.py). Open: tie choice of the kernel-density mode, biweight stopping at exactly 1e-3, tables "
    "whose autosome bins are all null, bins straddling a PAR boundary, PAR-X bins in shift_xx / expect_flat_log2.",
    "technique": "exhaustive enumeration of bin tables x configurations and of synthetic samples over a deterministic noise alphabet on the real code, independent estimator model as oracle; stateless enumeration of all question/change histories up to depth 2 (thorough 3) on one object lineage",
}

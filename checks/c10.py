"""C10 - results depend only on arguments (not workers, RNG, history); inputs untouched; writers do not overwrite.

E2: explicit-state search over call histories on one shared *world* of argument objects.  Every execution
runs in a child forked from a pristine parent (so module-level state is pristine at the start of every
history); after every operation the world fingerprint must be unchanged and the result must equal the
operation's baseline (its result as the first call in a pristine world).  A changed world/module state is a
new state from which the search continues.
E3: segment none/haar under the virtual executor, every schedule; real pools of 2/3/16 workers.
E2': file-system states of ensure_path + write.
"""
import itertools
import math
import os
import pickle
import random
import shutil
import struct
import tempfile
import traceback

from checks.common import GA, np, pd
from mc import canon as C
from mc import vpool
from mc.engine import Exc, digest, innermost_repo_frame
from mc.repo import repo_root

import cnvlib  # noqa: E402
from cnvlib import antitarget, bintest, call, core, export, fix, metrics, reports, segmentation, segmetrics, target  # noqa: E402
from cnvlib.cnary import CopyNumArray as CNA  # noqa: E402
from cnvlib.segmentation import hmm as _hmm  # noqa: F401,E402  (pre-import so children do not pay for it)
from skgenome import tabio  # noqa: E402

try:
    import pomegranate  # noqa: F401,E402
except Exception:  # noqa: BLE001
    pass

ID = "C10"
BUDGET = {"quick": 1200, "thorough": 7200}
CASE_TIMEOUT = 3600


# ---------------------------------------------------------------------------------------------
# the world
def _noise(i, k=0):
    """Deterministic, RNG-free wiggle in [-1, 1]."""
    return math.sin(12.9898 * (i + 1) + 78.233 * (k + 1)) * 0.5 + math.sin(4.1 * i + k) * 0.5


def build_world(tmpdir, small=False):
    W = {}
    chroms = [("chr1", 36), ("chr2", 24), ("chr3", 16)] if small else [("chr1", 60), ("chr2", 40), ("chr3", 30), ("chrX", 24)]
    rows = []
    for ci, (chrom, n) in enumerate(chroms):
        for i in range(n):
            start = 200000 + i * 4000
            is_anti = i % 4 == 3
            end = start + (3000 if is_anti else 1200 + 100 * (i % 3))
            gene = "Antitarget" if is_anti else ("-" if i % 11 == 5 else f"G{ci}_{i // 8}")
            if chrom == "chr1":
                level = 0.0 if i < n // 2 else -1.0
            elif chrom == "chr2":
                level = 0.585
            elif chrom == "chrX":
                level = -1.0
            else:
                level = 0.0 if i < 10 else 0.02
            log2 = level + 0.06 * _noise(i, ci)
            depth = round(100 * 2**log2, 4)
            weight = round(0.55 + 0.4 * abs(_noise(i, ci + 7)), 4)
            if (ci, i) in ((0, 0), (1, 7), (1, 0)):
                log2, depth = -25.0, 0.0  # null coverage bins (at the genome's first bin, inside chr2, and at chr2's first bin)
            if (ci, i) in ((2, 3), (1, 0)):
                weight = 0.0  # zero-weight bins: one inside chr3, one at chr2's first bin (dropped by every method's default filter)
            rows.append((chrom, start, end, gene, round(log2, 6), depth, weight))
    cols = ["chromosome", "start", "end", "gene", "log2", "depth", "weight"]
    W["cnr"] = CNA.from_rows(rows, cols, {"sample_id": "S1"})
    # the same bins with nothing for a filter to drop (no null coverage, no zero weight): with every filter off the
    # code paths that normally re-slice (and thereby copy) their argument work on whatever object they were given
    clean = [r[:4] + ((0.0, 100.0) if r[4] <= -20 else (r[4], r[5])) + (r[6] or 0.7,) for r in rows]
    W["cnr_clean"] = CNA.from_rows(clean, cols, {"sample_id": "S1"})
    # segments with the columns filters and exports need
    segs = []
    for ci, (chrom, n) in enumerate(chroms):
        crow = [r for r in rows if r[0] == chrom]
        cuts = [0, n // 2, n] if chrom in ("chr1", "chr3") else [0, n]
        for a, b in zip(cuts[:-1], cuts[1:]):
            part = crow[a:b]
            good = [r for r in part if r[4] > -20]
            m = sum(r[4] * r[6] for r in good) / sum(r[6] for r in good)
            segs.append(
                (chrom, part[0][1], part[-1][2], ",".join(dict.fromkeys(r[3] for r in part if r[3] not in ("-", "Antitarget"))) or "-",
                 round(m, 6), len(good), round(sum(r[6] for r in part), 4), round(m - 0.05, 6), round(m + 0.05, 6), 0.01 + 0.005 * ci,
                 [0.5, 0.33, float("nan"), 0.5, 0.4, 0.5][len(segs) % 6])
            )
    scols = ["chromosome", "start", "end", "gene", "log2", "probes", "weight", "ci_lo", "ci_hi", "sem", "baf"]
    W["cns"] = CNA.from_rows(segs, scols, {"sample_id": "S1"})
    W["cns_called"] = call.do_call(W["cns"].copy(), None, "threshold")
    # coverage + reference for fix (ties in gc / rmask so the seeded tie-break shuffle matters)
    tgt = [r for r in rows if r[3] != "Antitarget"]
    anti = [r for r in rows if r[3] == "Antitarget"]
    ccols = ["chromosome", "start", "end", "gene", "log2", "depth"]
    W["target_cov"] = CNA.from_rows([(r[0], r[1], r[2], r[3], round(r[4] + 5.0, 6), r[5]) for r in tgt], ccols, {"sample_id": "S1"})
    W["antitarget_cov"] = CNA.from_rows([(r[0], r[1], r[2], r[3], round(r[4] + 2.0, 6), r[5]) for r in anti], ccols, {"sample_id": "S1"})
    ref = []
    for k, r in enumerate(rows):
        is_anti = r[3] == "Antitarget"
        base = 2.0 if is_anti else 5.0
        gc = [0.35, 0.4, 0.4, 0.5, 0.55, 0.55, 0.6][k % 7]
        rmask = [0.0, 0.1, 0.1, 0.3, 0.0][k % 5]
        ref.append((r[0], r[1], r[2], r[3], round(base + 0.03 * _noise(k, 3), 6), round(2**base, 4), gc, rmask, round(0.1 + 0.05 * abs(_noise(k, 5)), 6)))
    W["reference"] = CNA.from_rows(ref, ["chromosome", "start", "end", "gene", "log2", "depth", "gc", "rmask", "spread"], {"sample_id": "ref"})
    W["baits"] = GA.from_rows([(r[0], r[1], r[2], r[3] + "|NM_%d,alt" % k) for k, r in enumerate(tgt)], ["chromosome", "start", "end", "gene"])
    W["targets"] = GA.from_rows([(r[0], r[1], r[2], r[3]) for r in tgt], ["chromosome", "start", "end", "gene"])
    W["access"] = GA.from_rows([(c, 0, 200000 + n * 4000 + 50000) for c, n in chroms], ["chromosome", "start", "end"])
    W["ga1"] = GA.from_rows(
        [("chr1", 0, 100, "a"), ("chr1", 50, 150, "b"), ("chr1", 60, 80, "c"), ("chr1", 150, 200, "d"), ("chr2", 10, 20, "e")],
        ["chromosome", "start", "end", "gene"],
    )
    W["ga2"] = GA.from_rows([("chr1", 40, 70), ("chr1", 65, 66), ("chr1", 190, 300), ("chr3", 0, 5)], ["chromosome", "start", "end"])
    # arrays built in memory without any metadata, one per naming style (chrX / X)
    W["cnr_nometa"] = CNA.from_rows(rows, cols)
    W["cnr_plain_nometa"] = CNA.from_rows([(r[0][3:],) + tuple(r[1:]) for r in rows], cols)
    # the targets in another row order (as a BED file may list them), and not renumbered
    W["targets_unsorted"] = GA(W["targets"].data.iloc[::-1])
    # overlapping regions on opposite strands (merge / flatten combine the strand column; writers add what a format needs)
    W["ga_s"] = GA.from_rows(
        [("chr1", 0, 100, "a", "+"), ("chr1", 50, 150, "b", "-"), ("chr1", 200, 300, "c", "+"), ("chr1", 250, 260, "d", "+"), ("chr2", 5, 9, "e", "-")],
        ["chromosome", "start", "end", "gene", "strand"],
    )
    W["filters_ci_cn"] = ["ci", "cn"]
    W["filters_sem_ampdel"] = ["sem", "ampdel"]
    W["ignore"] = ["-", ".", "CGH"]
    W["thresholds"] = [-1.1, -0.25, 0.2, 0.7]
    W["chrom_sizes"] = {"chr1": 500, "chr2": 500, "chr3": 500}
    W["chrom_ids"] = {"chr1": 1, "chr2": 2, "chr3": 3}  # a caller's chromosome numbering that does not know chrX
    W["stats_loc"] = ["mean", "median"]
    W["stats_spread"] = ["stdev", "mad", "iqr"]
    W["stats_interval"] = ["ci", "pi"]
    # files for the exporters that read from disk
    W["cns_file"] = os.path.join(tmpdir, "S1.cns")
    tabio.write(W["cns_called"], W["cns_file"])
    return W


def world_fp(W):
    out = {k: C.canon(v) for k, v in W.items() if k != "cns_file"}
    with open(W["cns_file"]) as f:
        out["cns_file:content"] = f.read()
    out["tmpdir:listing"] = sorted(os.listdir(os.path.dirname(W["cns_file"])))
    return out


# ---------------------------------------------------------------------------------------------
# the operation alphabet
def _seg(method, procs=1, **kw):
    return lambda W: segmentation.do_segmentation(W["cnr"], method, processes=procs, **kw)


def _written(W, key, fmt):
    """tabio.write of a shared table: the bytes written (the scratch file is removed again, the listing stays the same)."""
    path = os.path.join(os.path.dirname(W["cns_file"]), "written.out")
    try:
        tabio.write(W[key], path, fmt)
        with open(path) as f:
            return f.read()
    finally:
        if os.path.exists(path):
            os.unlink(path)


def _center(est, **kw):
    def op(W):
        c = W["cnr"].copy()
        c.center_all(est, **kw)
        return c

    return op


OPS = {
    "target": lambda W: target.do_target(W["baits"], do_short_names=True, do_split=True, avg_size=700),
    "target-plain": lambda W: target.do_target(W["baits"]),
    "antitarget": lambda W: antitarget.do_antitarget(W["targets"], W["access"], 6000, 1500),
    "antitarget-guess": lambda W: antitarget.do_antitarget(W["targets"], None, 6000, 1500),
    "fix-none": lambda W: fix.do_fix(W["target_cov"], W["antitarget_cov"], W["reference"], do_gc=False, do_edge=False, do_rmask=False),
    "fix-gc": lambda W: fix.do_fix(W["target_cov"], W["antitarget_cov"], W["reference"], do_gc=True, do_edge=False, do_rmask=False),
    "fix-edge": lambda W: fix.do_fix(W["target_cov"], W["antitarget_cov"], W["reference"], do_gc=False, do_edge=True, do_rmask=False),
    "fix-rmask": lambda W: fix.do_fix(W["target_cov"], W["antitarget_cov"], W["reference"], do_gc=False, do_edge=False, do_rmask=True),
    "fix-all": lambda W: fix.do_fix(W["target_cov"], W["antitarget_cov"], W["reference"]),
    "segment-none": _seg("none"),
    "segment-haar": _seg("haar"),
    "segment-hmm": _seg("hmm"),
    "segment-hmm-tumor": _seg("hmm-tumor"),
    "segment-hmm-germline": _seg("hmm-germline"),
    "segment-none-skiplow": _seg("none", skip_low=True, min_weight=0.6),
    "segment-haar-skiplow": _seg("haar", skip_low=True, skip_outliers=0),
    **{
        f"segment-{m}-nofilter": (lambda m: lambda W: segmentation.do_segmentation(W["cnr_clean"], m, skip_low=False, skip_outliers=0, min_weight=0))(m)
        for m in ("none", "haar", "hmm", "hmm-tumor", "hmm-germline")
    },
    "segment-none-p2": _seg("none", 2),
    "segment-none-p3": _seg("none", 3),
    "segment-none-p16": _seg("none", 16),
    "segment-haar-p2": _seg("haar", 2),
    "segment-haar-p3": _seg("haar", 3),
    "segment-haar-p16": _seg("haar", 16),
    "segmetrics-ci": lambda W: segmetrics.do_segmetrics(W["cnr"], W["cns"], interval_stats=["ci"], bootstraps=50),
    "segmetrics-pi": lambda W: segmetrics.do_segmetrics(W["cnr"], W["cns"], interval_stats=["pi"], alpha=0.2),
    "segmetrics-all": lambda W: segmetrics.do_segmetrics(
        W["cnr"], W["cns"], location_stats=W["stats_loc"], spread_stats=W["stats_spread"], interval_stats=W["stats_interval"], bootstraps=40, smoothed=True
    ),
    "call-threshold": lambda W: call.do_call(W["cns"], None, "threshold", thresholds=W["thresholds"]),
    "call-clonal": lambda W: call.do_call(W["cns"], None, "clonal", ploidy=2, purity=0.7, is_sample_female=True),
    "call-none": lambda W: call.do_call(W["cns"], None, "none"),
    "call-filters-ci-cn": lambda W: call.do_call(W["cns"], None, "threshold", filters=W["filters_ci_cn"]),
    "call-filters-sem-ampdel": lambda W: call.do_call(W["cns"], None, "clonal", filters=W["filters_sem_ampdel"]),
    "genemetrics": lambda W: reports.do_genemetrics(W["cnr"], None, 0.2, 2),
    "genemetrics-seg": lambda W: reports.do_genemetrics(W["cnr"], W["cns"], 0.2, 2),
    # male sample (chrX at -1) on a male reference: the one sex / reference combination in which chrX needs no shift
    "genemetrics-seg-maleref": lambda W: reports.do_genemetrics(W["cnr"], W["cns"], 0.2, 2, False, True, False),
    "breaks": lambda W: reports.do_breaks(W["cnr"], W["cns"], 1),
    "bintest": lambda W: bintest.do_bintest(W["cnr"], W["cns"], alpha=0.5),
    "bintest-noseg": lambda W: bintest.do_bintest(W["cnr"], None, alpha=0.5, target_only=True),
    "metrics": lambda W: metrics.do_metrics(W["cnr"], W["cns"]),
    "metrics-skiplow": lambda W: metrics.do_metrics([W["cnr"]], [W["cns"]], skip_low=True),
    "export-bed": lambda W: export.export_bed(W["cns_called"], 2, False, None, True, "lbl", "ploidy"),
    "export-bed-variant": lambda W: export.export_bed(W["cns"], 2, True, None, False, None, "variant"),
    "export-vcf": lambda W: export.export_vcf(W["cns_called"], 2, False, None, True, "S1"),
    "export-vcf-cnarr": lambda W: export.export_vcf(W["cns_called"], 2, False, None, True, "S1", W["cnr"]),
    "export-seg": lambda W: export.export_seg([W["cns_file"]]),
    "export-seg-ids": lambda W: export.export_seg([W["cns_file"]], W["chrom_ids"]),
    "export-theta": lambda W: export.export_theta(W["cns"], W["cnr"]),
    "center-median": _center("median"),
    "center-mean-flat": _center("mean", by_chrom=False, skip_low=True),
    "center-biweight": _center("biweight"),
    "ga-merge": lambda W: W["ga1"].merge(),
    "ga-flatten": lambda W: W["ga1"].flatten(),
    "ga-subtract": lambda W: W["ga1"].subtract(W["ga2"]),
    "ga-intersection": lambda W: W["ga1"].intersection(W["ga2"], mode="trim"),
    "ga-subdivide": lambda W: W["ga1"].subdivide(30, 5),
    "ga-resize": lambda W: W["ga1"].resize_ranges(20, W["chrom_sizes"]),
    "ga-into-ranges": lambda W: W["ga1"].into_ranges(W["ga2"], "gene", "-"),
    "ga-merge-stranded": lambda W: W["ga_s"].merge(stranded=True),
    "ga-merge-s": lambda W: W["ga_s"].merge(),
    "ga-flatten-s": lambda W: W["ga_s"].flatten(),
    "write-interval": lambda W: _written(W, "ga_s", "interval"),
    "write-bed": lambda W: _written(W, "ga_s", "bed"),
    "write-text": lambda W: _written(W, "ga1", "text"),
    "write-tab": lambda W: _written(W, "cns", "tab"),
    "guess-xx-nometa": lambda W: W["cnr_nometa"].guess_xx(),
    "guess-xx-plain-nometa": lambda W: W["cnr_plain_nometa"].guess_xx(),
    "antitarget-guess-unsorted": lambda W: antitarget.do_antitarget(W["targets_unsorted"], None, 6000, 1500),
    "by-arm": lambda W: [(c, a) for c, a in W["cnr"].by_arm()],
    "by-gene": lambda W: [(g, a) for g, a in W["cnr"].by_gene(W["ignore"])],
    "squash-genes": lambda W: W["cnr"].squash_genes(ignore=W["ignore"]),
    "gene-intervals": lambda W: {k: v for k, v in reports.get_gene_intervals(W["cnr"], W["ignore"]).items()},
    "residuals": lambda W: W["cnr"].residuals(W["cns"]),
    "guess-xx": lambda W: W["cnr"].guess_xx(),
}
OP_NAMES = list(OPS)
# real pools of 3 and 16 workers are costly (16 forks of a large process): they run alone (x3 RNG states) and
# paired with the most stateful operations; every other operation is paired with every other
HEAVY = ["segment-none-p3", "segment-none-p16", "segment-haar-p3", "segment-haar-p16"]
CORE = [o for o in OP_NAMES if o not in HEAVY]
# operations most likely to carry state (shared lists, RNG, pools, caches): deeper histories in thorough
STATEFUL = [
    "call-filters-ci-cn", "call-filters-sem-ampdel", "by-gene", "squash-genes", "gene-intervals", "fix-all", "segmetrics-all",
    "segment-hmm", "segment-haar-p2", "segment-none-skiplow", "genemetrics-seg", "bintest", "export-vcf-cnarr", "center-median",
    "ga-flatten", "target", "ga-merge-stranded", "ga-merge-s", "write-interval", "genemetrics-seg-maleref", "guess-xx-nometa", "guess-xx-plain-nometa",
]
RNG_STATES = ("seed0", "seed12345", "seed0+17")


def set_rng(name):
    if name == "seed0":
        np.random.seed(0)
        random.seed(0)
    elif name == "seed12345":
        np.random.seed(12345)
        random.seed(12345)
    else:
        np.random.seed(0)
        random.seed(0)
        np.random.random(17)
        [random.random() for _ in range(17)]


# ---------------------------------------------------------------------------------------------
# running a history in a forked child of the pristine parent
def _run_steps(W, history, root, wprev, mprev, restore_files=False):
    steps = []
    files0 = None
    if restore_files:
        # a grandchild shares the temp dir with its siblings: put the files back afterwards
        d = os.path.dirname(W["cns_file"])
        files0 = {n: open(os.path.join(d, n)).read() for n in os.listdir(d)}
    for op, rng in history:
        set_rng(rng)
        try:
            res = ("ok", C.canon(OPS[op](W)))
        except Exception as e:  # noqa: BLE001
            res = ("exc", f"{type(e).__name__}@{innermost_repo_frame(e.__traceback__, root)}", str(e)[:200])
        w1 = world_fp(W)
        m1 = C.module_state()
        wchanged = {k: C.diff(wprev.get(k), w1.get(k))[:2] for k in sorted(set(wprev) | set(w1)) if wprev.get(k) != w1.get(k)}
        mchanged = {k: [mprev.get(k), m1.get(k)] for k in sorted(set(mprev) | set(m1)) if mprev.get(k) != m1.get(k)}
        steps.append({"result": res, "world_changed": wchanged, "module_changed": mchanged, "state": digest([w1, m1])})
        wprev, mprev = w1, m1
    if files0 is not None:
        d = os.path.dirname(W["cns_file"])
        for n in os.listdir(d):
            if n not in files0:
                os.unlink(os.path.join(d, n))
        for n, content in files0.items():
            with open(os.path.join(d, n), "w") as f:
                f.write(content)
    return steps


def _child_history(history, small, root):
    """history = [(op, rng), ...]; returns per step (result canon | exception key, world changed keys, module diff)."""
    tmpdir = tempfile.mkdtemp(prefix="c10-", dir="/dev/shm" if os.path.isdir("/dev/shm") else None)
    try:
        W = build_world(tmpdir, small)
        return _run_steps(W, history, root, world_fp(W), C.module_state())
    finally:
        shutil.rmtree(tmpdir, ignore_errors=True)


def forked(fn, *args):
    """Run fn(*args) in a forked child; return its (picklable) result."""
    r, w = os.pipe()
    pid = os.fork()
    if pid == 0:
        code = 0
        try:
            os.close(r)
            try:
                out = ("ok", fn(*args))
            except BaseException as e:  # noqa: BLE001
                out = ("err", f"{type(e).__name__}: {e}\n{traceback.format_exc()}")
            data = pickle.dumps(out)
            os.write(w, struct.pack("<Q", len(data)))
            view = memoryview(data)
            while view:
                n = os.write(w, view[: 1 << 16])
                view = view[n:]
        except BaseException:  # noqa: BLE001
            code = 1
        finally:
            os._exit(code)
    os.close(w)
    head = b""
    while len(head) < 8:
        chunk = os.read(r, 8 - len(head))
        if not chunk:
            break
        head += chunk
    buf = bytearray()
    if len(head) == 8:
        (size,) = struct.unpack("<Q", head)
        while len(buf) < size:
            chunk = os.read(r, min(1 << 20, size - len(buf)))
            if not chunk:
                break
            buf += chunk
    os.close(r)
    os.waitpid(pid, 0)
    if len(head) < 8:
        raise RuntimeError("forked child died without reporting")
    kind, val = pickle.loads(bytes(buf))
    if kind == "err":
        raise RuntimeError("harness error in child: " + val)
    return val


def _child_fanout(prefix, seconds, small, root):
    """Run `prefix` once, then every (op, rng) of `seconds` in its own grandchild forked from the state the
    prefix left behind (copy-on-write): the histories prefix+[second] without re-running the prefix."""
    tmpdir = tempfile.mkdtemp(prefix="c10-", dir="/dev/shm" if os.path.isdir("/dev/shm") else None)
    try:
        W = build_world(tmpdir, small)
        pre = _run_steps(W, prefix, root, world_fp(W), C.module_state())
        wprev, mprev = world_fp(W), C.module_state()
        out = []
        for second in seconds:
            out.append(forked(_run_steps, W, [second], root, wprev, mprev, True))
        return pre, out
    finally:
        shutil.rmtree(tmpdir, ignore_errors=True)


_BASE = {}


def baseline(op, small=False):
    """Result of `op` as the first call in a pristine world and process (rng seed0)."""
    key = (op, small)
    if key not in _BASE:
        _BASE[key] = forked(_child_history, [(op, "seed0")], small, repo_root())[0]["result"]
    return _BASE[key]


def describe(tier):
    t = tier == "thorough"
    return {
        "rule": "E2: every history in the bound is replayed from a pristine forked process on a freshly built world; after every "
        "operation (i) the world fingerprint (all argument arrays, lists, dicts, files) must be unchanged, (ii) the result must equal "
        "the operation's baseline (first call in a pristine world, RNG seed 0), under each of three global RNG states; any state "
        "change is a new state that is expanded by every operation. E3: segment none/haar under a virtual executor for every "
        "schedule (produce/run-on-worker/deliver interleavings) and real pools of 2/3/16. FS: every subset of {out, out.1, out.2, "
        "out.3} pre-existing x 1..5 ensure_path+write rounds. state = digest(world fingerprint, module-level state); non-trivial = "
        "history of length >= 2 or a schedule with >= 1 non-default choice",
        "bound": {
            "ops": len(OP_NAMES),
            "rng_states": list(RNG_STATES),
            "histories": "all of length 1 x 3 RNG states; all ordered pairs (length 2) over the 55 core ops, the 4 costly real-pool ops (3/16 workers) paired with the 16 most stateful ops; "
            + ("all triples over the 16 most stateful ops; all 4-sequences over 8 of them" if t else "triples (op, op, op) and (a, b, a) over the 16 most stateful ops"),
            "schedules": "3 tasks (3-chromosome world), workers 1 and 2, all choice sequences" + ("; 4 tasks with 1 worker" if t else ""),
            "writers": "16 initial file-system states x 1..5 writes",
        },
        "alphabet": {"ops": OP_NAMES, "stateful": STATEFUL},
        "assumptions": [
            "fingerprints see values, index, columns and metadata (minus cached chr_x/chr_y labels, exempt by the statement); "
            "dtype-only differences are ignored; floats compared at 10 significant digits",
            "re-seeding the global RNG inside an operation is not counted as touching an argument",
            "virtual executor contract: lazy in-order submission, atomic tasks in persistent forked workers, in-order delivery",
        ],
    }


def cases(tier):
    t = tier == "thorough"
    for op in OP_NAMES:
        yield {"check": "single", "op": op}
    for op in OP_NAMES:
        yield {"check": "pairs", "first": op}
    if t:
        for a in STATEFUL:
            for b in STATEFUL:
                yield {"check": "triples", "prefix": [a, b], "over": STATEFUL}
        eight = STATEFUL[:8]
        for a in eight:
            for b in eight:
                yield {"check": "quads", "prefix": [a, b], "over": eight}
    else:
        for a in STATEFUL:
            yield {"check": "triples-lite", "a": a}
    for method in ("none", "haar"):
        for workers, parts in ((1, 2), (2, 8)):
            for j in range(parts):
                yield {"check": "schedules", "method": method, "workers": workers, "chroms": 3, "part": [j, parts]}
        if t:
            for j in range(16):
                yield {"check": "schedules", "method": method, "workers": 1, "chroms": 4, "part": [j, 16]}
    for method in ("none", "haar"):
        for k in (17, 21, 27, 40) if t else (17, 21, 27):
            yield {"check": "pools-many", "method": method, "chromosomes": k}
    for mask in range(16):
        yield {"check": "writers", "mask": mask}


def run(case, ctx):
    k = case["check"]
    if k == "single":
        for rng in RNG_STATES:
            run_history(ctx, [(case["op"], rng)])
    elif k == "pairs":
        a = case["first"]
        partners = STATEFUL if a in HEAVY else CORE + (HEAVY if a in STATEFUL else [])
        seconds = [(b, RNG_STATES[i % 3]) for i, b in enumerate(partners)]
        pre, outs = forked(_child_fanout, [(a, "seed0")], seconds, False, repo_root())
        for second, steps in zip(seconds, outs):
            check_steps(ctx, [(a, "seed0"), second], pre + steps)
    elif k == "triples-lite":
        a = case["a"]
        run_history(ctx, [(a, "seed12345"), (a, "seed0+17"), (a, "seed0")])
        for b in STATEFUL:
            if b != a:
                run_history(ctx, [(a, "seed0"), (b, "seed12345"), (a, "seed0+17")])
    elif k in ("triples", "quads"):
        n_more = 1 if k == "triples" else 2
        for tail in itertools.product(case["over"], repeat=n_more):
            seq = list(case["prefix"]) + list(tail)
            run_history(ctx, [(op, RNG_STATES[i % 3]) for i, op in enumerate(seq)])
    elif k == "schedules":
        run_schedules(case, ctx)
    elif k == "pools-many":
        run_pools_many(case, ctx)
    elif k == "writers":
        run_writers(case, ctx)
    else:
        raise ValueError(k)


def run_history(ctx, history, small=False, expand=True):
    steps = forked(_child_history, history, small, repo_root())
    check_steps(ctx, history, steps, small, expand)


def check_steps(ctx, history, steps, small=False, expand=True):
    ctx.transition(len(history))
    names = [h[0] for h in history]
    for i, ((op, rng), st) in enumerate(zip(history, steps)):
        sub = {"history": history[: i + 1]}
        ctx.state(st["state"], nontrivial=len(history) > 1)
        base = baseline(op, small)
        ctx.trace()
        res = st["result"]
        pos = "first-call" if i == 0 else "after-history"
        if res[0] == "exc" and base[0] == "ok":
            ctx.violation(
                "the operation returns the same table whatever ran before and whatever the RNG state",
                f"history/{op}/raises/{res[1]}/{pos}",
                expected="baseline result",
                observed=res,
                sub=sub,
            )
        elif res != base:
            why = "rng" if i == 0 else "history"
            ctx.violation(
                "the operation returns the same table when repeated, after other steps, and under any RNG state",
                f"{why}/{op}/result-differs/{pos}" + ("" if i == 0 else f"/after-{names[i - 1]}"),
                expected="baseline (first call in a pristine world, seed 0)",
                observed=C.diff(base[1], res[1]) if base[0] == res[0] == "ok" else [base, res],
                sub=sub,
            )
        ctx.outcome(digest(res))
        if st["world_changed"]:
            for obj in st["world_changed"]:
                ctx.violation(
                    "the operation leaves the arrays, lists and dicts passed to it unchanged",
                    f"mutates-argument/{op}/{obj}",
                    expected="unchanged",
                    observed=st["world_changed"][obj],
                    sub=sub,
                )
        if st["module_changed"]:
            ctx.stratum("module-state-changed")
            ctx.sample("module-state-changed", {"op": op, "changed": {k: v for k, v in list(st["module_changed"].items())[:3]}})
        if (st["world_changed"] or st["module_changed"]) and expand and i == len(history) - 1 and len(history) == 1:
            # a new state: expand it by every operation (BFS depth 2 from the changed state)
            ctx.stratum("new-state-expanded")
            for b in CORE:
                run_history(ctx, history + [(b, "seed0")], small, expand=False)
    ctx.stratum(f"history-length-{len(history)}")
    ctx.sample(f"history-{len(history)}", {"history": history})


# ---------------------------------------------------------------------------------------------
def _child_segment_schedule(method, prefix, workers, chroms, real_procs=None):
    tmpdir = tempfile.mkdtemp(prefix="c10s-", dir="/dev/shm" if os.path.isdir("/dev/shm") else None)
    try:
        W = build_world(tmpdir, small=(chroms == 3))
        if real_procs:
            res = segmentation.do_segmentation(W["cnr"], method, processes=real_procs)
            return {"result": C.canon(res)}
        s = vpool.Scheduler(prefix)
        log = []
        with vpool.patched_pool(s, workers=workers, log=log):
            try:
                res = ("ok", C.canon(segmentation.do_segmentation(W["cnr"], method, processes=4)))
            except vpool.ScheduleDivergence:
                raise
            except Exception as e:  # noqa: BLE001
                res = ("exc", f"{type(e).__name__}@{innermost_repo_frame(e.__traceback__, repo_root())}", str(e)[:200])
        return {"result": res, "trace": s.trace, "pools": s.pools, "log": log}
    finally:
        shutil.rmtree(tmpdir, ignore_errors=True)


def run_schedules(case, ctx):
    method, workers, chroms = case["method"], case["workers"], case["chroms"]
    small = chroms == 3
    serial = forked(_child_history, [(f"segment-{method}", "seed0")], small, repo_root())[0]["result"]
    ctx.transition()
    n = 0
    labels = []

    def once(prefix):
        rep = forked(_child_segment_schedule, method, prefix, workers, chroms)
        return rep["trace"], rep

    for trace, rep in vpool.explore_part(once, tuple(case["part"]), 5):
        n += 1
        ctx.transition()
        ctx.trace()
        labels = [t[2] for t in trace]
        ctx.state(("schedule", method, workers, chroms, tuple(t[1] for t in trace)), nontrivial=any(t[1] for t in trace))
        ctx.outcome(digest(rep["result"]))
        if rep["pools"] == 0:
            ctx.stratum("virtual-pool-bypassed")
        if rep["result"] != serial:
            ctx.violation(
                "the table is the same for every worker schedule as for the serial run",
                f"schedule/segment-{method}/differs-from-serial",
                expected="serial result",
                observed=C.diff(serial[1], rep["result"][1]) if serial[0] == rep["result"][0] == "ok" else [serial[0], rep["result"]],
                sub={"schedule": labels, "choices": [t[1] for t in trace]},
            )
    ctx.stratum(f"schedules-{method}-w{workers}-k{chroms}", n)
    for procs in (2, 3, 16) if case["part"][0] == 0 else ():
        rep = forked(_child_segment_schedule, method, [], workers, chroms, procs)
        ctx.transition()
        ctx.trace()
        if ("ok", rep["result"]) != serial:
            ctx.violation(
                "the table is the same with N real worker processes as with one",
                f"real-pool/segment-{method}/p{procs}/differs-from-serial",
                observed=C.diff(serial[1], rep["result"]) if serial[0] == "ok" else serial,
                sub={"processes": procs},
            )
    ctx.sample("schedules", {"method": method, "workers": workers, "tasks": chroms, "schedules": n, "last": labels})


# ---------------------------------------------------------------------------------------------
def _child_many(method, k, procs):
    """A bins table of k short chromosomes (k arm tasks) segmented with `procs` processes (a real pool for procs > 1)."""
    names = ["chr%d" % (i + 1) for i in range(22)] + ["chrX", "chrY"] + ["chrUn_%d" % i for i in range(1, 40)]
    rows = []
    for ci, chrom in enumerate(names[:k]):
        for i in range(3 + ci % 2):
            log2 = round((0.4 if ci % 3 == 0 else -0.2) + 0.05 * _noise(i, ci), 6)
            rows.append((chrom, 10000 + 5000 * i, 11000 + 5000 * i, "g%d_%d" % (ci, i // 2), log2, round(100 * 2**log2, 4), round(0.6 + 0.3 * abs(_noise(i, ci + 3)), 4)))
    cna = CNA.from_rows(rows, ["chromosome", "start", "end", "gene", "log2", "depth", "weight"], {"sample_id": "S1"})
    return {"result": C.canon(segmentation.do_segmentation(cna, method, processes=procs))}


def run_pools_many(case, ctx):
    method, k = case["method"], case["chromosomes"]
    serial = forked(_child_many, method, k, 1)["result"]
    ctx.transition()
    for procs in (2, 3, 4, 5, 16):
        rep = forked(_child_many, method, k, procs)
        ctx.transition()
        ctx.trace()
        ctx.state(("pools-many", method, k, procs), nontrivial=True)
        ctx.outcome(digest(rep["result"]))
        if rep["result"] != serial:
            ctx.violation(
                "the table is the same with N real worker processes as with one",
                f"real-pool/segment-{method}/many-arm-tasks/differs-from-serial",
                observed=C.diff(serial, rep["result"]),
                sub={"processes": procs, "chromosomes": k},
            )
    ctx.stratum("pools-many-chromosomes-%d" % k)
    ctx.sample("pools-many", dict(case))


# ---------------------------------------------------------------------------------------------
def run_writers(case, ctx):
    """Explicit-state search over file-system states of {out, out.1, out.2, out.3}."""
    mask = case["mask"]
    names = ["out.cns", "out.cns.1", "out.cns.2", "out.cns.3"]
    tmpdir = tempfile.mkdtemp(prefix="c10w-", dir="/dev/shm" if os.path.isdir("/dev/shm") else None)
    try:
        existing = {}
        for i, nm in enumerate(names):
            if mask >> i & 1:
                content = f"pre-existing content {i}\n"
                with open(os.path.join(tmpdir, nm), "w") as f:
                    f.write(content)
                existing[nm] = content
        out = os.path.join(tmpdir, "out.cns")
        contents = sorted(existing.values())
        arr = GA.from_rows([("chr1", 0, 10, "g")], ["chromosome", "start", "end", "gene"])
        for k in range(1, 6):
            new_rows = GA.from_rows([("chr1", k, 10 + k, f"write{k}")], ["chromosome", "start", "end", "gene"])
            r = ctx.call(core.ensure_path, out)
            r2 = ctx.call(tabio.write, new_rows, out)
            sub = {"writes": k}
            if isinstance(r, Exc) or isinstance(r2, Exc):
                ctx.violation("ensure_path + write succeed", f"writers/raises/{(r if isinstance(r, Exc) else r2).key}", observed=r if isinstance(r, Exc) else r2, sub=sub)
                break
            ctx.trace()
            with open(out) as f:
                newest = f.read()
            now = {}
            for nm in sorted(os.listdir(tmpdir)):
                with open(os.path.join(tmpdir, nm)) as f:
                    now[nm] = f.read()
            ctx.state(("fs", mask, k), nontrivial=bool(existing))
            ctx.outcome(digest(sorted(now)))
            want = sorted(contents + [newest])
            if f"write{k}" not in newest:
                ctx.violation("the newest content is at the requested path", "writers/newest-not-at-path", observed=newest, sub=sub)
            had_out = "out.cns" in existing or k > 1
            if sorted(now.values()) != want:
                ctx.violation(
                    "a pre-existing file is kept intact under a numbered suffix (no content is ever lost)",
                    "writers/content-lost" if len(now) <= len(contents) else "writers/content-changed",
                    expected=want,
                    observed=sorted(now.values()),
                    sub=sub,
                )
            if len(now) != len(contents) + 1:
                ctx.violation("k writes to one path leave k more files", "writers/file-count", expected=len(contents) + 1, observed=sorted(now), sub=sub)
            contents = sorted(now.values())
            ctx.stratum("writers-renamed" if had_out else "writers-fresh-path")
        ctx.sample("writers", {"mask": mask, "final_files": sorted(os.listdir(tmpdir))})
    finally:
        shutil.rmtree(tmpdir, ignore_errors=True)


MANIFEST = {
    "text": "Explicit-state search over call histories on one shared world of argument objects (73 operations covering the "
    "pipeline steps and array methods the property names): every history of length 1 (x3 global RNG states) and 2, plus "
    "3- and 4-step histories over the most stateful operations, each replayed from a pristine forked process; after every "
    "step the fingerprint of all arguments and files must be unchanged and the result must equal the operation's first-call "
    "baseline; a changed world or module state is expanded as a new state. Worker schedules of the pooled segmentation "
    "methods are enumerated exhaustively with a virtual ProcessPoolExecutor (choice-sequence DFS over produce / run-on-worker / "
    "deliver), cross-checked with real pools of 2, 3 and 16. Writer behaviour is searched over all 16 initial file-system "
    "states x 1..5 writes.",
    "note": "Trusted: the fingerprint sees all state that matters (values, index, columns, metadata, files, function "
    "defaults and plain module globals); state outside it (C-level caches) is hedged only by the no-dedup histories. "
    "Virtual executor contract as documented in mc/vpool.py. cbs/flasso (need R) are outside.",
    "technique": "explicit-state search over operation histories with canonical state hashing (forked pristine process per history) + "
    "stateless schedule enumeration (DFS over a virtual ProcessPoolExecutor) + BFS over file-system states",
}

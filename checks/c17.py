"""C17 - segment statistics (cnvlib.segmetrics) and the per-bin z-test (cnvlib.bintest) match their definitions
on the right bins; Benjamini-Hochberg is exact.

E1: every p-vector over a small alphabet through p_adjust_bh; every log2 word through every statistic of
do_segmetrics (each segment log2 mode x weight pattern); every layout of <= 3 segments of 0..5 bins on <= 2
chromosomes x bin geometry (abutting, gaps, a bin straddling a boundary, a nested bin) x one null-coverage bin
at every position x skip_low x row index; every subset of the spread statistics; alpha x bootstraps x smoothed;
long segments (40, 300 bins); do_bintest over the same tables x gene patterns x target_only x alpha (fixed
values and every adjusted p-value the implementation itself reported).  Oracle: models/segstats.py +
models/stats.py (textbook formulas on plain lists), bins of a segment by interval overlap.
"""
import itertools
import math

from checks.common import np, pd
from mc.engine import Exc
from models import segstats as SM
from models import stats as M

from cnvlib import bintest as BT  # noqa: E402  (bound by checks.common)
from cnvlib import descriptives as D  # noqa: E402
from cnvlib import segmetrics as SG  # noqa: E402
from cnvlib.cnary import CopyNumArray as CNA  # noqa: E402
from scipy import stats as sps  # noqa: E402  (Student t tail only: trusted third-party numerics, DESIGN 4.5)

ID = "C17"
BUDGET = {"quick": 1800, "thorough": 7200}  # per-shard caps; generous because the machine is shared (quick needs ~75 s, thorough ~15 min of CPU per shard at 16 shards)
CASE_TIMEOUT = 900

TOL = 1e-9  # arithmetic identities
TOL_ITER = 1e-6  # biweight (iterative centre)
TOL_BH = 1e-12  # Benjamini-Hochberg "exactly": one multiplication and one division per term

LOG2 = [0.0, 0.25, 1.0, -1.0]  # dyadic (sums are exact, so "constant" and "tie" are exact notions); ties via repeats
NULL_LOG2 = -20.0  # a bin without reads, as written by the coverage / fix steps
CHROMS = ["chr1", "chr2"]
LOC = ["mean", "median", "p_ttest"]
SPREAD = ["stdev", "mad", "mse", "iqr", "bivar", "sem"]
INTERVAL = ["ci", "pi"]
SIZES = {"quick": [0, 1, 2, 3, 5], "thorough": [0, 1, 2, 3, 5, 40, 300]}
GEOMS = ["abut", "gaps", "straddle", "nested"]
WEIGHTS = {"ones": [1.0], "cycle": [0.2, 0.5, 1.0], "half": [0.5], "cycle2": [0.5, 1.0, 0.2, 0.2]}
MODES = ["wmean", "zero", "shift"]  # segment log2: weighted mean of its bins | 0 | weighted mean + 0.375
ALPHAS = [0.05, 0.5, 0.9]
BOOTS = [100, 10]
BT_ALPHAS = [0.005, 0.05, 0.5]
BT_ALPHA_ALL = 0.999  # in (0,1), large enough to expose (almost) every adjusted p-value
GENES = ["targets", "mixed", "aliases", "all-antitarget"]
ANTITARGET_NAMES = ("Antitarget", "Background")
BH_VALUES = [0.0, 0.001, 0.01, 0.04, 0.5, 1.0]
BH_LONG = [50, 200]
LONG_N = {"quick": [40, 300], "thorough": [40, 100, 299, 300]}
DEFAULT_CFG = {"alpha": 0.05, "bootstraps": 100, "smoothed": False, "skip_low": False}
BASE_WORDS = [[0.0, 0.25, 1.0, -1.0, 0.25], [1.0, -1.0, 0.0, 0.25, 0.0], [-1.0, 0.25, 0.25, 0.0, 1.0]]


def bounds(tier):
    t = tier == "thorough"
    return {
        "bh_len": 6 if t else 5,
        "word_ordered_len": 6 if t else 4,  # formulas: every ordered word up to this length
        "word_multiset_len": 9 if t else 6,  # ... and every multiset (non-decreasing word) up to this length
        "interval_word_len": 7 if t else 5,  # intervals: every multiset up to this length
        "rotations": 4 if t else 1,  # selection / bintest: filler word rotations per layout
        "bintest_own_alpha_bins": 10 if t else 8,  # alpha = each reported adjusted p, for tables with at most this many tested bins
        "subset_tables": 6 if t else 3,
    }


def describe(tier):
    b = bounds(tier)
    return {
        "rule": "bh: every ordered p-vector over the p alphabet up to the length bound and structured long vectors through p_adjust_bh. "
        "formulas: a 3-segment table [1 filler bin | focus word | 2 filler bins]; every focus word x segment-log2 mode x weight pattern, "
        "all 11 statistics in one call. selection: every sequence of <= 3 segment sizes on <= 2 chromosomes (non-decreasing chromosome "
        "assignment) x geometry; without a null bin and with the null-coverage bin at every bin position x skip_low on/off, both row "
        "indexes for the plain call. subsets: every subset and every ordered pair of the spread statistics, each location / interval "
        "statistic alone, nothing requested. intervals: every focus multiset x weight pattern x alpha x bootstraps x smoothed, each run "
        "twice under different global RNG states and (bootstraps = 10) once more with other log2 values and weights in the neighbouring segments. long: deterministic long words x mode x weights x {default, smoothed, skip_low with a "
        "null bin}. bintest: every layout x 7 (geometry, weight pattern, segment-log2 mode) combinations with all bins on target, a "
        "null-coverage bin, 3 gene patterns x target_only on/off, a non-default row index; alpha in the fixed list, 0.999, and every "
        "adjusted p-value reported at 0.999. "
        "state = canonical table (+ configuration); non-trivial = some segment holds two different log2 values",
        "bound": {
            "bh": f"length 1..{b['bh_len']} over the alphabet (full product, ordered); lengths {BH_LONG}: all-equal (each value), "
            "arithmetic up/down, one tiny value at first/middle/last, blocks of ties",
            "formulas": f"ordered words of length 1..{b['word_ordered_len']}, one word per multiset for length {b['word_ordered_len'] + 1}..{b['word_multiset_len']}",
            "selection": f"segment sizes {SIZES[tier]}, <= 3 segments, <= 2 chromosomes, geometries {GEOMS}, {b['rotations']} filler rotation(s)",
            "intervals": f"multisets of length 1..{b['interval_word_len']} x weights ones/cycle/half x alpha {ALPHAS} x bootstraps {BOOTS} x smoothed",
            "long": f"lengths {LONG_N[tier]} x shapes ramp / two-level / constant / outlier / cycle",
            "bintest": f"layouts as in selection; alpha = own adjusted p-values for tables with <= {b['bintest_own_alpha_bins']} tested bins",
        },
        "alphabet": {
            "log2": LOG2,
            "null_log2": NULL_LOG2,
            "weights": WEIGHTS,
            "segment_log2_modes": MODES,
            "alpha": ALPHAS,
            "bootstraps": BOOTS,
            "bintest_alpha": BT_ALPHAS + [BT_ALPHA_ALL, "each reported adjusted p"],
            "genes": GENES,
            "p_values": BH_VALUES,
            "statistics": LOC + SPREAD + INTERVAL,
        },
        "assumptions": [
            "bin and segment tables are sorted and segments do not overlap each other (a segmentation); bins may straddle a segment "
            "boundary or be nested in another bin (segmetrics only)",
            "bins of a segment = bins sharing at least one base with it (half-open coordinates)",
            "quantiles are linear-interpolation quantiles (Hyndman-Fan 7); standard deviation is the population form, SEM uses the sample "
            "standard deviation; MAD is scaled by 1.4826",
            "a segment with no bins must get no finite value; statistics undefined on the sample are left open: t-test with n < 2 or zero "
            "variance, SEM with n < 2",
            "biweight midvariance is compared with the published formula (c = 9; n = all or n = |u| < 1 observations) about the "
            "implementation's own biweight_location of the independently computed deviations (DESIGN 4.6; the location is verified by C19); "
            "the 1.4826 * MAD fallback is accepted on exactly symmetric data",
            "Student t tail from scipy.stats.t (trusted third-party numerics)",
            "bootstrap CI: ci_lo <= ci_hi, finite, identical on a second run under another global RNG state and when only the log2 / "
            "weights of bins in other segments (same sizes) change; 'inside the bins' range' is "
            "claimed for the plain bootstrap and for the smoothed bootstrap when every weight in the segment is 1 (no noise is added); "
            "the smoothed bootstrap adds Gaussian noise of sd (1 - weight)^0.5 * n^-0.25 by design and may leave the range (counted as a stratum)",
            "skip_low removes the null-coverage bin (log2 -20, depth 0) and nothing else in this alphabet",
            "bintest: every bin lies inside exactly one segment; a bin with weight 1 and residual exactly 0 has z = 0/0, for which the "
            "statement defines no p-value: such tables are counted and skipped; with target_only the Benjamini-Hochberg family is the on-target bins",
            "alpha equal to an adjusted p-value is taken from the implementation's own first answer (verified against the model to 1e-9), "
            "so the strict '<' is tested without depending on the last bit of the model's arithmetic",
            "the CLI wrappers (cnvkit.py segmetrics / bintest) and the 'mode' statistic are not exercised",
        ],
    }


# --------------------------------------------------------------------------------------------
# words, layouts
def multiset_words(n):
    return [list(w) for w in itertools.combinations_with_replacement(LOG2, n)]


def ordered_words(n):
    return [list(w) for w in itertools.product(LOG2, repeat=n)]


def filler_word(j, n, r):
    """Deterministic word for segment j (rotation r): neighbouring segments get different values."""
    if n <= 5:
        base = BASE_WORDS[(j + r) % 3]
        return [base[(i + r) % 5] for i in range(n)]
    return [((i * 5 + 3 * j + r) % 16) / 8.0 - 1.0 for i in range(n)]


def layouts(sizes, max_segs=3):
    """Every sequence of <= max_segs segment sizes with a non-decreasing assignment to <= 2 chromosomes."""
    out = []
    for k in range(1, max_segs + 1):
        for szs in itertools.product(sizes, repeat=k):
            for split in range(k, 0, -1):  # the first `split` segments on chr1, the rest on chr2
                out.append([[0 if j < split else 1, szs[j]] for j in range(k)])
    return out


LONG_SHAPES = {
    "ramp": lambda n: [i / 64.0 for i in range(n)],
    "two-level": lambda n: [0.0] * (n // 2) + [1.0] * (n - n // 2),
    "constant": lambda n: [0.25] * n,
    "outlier": lambda n: [LOG2[i % 4] for i in range(n - 1)] + [8.0],
    "cycle": lambda n: [LOG2[(i * 3) % 4] for i in range(n)],
}


# --------------------------------------------------------------------------------------------
# table builder (model rows + pandas frames)
class Table:
    """bins: [chrom, start, end, gene, log2, weight, depth]; segs: [chrom, start, end, gene, log2, probes, weight]."""

    def __init__(self, segspec, geom="abut", weights="ones", mode="wmean", null=None, index="default", genes="targets", only=None):
        """only = c: both chromosomes start at coordinate 0 and the segment table is restricted to chromosome c, while the
        bin table keeps both (a segment table for one chromosome against genome-wide bins)."""
        self.spec = {"segs": segspec, "geom": geom, "weights": weights, "mode": mode, "null": null, "index": index, "genes": genes, "only": only}
        bins, segs = [], []
        pos = {0: 0, 1: 500 if only is None else 0}
        gap = 50 if geom == "gaps" else 0
        for c, word in segspec:
            chrom, p, n = CHROMS[c], pos[c], len(word)
            if n == 0:
                segs.append([chrom, p, p + 100])
                p += 100 + gap
            else:
                first = len(bins)
                for i, x in enumerate(word):
                    if geom == "nested" and i == 1:
                        s0 = bins[first][1]
                        bins.append([chrom, s0 + 10, s0 + 20, None, x, None, 25.0])
                        continue
                    bins.append([chrom, p, p + 100, None, x, None, 25.0])
                    p += 100 + gap
                segs.append([chrom, bins[first][1], max(b[2] for b in bins[first:])])
            pos[c] = p
        if geom == "straddle":
            for j in range(len(segs) - 1):
                if segs[j][0] == segs[j + 1][0] and len(segspec[j + 1][1]) >= 1:
                    segs[j][2] += 50
                    segs[j + 1][1] += 50
        if only is not None:
            segs = [sg for sg in segs if sg[0] == CHROMS[only]]
        wcycle = WEIGHTS[weights] if isinstance(weights, str) else list(weights)  # a pattern name, or one weight per bin
        for i, b in enumerate(bins):
            b[5] = wcycle[i % len(wcycle)]
            b[3] = gene_name(genes, i)
        self.null = null
        if null is not None:
            bins[null][4] = NULL_LOG2
            bins[null][6] = 0.0
        self.bins = bins
        self.members = [SM.overlapping(bins, s) for s in segs]
        for j, s in enumerate(segs):
            idx = self.members[j]
            wsum = math.fsum(bins[i][5] for i in idx)
            wmean = math.fsum(bins[i][5] * bins[i][4] for i in idx) / wsum if idx else 0.0
            level = {"wmean": wmean, "zero": 0.0, "shift": wmean + 0.375, "tiny": wmean + 0.001}[mode]
            s.extend(["G%d" % j, level, len(idx), wsum])
        self.segs = segs
        self._frames = None
        self._models = {}

    def frames(self):
        if self._frames is None:
            rows = self.bins
            shifted = self.spec["index"] == "shifted"
            if shifted:
                rows = [list(rows[0]) if rows else ["chr1", 0, 1, "x", 0.0, 1.0, 1.0]] + rows
            bdf = pd.DataFrame(
                {
                    "chromosome": [r[0] for r in rows],
                    "start": np.array([r[1] for r in rows], dtype=np.int64),
                    "end": np.array([r[2] for r in rows], dtype=np.int64),
                    "gene": [r[3] for r in rows],
                    "log2": np.array([r[4] for r in rows], dtype=np.float64),
                    "depth": np.array([r[6] for r in rows], dtype=np.float64),
                    "weight": np.array([r[5] for r in rows], dtype=np.float64),
                }
            )
            if shifted:
                bdf = bdf.iloc[1:]
            sdf = pd.DataFrame(
                {
                    "chromosome": [s[0] for s in self.segs],
                    "start": np.array([s[1] for s in self.segs], dtype=np.int64),
                    "end": np.array([s[2] for s in self.segs], dtype=np.int64),
                    "gene": [s[3] for s in self.segs],
                    "log2": np.array([s[4] for s in self.segs], dtype=np.float64),
                    "probes": np.array([s[5] for s in self.segs], dtype=np.int64),
                    "weight": np.array([s[6] for s in self.segs], dtype=np.float64),
                }
            )
            if shifted and len(sdf):
                # the segment table, too, as a filtered array has it: row labels 1..n (a longer table minus its first row)
                sdf = pd.concat([sdf.iloc[:1], sdf], ignore_index=True).iloc[1:]
            self._frames = (bdf, sdf)
        return self._frames

    def cnarr(self):
        return CNA(self.frames()[0].copy(), {"sample_id": "s"})

    def segarr(self):
        return CNA(self.frames()[1].copy(), {"sample_id": "s"})

    def seg_bins(self, j, skip_low):
        return [i for i in self.members[j] if not (skip_low and i == self.null)]

    def model(self, skip_low):
        key = bool(skip_low) and self.null is not None
        if key not in self._models:
            self._models[key] = [seg_model([self.bins[i][4] for i in self.seg_bins(j, key)], s[4]) for j, s in enumerate(self.segs)]
        return self._models[key]

    def nontrivial(self):
        return any(len({self.bins[i][4] for i in idx}) > 1 for idx in self.members)


def gene_name(pattern, i):
    if pattern == "targets":
        return "T%d" % (i // 2)
    if pattern == "mixed":
        return "Antitarget" if i % 2 else "T%d" % (i // 2)
    if pattern == "aliases":
        return ["T%d" % (i // 3), "Background", "Antitarget"][i % 3]
    if pattern == "all-antitarget":
        return "Antitarget"
    raise ValueError(pattern)


def seg_model(xs, level):
    """Reference values for one segment: xs = log2 of its bins, level = the segment's log2."""
    n = len(xs)
    m = {"n": n, "xs": xs}
    if n == 0:
        return m
    ds = [x - level for x in xs]
    lo, hi = M.minmax(xs)
    m.update(
        ds=ds,
        lo=lo,
        hi=hi,
        const=lo == hi,
        mean=SM.mean(xs),
        median=M.median(xs),
        stdev=SM.pop_sd(ds),
        mad=M.mad(ds),
        mse=SM.mean_square(ds),
        iqr=M.iqr(ds),
        sem=SM.sem(ds),
        var_ds=SM.sum_sq_about_mean(ds) / n,
        t=None if lo == hi else SM.t_statistic(xs),
    )
    return m


def size_class(n):
    if n == 0:
        return "0-bins"
    if n == 1:
        return "1-bin"
    if n == 2:
        return "2-bins"
    return "3-5-bins" if n <= 5 else "long"


def close(a, b, tol):
    return abs(a - b) <= tol * max(1.0, abs(a), abs(b))


def fnum(x):
    try:
        return float(x)
    except (TypeError, ValueError):
        return None


# --------------------------------------------------------------------------------------------
def cases(tier):
    b = bounds(tier)
    # 1. Benjamini-Hochberg
    for k in range(1, b["bh_len"] + 1):
        heads = itertools.product(BH_VALUES, repeat=max(0, k - 4))
        for head in heads:
            yield {"check": "bh", "head": list(head), "tail_len": min(k, 4)}
    for n in BH_LONG:
        yield {"check": "bh-long", "n": n}
    # 2. formulas (one case = every word with a given head)
    for n in range(1, b["word_multiset_len"] + 1):
        if n <= b["word_ordered_len"]:
            for head in itertools.product(LOG2, repeat=max(0, n - 3)):
                yield {"check": "formulas", "n": n, "ordered": True, "head": list(head)}
        else:
            for first in LOG2:
                yield {"check": "formulas", "n": n, "ordered": False, "head": [first]}
    # 3. subsets of statistics
    for t in range(b["subset_tables"]):
        yield {"check": "subsets", "table": t}
    # 4. intervals
    for n in range(1, b["interval_word_len"] + 1):
        for w in ("ones", "cycle", "half"):
            yield {"check": "intervals", "n": n, "weights": w}
    # 5. + 6. selection and bintest, layout by layout (simplest layouts first)
    for lay in layouts(SIZES[tier]):
        if max(sz for _c, sz in lay) <= 5:
            yield {"check": "selection", "layout": lay}
            if sum(sz for _c, sz in lay) >= 1:
                yield {"check": "bintest", "layout": lay}
    # 7. long segments
    for n in LONG_N[tier]:
        for shape in LONG_SHAPES:
            yield {"check": "long", "n": n, "shape": shape}
    if tier == "thorough":
        for lay in layouts(SIZES[tier]):
            if max(sz for _c, sz in lay) > 5:
                yield {"check": "selection", "layout": lay}
        for lay in layouts(SIZES[tier]):
            if max(sz for _c, sz in lay) > 5:
                yield {"check": "bintest", "layout": lay}


def run(case, ctx):
    c = case["check"]
    b = bounds(ctx.tier)
    if c == "bh":
        run_bh(case, ctx)
    elif c == "bh-long":
        run_bh_long(case, ctx)
    elif c == "formulas":
        run_formulas(case, ctx)
    elif c == "subsets":
        run_subsets(case, ctx)
    elif c == "intervals":
        run_intervals(case, ctx)
    elif c == "selection":
        run_selection(case, ctx, b)
    elif c == "bintest":
        run_bintest_layout(case, ctx, b)
    elif c == "long":
        run_long(case, ctx)
    else:
        raise ValueError(c)


# --------------------------------------------------------------------------------------------
# Benjamini-Hochberg
def bh_feature(ps):
    f = []
    if len(set(ps)) < len(ps):
        f.append("ties")
    if 0.0 in ps:
        f.append("zero")
    if 1.0 in ps:
        f.append("one")
    return "len-%s%s" % ("1" if len(ps) == 1 else "2..6" if len(ps) <= 6 else "long", "".join("+" + x for x in f))


def check_bh(ctx, ps, sub):
    ctx.state(("bh", ps), nontrivial=len(set(ps)) > 1)
    got = ctx.call(BT.p_adjust_bh, list(ps))
    feat = bh_feature(ps)
    if isinstance(got, Exc):
        ctx.violation("p_adjust_bh returns adjusted p-values", f"p_adjust_bh/raises/{got.key}/{feat}", expected="a vector", observed=got, sub=sub)
        return
    ctx.trace()
    want = SM.bh_adjust(ps)
    try:
        obs = [float(x) for x in got]
    except (TypeError, ValueError):
        obs = None
    ctx.outcome(("bh", [round(x, 12) for x in obs] if obs else repr(got)))
    if obs is None or len(obs) != len(ps):
        ctx.violation("p_adjust_bh returns one value per input", f"p_adjust_bh/shape/{feat}", expected=len(ps), observed=repr(got)[:200], sub=sub)
        return
    if len(set(ps)) < len(ps):
        ctx.stratum("bh: tied p-values")
    if any(w < min(1.0, p * len(ps) / sum(1 for x in ps if x <= p)) - 1e-15 for w, p in zip(want, ps)):
        ctx.stratum("bh: step-up minimum taken from a larger p-value")
    if any(w == 1.0 and p < 1.0 for w, p in zip(want, ps)):
        ctx.stratum("bh: capped at 1")
    bad = [i for i, (o, w) in enumerate(zip(obs, want)) if not (o == o and close(o, w, TOL_BH))]
    if bad:
        ctx.violation(
            "adjusted p = min over j >= rank of p_(j) * m / j, capped at 1 (Benjamini-Hochberg)",
            f"p_adjust_bh/value/{feat}",
            expected=want,
            observed=obs,
            sub={**sub, "first_bad_position": bad[0]},
        )


def run_bh(case, ctx):
    head = case["head"]
    for tail in itertools.product(BH_VALUES, repeat=case["tail_len"]):
        ps = head + list(tail)
        check_bh(ctx, ps, {"p": ps})
    ctx.sample("bh", {"p": head + [BH_VALUES[2]] * case["tail_len"]})


def bh_long_vectors(n):
    out = []
    for v in BH_VALUES:
        out.append(("all-equal", [v] * n))
    out.append(("arithmetic-up", [(i + 1) / n for i in range(n)]))
    out.append(("arithmetic-down", [(n - i) / n for i in range(n)]))
    out.append(("arithmetic-small", [(i + 1) / (20.0 * n) for i in range(n)]))
    for pos in (0, n // 2, n - 1):
        v = [0.5] * n
        v[pos] = 1e-6
        out.append(("one-tiny@%d" % pos, v))
    out.append(("tie-blocks", [BH_VALUES[(i // 7) % 6] for i in range(n)]))
    out.append(("interleaved", [BH_VALUES[(i * 5) % 6] * (1 + (i % 3)) / 3.0 for i in range(n)]))
    return out


def run_bh_long(case, ctx):
    for name, ps in bh_long_vectors(case["n"]):
        check_bh(ctx, ps, {"shape": name, "n": case["n"]})


# --------------------------------------------------------------------------------------------
# segmetrics: one call, every clause
def table_feature(T, cfg):
    """Coarse input feature for finding keys: geometry and whether skip_low actually removes a bin."""
    f = []
    g = T.spec["geom"]
    if g != "abut":
        f.append(g)
    if cfg["skip_low"] and T.null is not None:
        f.append("skip_low")
    return "+".join(f) or "plain"


def call_segmetrics(ctx, T, loc, spread, interval, cfg):
    cn, sg = T.cnarr(), T.segarr()
    before = sg.data.copy()
    out = ctx.call(
        SG.do_segmetrics,
        cn,
        sg,
        location_stats=list(loc),
        spread_stats=list(spread),
        interval_stats=list(interval),
        alpha=cfg["alpha"],
        bootstraps=cfg["bootstraps"],
        smoothed=cfg["smoothed"],
        skip_low=cfg["skip_low"],
    )
    return out, sg, before


def check_segmetrics(ctx, T, loc, spread, interval, cfg, sub, rerun=False):
    """Run do_segmetrics once (twice with rerun) on table T and evaluate every clause of the statement."""
    tfeat = table_feature(T, cfg)
    ctx.state(("segmetrics", T.spec, cfg["skip_low"]), nontrivial=T.nontrivial())
    np.random.seed(17)  # a fixed global RNG state before the first run (replays are then deterministic even if the code were unseeded)
    out, sg, before = call_segmetrics(ctx, T, loc, spread, interval, cfg)
    req = {"loc": list(loc), "spread": list(spread), "interval": list(interval)}
    sub = {**sub, "table": T.spec, "config": cfg, "requested": req}
    if isinstance(out, Exc):
        ctx.violation(
            "segmetrics computes each requested statistic for every segment",
            f"segmetrics/raises/{out.key}/{'table-with-an-empty-segment' if any(m['n'] == 0 for m in T.model(cfg['skip_low'])) else 'every-segment-has-bins'}",
            expected="a table with one row per segment",
            observed=out,
            sub=sub,
        )
        return None
    ctx.trace()
    data = getattr(out, "data", None)
    if data is None or len(data) != len(T.segs):
        ctx.violation("one output row per segment", f"segmetrics/rows/{tfeat}", expected=len(T.segs), observed=None if data is None else len(data), sub=sub)
        return None
    # the input segments' own columns are unchanged (in the result and in the caller's object)
    for col in before.columns:
        if col not in data.columns or data[col].tolist() != before[col].tolist():
            ctx.violation(
                "the input segments' own columns are unchanged",
                f"segmetrics/segment-columns/changed-in-result/{col}",
                expected=before[col].tolist(),
                observed=data[col].tolist() if col in data.columns else "column missing",
                sub=sub,
            )
    if list(sg.data.columns) != list(before.columns) or not sg.data.equals(before):
        ctx.violation(
            "the input segments' own columns are unchanged",
            "segmetrics/segment-columns/input-object-modified",
            expected=before.to_dict("list"),
            observed=sg.data.to_dict("list"),
            sub=sub,
        )
    names = list(loc) + list(spread) + [f"{s}_{e}" for s in interval for e in ("lo", "hi")]
    missing = [c for c in names if c not in data.columns]
    if missing:
        ctx.violation("each requested statistic is reported", f"segmetrics/column-missing/{'+'.join(missing)}", expected=names, observed=list(data.columns), sub=sub)
        return None
    cols = {c: [fnum(v) for v in data[c].tolist()] for c in names}
    models = T.model(cfg["skip_low"])
    ctx.outcome(("segmetrics", [[None if v is None or v != v else round(v, 9) for v in cols[c]] for c in names]))
    strata_for_table(ctx, T, cfg, models)
    for j, m in enumerate(models):
        ssub = {**sub, "segment": j, "segment_row": T.segs[j], "bins_log2": m["xs"][:12], "n_bins": m["n"]}
        feat = size_class(m["n"]) + ("" if tfeat == "plain" else "/" + tfeat)
        row = {c: cols[c][j] for c in names}
        check_segment(ctx, T, j, m, row, loc, spread, interval, cfg, feat, ssub)
    if rerun and "ci" in interval:
        np.random.seed(20240917)
        np.random.rand(7)
        out2, _sg2, _b2 = call_segmetrics(ctx, T, loc, spread, interval, cfg)
        if isinstance(out2, Exc):
            ctx.violation("the bootstrap interval is reproducible run to run", f"segmetrics/ci/second-run-raises/{out2.key}", expected="same result", observed=out2, sub=sub)
        else:
            ctx.trace()
            for c in ("ci_lo", "ci_hi"):
                a, b2 = cols[c], [fnum(v) for v in out2.data[c].tolist()]
                same = len(a) == len(b2) and all((x == y) or (x != x and y != y) for x, y in zip(a, b2))
                if not same:
                    ctx.violation(
                        "the bootstrap interval is reproducible run to run (also under another global RNG state)",
                        f"segmetrics/ci/not-reproducible/{'smoothed' if cfg['smoothed'] else 'plain'}",
                        expected=a,
                        observed=b2,
                        sub={**sub, "column": c},
                    )
                    break
            ctx.stratum("ci: second run under a different global RNG state compared")
    return cols


def strata_for_table(ctx, T, cfg, models):
    chroms_b = {b[0] for i, b in enumerate(T.bins) if not (cfg["skip_low"] and i == T.null)}
    chroms_s = {s[0] for s in T.segs}
    if len(chroms_b) == 1 and chroms_b == chroms_s:
        ctx.stratum("path: bins and segments share one chromosome (shortcut)")
    else:
        ctx.stratum("path: grouped by chromosome")
    for j, m in enumerate(models):
        if m["n"] == 0:
            if T.segs[j][0] not in chroms_b:
                ctx.stratum("segment with 0 bins: its chromosome has no bins")
            elif cfg["skip_low"] and T.null in T.members[j]:
                ctx.stratum("segment with 0 bins: emptied by skip_low")
            else:
                ctx.stratum("segment with 0 bins: gap between bins")
        elif m["n"] == 1:
            ctx.stratum("segment with 1 bin")
        elif len(set(m["xs"])) < m["n"]:
            ctx.stratum("segment with tied log2 values")
    if cfg["skip_low"] and T.null is not None:
        ctx.stratum("skip_low removes the null-coverage bin (filtered row index)")
    if T.null is not None and not cfg["skip_low"]:
        ctx.stratum("null-coverage bin kept (skip_low off)")
    if T.spec["geom"] == "straddle" and any(len([1 for idx in T.members if i in idx]) > 1 for i in range(len(T.bins))):
        ctx.stratum("geometry: a bin straddles a boundary and counts in both segments")
    if T.spec["geom"] == "nested" and any(len(w) >= 2 for _c, w in T.spec["segs"]):
        ctx.stratum("geometry: a bin nested in another (non-monotonic ends)")
    if T.spec["geom"] == "gaps":
        ctx.stratum("geometry: gaps between bins")
    if T.spec["index"] == "shifted":
        ctx.stratum("bins carry a non-default row index")


def expect_value(fails, stat, got, want, tol, clause):
    """Compare one reported statistic; a mismatch is collected (reported by check_segment)."""
    if got is None or got != got or not close(got, want, tol):
        fails.append((stat, clause, want, got))
        return False
    return True


def check_segment(ctx, T, j, m, row, loc, spread, interval, cfg, feat, ssub):
    n = m["n"]
    if n == 0:
        finite = {c: v for c, v in row.items() if v is not None and math.isfinite(v)}
        if finite:
            ctx.violation(
                "statistics are computed over exactly the bins overlapping the segment (none: no value)",
                f"segmetrics/empty-segment-gets-a-value/{feat}",
                expected="no finite value",
                observed=finite,
                sub=ssub,
            )
        return
    xs = m["xs"]
    fails = []
    over = "over exactly the bins overlapping the segment"
    if "mean" in loc:
        expect_value(fails, "mean", row["mean"], m["mean"], TOL, f"mean of the bins' log2 {over}")
    if "median" in loc:
        expect_value(fails, "median", row["median"], m["median"], TOL, f"median of the bins' log2 {over}")
    if "p_ttest" in loc:
        if m["t"] is None:
            ctx.stratum("p_ttest undefined (n < 2 or zero variance): left open")
        else:
            t, df = m["t"]
            want = 2.0 * float(sps.t.sf(abs(t), df))
            expect_value(fails, "p_ttest", row["p_ttest"], want, TOL, "two-sided one-sample t-test p-value of the bins' log2 against 0")
    dev = "of the bins' deviations from the segment log2"
    if "stdev" in spread:
        expect_value(fails, "stdev", row["stdev"], m["stdev"], TOL, f"standard deviation {dev}")
    if "mad" in spread:
        expect_value(fails, "mad", row["mad"], m["mad"], TOL, f"MAD (x 1.4826) {dev}")
    if "iqr" in spread:
        expect_value(fails, "iqr", row["iqr"], m["iqr"], TOL, f"interquartile range {dev}")
    if "sem" in spread:
        if m["sem"] is None:
            ctx.stratum("sem undefined (n < 2): left open")
        else:
            expect_value(fails, "sem", row["sem"], m["sem"], TOL, f"standard error of the mean {dev}")
    if "mse" in spread:
        check_mse(ctx, fails, m, row["mse"], ssub)
    if "bivar" in spread:
        check_bivar(ctx, fails, m, row["bivar"])
    if "pi" in interval:
        lo, hi = row["pi_lo"], row["pi_hi"]
        wlo, whi = SM.percentile_interval(xs, cfg["alpha"])
        ok = expect_value(fails, "pi_lo", lo, wlo, TOL, f"prediction interval = the alpha/2 percentile of the bins' log2 {over}")
        ok = expect_value(fails, "pi_hi", hi, whi, TOL, f"prediction interval = the 1 - alpha/2 percentile of the bins' log2 {over}") and ok
        if ok and not (lo <= m["median"] + TOL and m["median"] <= hi + TOL):
            ctx.violation("pi_lo <= median <= pi_hi", f"segmetrics/pi/median-outside/{size_class(n)}", expected=[wlo, m["median"], whi], observed=[lo, hi], sub=ssub)
    if "ci" in interval:
        check_ci(ctx, fails, T, j, m, row["ci_lo"], row["ci_hi"], cfg, ssub)
    # One wrong formula gives one key per size class; several statistics of one segment off at once point at the
    # bins that were used, and are reported once, classified by geometry / skip_low.
    if len({f[0] for f in fails}) >= 3:
        ctx.violation(
            "each requested statistic is computed over exactly the bins overlapping the segment (several statistics of one segment are off together)",
            f"segmetrics/several-statistics/value/{feat}",
            expected={f[0]: f[2] for f in fails},
            observed={f[0]: f[3] for f in fails},
            sub=ssub,
        )
    else:
        for stat, clause, want, got in fails:
            ctx.violation(clause, f"segmetrics/{stat}/value/{size_class(n)}", expected=want, observed=got, sub=ssub)


def check_mse(ctx, fails, m, got, ssub):
    want = m["mse"]
    distinguishing = not close(m["var_ds"], want, TOL)
    if distinguishing:
        ctx.stratum("mse: mean square differs from the variance of the deviations")
    if got is not None and got == got and close(got, want, TOL):
        return
    clause = "MSE = mean of the squared deviations of the bins from the segment log2"
    if m["n"] == 1 and got is not None and got == 0.0:
        key = "segmetrics/mse/single-bin-segment-reports-zero"
    elif m["n"] >= 2 and distinguishing and got is not None and close(got, m["var_ds"], TOL):
        key = "segmetrics/mse/variance-of-the-deviations-reported"
    else:
        fails.append(("mse", clause, want, got))
        return
    ctx.violation(clause, key, expected=want, observed=got, sub={**ssub, "deviations": m["ds"][:12], "variance_of_deviations": m["var_ds"]})


def check_bivar(ctx, fails, m, got):
    ds = m["ds"]
    clause = "biweight midvariance of the bins' deviations from the segment log2"
    if got is None or got != got:
        fails.append(("bivar", clause, "a number", got))
        return
    if m["const"]:
        if abs(got) > TOL:
            fails.append(("bivar", clause + " (0 for identical bins)", 0.0, got))
        return
    centre = ctx.call(D.biweight_location, np.array(ds, dtype=float))
    if isinstance(centre, Exc) or not math.isfinite(float(centre)):
        ctx.stratum("bivar: implementation's biweight_location unavailable (clause void; C19)")
        return
    mv = M.biweight_midvariance(ds, float(centre))
    if not mv["values"]:
        ctx.stratum("bivar: formula denominator zero (clause void)")
        return
    ok = any(close(got, v, TOL_ITER) for v in mv["values"])
    if abs(mv["sum_u"]) <= TOL * max(1.0, mv["sum_abs_u"]):
        ctx.stratum("bivar: exactly symmetric deviations (MAD fallback allowed)")
        ok = ok or close(got, mv["mad_fallback"], TOL)
    else:
        ctx.stratum("bivar: asymmetric deviations (formula required)")
    if not ok:
        fails.append(("bivar", clause, {"formula": mv["values"], "mad_fallback": mv["mad_fallback"]}, got))


def check_ci(ctx, fails, T, j, m, lo, hi, cfg, ssub):
    tag = "smoothed" if cfg["smoothed"] else "plain"
    size = size_class(m["n"])
    if lo is None or hi is None or not (math.isfinite(lo) and math.isfinite(hi)):
        fails.append(("ci", "a bootstrap confidence interval is reported for a segment that has bins", "two finite numbers", [lo, hi]))
        return
    if lo > hi:
        ctx.violation("ci_lo <= ci_hi", f"segmetrics/ci/lo-above-hi/{tag}/{size}", expected="ci_lo <= ci_hi", observed=[lo, hi], sub=ssub)
    wts = [T.bins[i][5] for i in T.seg_bins(j, cfg["skip_low"])]
    if cfg["bootstraps"] <= 2.0 / cfg["alpha"]:
        ctx.stratum("ci: fewer bootstraps than 2/alpha requested")
    span = max(abs(m["lo"]), abs(m["hi"]), 1.0)
    outside = lo < m["lo"] - TOL * span or hi > m["hi"] + TOL * span
    if cfg["smoothed"] and any(w != 1.0 for w in wts):
        if outside:
            ctx.stratum("ci: smoothed bootstrap leaves the bins' range (by design; range clause not claimed)")
        else:
            ctx.stratum("ci: smoothed bootstrap with noise stays inside the range (not claimed)")
        return
    ctx.stratum("ci: range clause applied (%s)" % ("smoothed, all weights 1" if cfg["smoothed"] else "plain bootstrap"))
    if outside:
        ctx.violation(
            "the bootstrap confidence interval lies inside the range of the segment's bins",
            f"segmetrics/ci/outside-bins-range/{tag}/{size}",
            expected=[m["lo"], m["hi"]],
            observed=[lo, hi],
            sub=ssub,
        )


# --------------------------------------------------------------------------------------------
# segmetrics sub-checks
def focus_spec(word):
    return [[0, [1.0]], [0, list(word)], [0, [-1.0, 0.25]]]


def formula_words(case):
    n, head = case["n"], case["head"]
    if case["ordered"]:
        return [head + list(t) for t in itertools.product(LOG2, repeat=n - len(head))]
    rest = LOG2[LOG2.index(head[0]):]  # non-decreasing in alphabet order: one word per multiset
    return [head + list(t) for t in itertools.combinations_with_replacement(rest, n - 1)]


def run_formulas(case, ctx):
    words = formula_words(case)
    for word in words:
        for mode in MODES:
            for w in ("ones", "cycle"):
                T = Table(focus_spec(word), weights=w, mode=mode)
                check_segmetrics(ctx, T, LOC, SPREAD, INTERVAL, DEFAULT_CFG, {"word": word})
    ctx.sample("formulas", {"table": Table(focus_spec(words[-1]), weights="cycle", mode="shift").spec})


SUBSET_TABLES = [
    ([[0, [0.0, 0.25, 1.0]], [0, [-1.0]], [1, [1.0, -1.0]]], "cycle", "shift"),
    ([[0, [0.25, 0.25, -1.0, 1.0, 0.0]], [0, []], [0, [1.0, 0.0]]], "ones", "zero"),
    ([[0, [1.0]], [1, [0.0, 0.0, 0.25]]], "half", "shift"),
    ([[0, []], [1, [0.0, 1.0]], [1, [0.25, -1.0, -1.0]]], "cycle", "wmean"),
    ([[0, [0.0, 0.25, 1.0, -1.0, 0.25]]], "cycle", "shift"),
    ([[0, [0.0, 1.0]], [0, [0.25, 0.25]], [0, [-1.0, 1.0, 0.0]]], "cycle2", "zero"),
]


def run_subsets(case, ctx):
    segspec, w, mode = SUBSET_TABLES[case["table"]]
    T = Table(segspec, weights=w, mode=mode)
    sub = {"table_no": case["table"]}
    check_segmetrics(ctx, T, [], [], [], DEFAULT_CFG, sub)
    ctx.stratum("subsets: nothing requested")
    for k in range(1, len(SPREAD) + 1):
        for ss in itertools.combinations(SPREAD, k):
            check_segmetrics(ctx, T, [], ss, [], DEFAULT_CFG, sub)
            ctx.stratum("subsets: one spread statistic (generator path)" if k == 1 else "subsets: several spread statistics (list path)")
    for a, b2 in itertools.permutations(SPREAD, 2):
        if SPREAD.index(a) > SPREAD.index(b2):
            check_segmetrics(ctx, T, [], [a, b2], [], DEFAULT_CFG, sub)
    for k in range(1, len(LOC) + 1):
        for ls in itertools.permutations(LOC, k):
            check_segmetrics(ctx, T, ls, [], [], DEFAULT_CFG, sub)
    for iv in (["ci"], ["pi"], ["pi", "ci"], ["ci", "pi"]):
        check_segmetrics(ctx, T, [], [], iv, DEFAULT_CFG, sub, rerun=True)
    for l1 in LOC:
        for s1 in SPREAD:
            check_segmetrics(ctx, T, [l1], [s1], ["pi"], DEFAULT_CFG, sub)
    # tuples (the CLI passes lists; the signature defaults are tuples)
    check_segmetrics(ctx, T, tuple(LOC), tuple(SPREAD), tuple(INTERVAL), DEFAULT_CFG, sub)
    ctx.sample("subsets", {"table": T.spec})


OTHER_WEIGHT = {1.0: 0.5, 0.5: 0.2, 0.2: 1.0}


def run_intervals(case, ctx):
    for word in multiset_words(case["n"]):
        T = Table(focus_spec(word), weights=case["weights"], mode="wmean")
        # the same focus segment (bins 1..n) between other log2 values and other weights in the neighbouring segments
        w_alt = [b[5] if 1 <= i <= len(word) else OTHER_WEIGHT[b[5]] for i, b in enumerate(T.bins)]
        T_alt = Table([[0, [-1.0]], [0, list(word)], [0, [0.0, 1.0]]], weights=w_alt, mode="wmean")
        for alpha in ALPHAS:
            for boots in BOOTS:
                for smoothed in (False, True):
                    cfg = {"alpha": alpha, "bootstraps": boots, "smoothed": smoothed, "skip_low": False}
                    cols = check_segmetrics(ctx, T, [], [], INTERVAL, cfg, {"word": word}, rerun=True)
                    if boots != 10 or cols is None:
                        continue
                    cols2 = check_segmetrics(ctx, T_alt, [], [], INTERVAL, cfg, {"word": word, "variant": "neighbouring segments changed"})
                    if cols2 is None:
                        continue
                    ctx.stratum("ci/pi: same segment re-evaluated with different neighbouring bins")
                    for c in ("ci_lo", "ci_hi", "pi_lo", "pi_hi"):
                        if cols[c][1] != cols2[c][1]:
                            ctx.violation(
                                "each statistic is computed over exactly the bins overlapping the segment (log2 and weights of other bins do not matter)",
                                f"segmetrics/{c[:2]}/depends-on-bins-outside-the-segment/{'smoothed' if smoothed else 'plain'}",
                                expected=cols[c][1],
                                observed=cols2[c][1],
                                sub={"word": word, "table": T.spec, "other_table": T_alt.spec, "config": cfg, "column": c, "segment": 1},
                            )
                            break
    ctx.sample("intervals", {"word": multiset_words(case["n"])[-1], "weights": case["weights"]})


SELECT_LOC = ["mean", "median"]
SELECT_SPREAD = ["stdev", "mse"]
SELECT_CFG = {"alpha": 0.5, "bootstraps": 10, "smoothed": False, "skip_low": False}


def layout_spec(lay, r):
    return [[c, filler_word(j, n, r)] for j, (c, n) in enumerate(lay)]


def run_selection(case, ctx, b):
    lay = case["layout"]
    nb = sum(n for _c, n in lay)
    long_ = max(n for _c, n in lay) > 5
    for r in range(b["rotations"]):
        spec = layout_spec(lay, r)
        for geom in GEOMS:
            if geom == "straddle" and not any(lay[j][0] == lay[j + 1][0] and lay[j + 1][1] >= 1 for j in range(len(lay) - 1)):
                continue
            if geom == "nested" and not any(n >= 2 for _c, n in lay):
                continue
            if geom == "gaps" and nb == 0:
                continue
            mode = MODES[(r + GEOMS.index(geom)) % 3 if r else 2]  # rotation 0 always uses 'shift' (separates mse from the variance)
            w = "cycle" if geom in ("abut", "straddle") else "cycle2"
            sub = {"layout": lay, "rotation": r}
            for index in ("default", "shifted"):
                T = Table(spec, geom=geom, weights=w, mode=mode, index=index)
                check_segmetrics(ctx, T, SELECT_LOC, SELECT_SPREAD, INTERVAL, SELECT_CFG, sub)
                check_segmetrics(ctx, T, SELECT_LOC, SELECT_SPREAD, INTERVAL, {**SELECT_CFG, "skip_low": True}, sub)
            if len({c for c, _n in lay}) == 2 and geom in ("abut", "gaps"):
                # the segment table covers one chromosome only; the other chromosome's bins sit at the same coordinates
                for only in (0, 1):
                    T = Table(spec, geom=geom, weights=w, mode=mode, only=only)
                    if T.segs:
                        ctx.stratum("selection: segments on one chromosome, bins on two")
                        check_segmetrics(ctx, T, SELECT_LOC, SELECT_SPREAD, INTERVAL, SELECT_CFG, {**sub, "segments_only_on": CHROMS[only]})
            if long_:
                positions = sorted({0, nb // 2, nb - 1})
            else:
                positions = range(nb)
            for p in positions:
                T = Table(spec, geom=geom, weights=w, mode=mode, null=p)
                for skip in (True, False):
                    check_segmetrics(ctx, T, SELECT_LOC, SELECT_SPREAD, INTERVAL, {**SELECT_CFG, "skip_low": skip}, sub)
            if nb:
                T = Table(spec, geom=geom, weights=w, mode=mode, null=nb - 1, index="shifted")
                check_segmetrics(ctx, T, SELECT_LOC, SELECT_SPREAD, INTERVAL, {**SELECT_CFG, "skip_low": True}, sub)
    ctx.sample("selection", {"layout": lay, "table": Table(layout_spec(lay, 0), geom="abut", weights="cycle", mode="shift").spec})


def run_long(case, ctx):
    n, shape = case["n"], case["shape"]
    word = LONG_SHAPES[shape](n)
    sub = {"shape": shape, "n": n}
    for segspec in ([[0, word], [0, [1.0, -1.0]]], [[0, [0.25]], [1, word]]):
        for mode in MODES:
            for w in ("ones", "cycle"):
                T = Table(segspec, weights=w, mode=mode)
                check_segmetrics(ctx, T, LOC, SPREAD, INTERVAL, DEFAULT_CFG, sub, rerun=True)
                check_segmetrics(ctx, T, [], [], INTERVAL, {**DEFAULT_CFG, "smoothed": True, "alpha": 0.5, "bootstraps": 10}, sub, rerun=True)
                where = len(segspec[0][1]) + n // 2 if segspec[0][1] is not word else n // 2
                Tn = Table(segspec, weights=w, mode=mode, null=where)
                for skip in (True, False):
                    check_segmetrics(ctx, Tn, LOC, SPREAD, INTERVAL, {**DEFAULT_CFG, "skip_low": skip}, sub)
        ctx.stratum("long segment (%d bins)" % n)
    ctx.sample("long", sub)


# --------------------------------------------------------------------------------------------
# bintest
def bin_key(row):
    return (row[0], int(row[1]), int(row[2]))


def call_bintest(ctx, T, alpha, target_only):
    cn, sg = T.cnarr(), T.segarr()
    out = ctx.call(BT.do_bintest, cn, sg, alpha, target_only)
    if isinstance(out, Exc):
        return out
    data = getattr(out, "data", None)
    if data is None or any(c not in data.columns for c in ("chromosome", "start", "end", "p_bintest")):
        return {"malformed": repr(out)[:200]}
    pos = {bin_key(b): i for i, b in enumerate(T.bins)}
    hits = {}
    extra = []
    for chrom, s, e, p in zip(data["chromosome"].tolist(), data["start"].tolist(), data["end"].tolist(), data["p_bintest"].tolist()):
        i = pos.get((chrom, int(s), int(e)))
        if i is None or i in hits:
            extra.append([chrom, int(s), int(e)])
        else:
            hits[i] = float(p)
    return {"hits": hits, "extra": extra}


def check_bintest(ctx, T, target_only, own_alpha_limit, sub):
    brow = [(b[0], b[1], b[2], b[3], b[4], b[5]) for b in T.bins]
    srow = [(s[0], s[1], s[2], s[4]) for s in T.segs]
    model = SM.bintest_model(brow, srow, target_only, ANTITARGET_NAMES)
    ctx.state(("bintest", T.spec, target_only), nontrivial=T.nontrivial())
    if model["uncovered"]:
        raise AssertionError("harness: bin outside every segment")
    if model["undefined"]:
        ctx.stratum("bintest: a bin with weight 1 and zero residual (z = 0/0): table skipped, not claimed")
        return
    tfeat = ("target-only" if target_only else "all-bins") + ("+no-bins-left" if not model["tested"] else "")
    tfeat += "" if T.spec["geom"] == "abut" else "+" + T.spec["geom"]
    sub = {**sub, "table": T.spec, "target_only": target_only}
    q = dict(zip(model["tested"], model["q"]))
    if any(z in (float("inf"), float("-inf")) for z in model["z"]):
        ctx.stratum("bintest: weight 1 with a non-zero residual (z infinite, p = 0)")
    if target_only and len(model["tested"]) < len(T.bins):
        ctx.stratum("bintest: off-target bins excluded (target_only)")
    if not target_only and any(b[3] in ANTITARGET_NAMES for b in T.bins):
        ctx.stratum("bintest: off-target bins tested (target_only off)")
    if not model["tested"]:
        ctx.stratum("bintest: no bin left to test")
    if any(abs(w - p) > 1e-15 for w, p in zip(model["q"], model["p"])):
        ctx.stratum("bintest: adjustment changes a p-value")

    def evaluate(alpha, res, expected_hits, how):
        if isinstance(res, Exc):
            ctx.violation(
                "bintest returns the bins whose adjusted p is below alpha",
                f"bintest/raises/{res.key}/{tfeat}",
                expected=sorted(expected_hits),
                observed=res,
                sub={**sub, "alpha": alpha},
            )
            return None
        if "malformed" in res:
            ctx.violation("bintest returns a bin table with p_bintest", f"bintest/malformed/{tfeat}", expected="bin table", observed=res["malformed"], sub={**sub, "alpha": alpha})
            return None
        ctx.trace()
        got = set(res["hits"])
        ctx.outcome(("bintest", sorted(got), [round(res["hits"][i], 12) for i in sorted(got)]))
        if res["extra"]:
            ctx.violation("bintest returns bins of the input, each once", f"bintest/foreign-or-duplicate-rows/{tfeat}", expected="input bins", observed=res["extra"], sub={**sub, "alpha": alpha})
        expected = expected_hits["must"] | (got & expected_hits["may"])
        missing, extra = expected - got, got - expected
        if missing or extra:
            if extra and target_only and all(T.bins[i][3] in ANTITARGET_NAMES for i in extra):
                kind = "off-target-bin-returned"
            elif missing and extra:
                kind = "wrong-set"
            else:
                kind = "missing-hit" if missing else "extra-hit"
            ctx.violation(
                "bintest returns exactly the bins whose adjusted p is below alpha" + (" (on-target only when asked)" if target_only else ""),
                f"bintest/hits/{how}/{kind}/{tfeat}",
                expected={"bins": sorted(expected_hits["must"]), "borderline": sorted(expected_hits["may"])},
                observed=sorted(got),
                sub={**sub, "alpha": alpha, "model_q": {str(i): v for i, v in q.items()}},
            )
        return res

    def model_expect(alpha):
        must = {i for i, v in q.items() if v < alpha and not close(v, alpha, TOL_BH)}
        may = {i for i, v in q.items() if close(v, alpha, TOL_BH)}
        return {"must": must, "may": may}

    first = evaluate(BT_ALPHA_ALL, call_bintest(ctx, T, BT_ALPHA_ALL, target_only), model_expect(BT_ALPHA_ALL), "model")
    if first is None:
        return
    bad = [i for i, p in first["hits"].items() if i in q and not (p == p and close(p, q[i], TOL))]
    if bad:
        i = bad[0]
        ctx.violation(
            "p = 2 * Phi(-|log2 - segment mean| / sqrt(1 - weight)), adjusted by Benjamini-Hochberg over the tested bins",
            f"bintest/p-value/{tfeat}",
            expected=q[i],
            observed=first["hits"][i],
            sub={**sub, "bin": T.bins[i], "raw_p": dict(zip(model["tested"], model["p"]))[i], "z": dict(zip(model["tested"], model["z"]))[i], "family_size": len(model["tested"])},
        )
    for alpha in BT_ALPHAS:
        evaluate(alpha, call_bintest(ctx, T, alpha, target_only), model_expect(alpha), "model")
    if len(model["tested"]) <= own_alpha_limit and not bad:
        for v in sorted(set(first["hits"].values())):
            if not 0.0 < v < 1.0:
                continue
            must = {i for i, p in first["hits"].items() if p < v}
            res = evaluate(v, call_bintest(ctx, T, v, target_only), {"must": must, "may": set()}, "alpha-equals-an-adjusted-p")
            if res is not None:
                ctx.stratum("bintest: alpha equal to a reported adjusted p (strict '<' decides)")


def check_history(ctx, T, sub):
    """Every word of two operations over {bintest, segmetrics} on ONE pair of table objects: each answer must be the one
    fresh objects get (fresh answers are judged against the model elsewhere in this case)."""
    cfg = {**DEFAULT_CFG, "bootstraps": 10}

    def do(op, cn, sg):
        if op == "bintest":
            out = ctx.call(BT.do_bintest, cn, sg, BT_ALPHA_ALL, False)
            cols = ("chromosome", "start", "end", "log2", "p_bintest")
        else:
            out = ctx.call(
                SG.do_segmetrics, cn, sg, location_stats=list(LOC), spread_stats=list(SPREAD), interval_stats=list(INTERVAL),
                alpha=cfg["alpha"], bootstraps=cfg["bootstraps"], smoothed=cfg["smoothed"], skip_low=cfg["skip_low"],
            )  # fmt: skip
            cols = None
        if isinstance(out, Exc):
            return out
        data = out.data
        return {c: [fnum(v) if isinstance(v, float) else v for v in data[c].tolist()] for c in (cols or list(data.columns)) if c in data.columns}

    def same(a, b):
        if isinstance(a, Exc) or isinstance(b, Exc):
            return isinstance(a, Exc) and isinstance(b, Exc)
        if sorted(a) != sorted(b):
            return False
        for c in a:
            if len(a[c]) != len(b[c]):
                return False
            for x, y in zip(a[c], b[c]):
                if isinstance(x, float) and isinstance(y, float):
                    if not ((x != x and y != y) or close(x, y, 1e-12)):
                        return False
                elif x != y:
                    return False
        return True

    fresh = {op: do(op, T.cnarr(), T.segarr()) for op in ("bintest", "segmetrics")}
    for word in itertools.product(("bintest", "segmetrics"), repeat=2):
        cn, sg = T.cnarr(), T.segarr()
        for pos, op in enumerate(word):
            got = do(op, cn, sg)
            ctx.trace()
            if not same(fresh[op], got):
                ctx.violation(
                    "segment statistics and bin tests of a bin table are those of its bins, whatever was computed from the same table objects before",
                    f"history/{op}/" + ("first-call" if pos == 0 else "after-" + word[0]),
                    expected=fresh[op],
                    observed=got,
                    sub={**sub, "table": T.spec, "history": list(word[: pos + 1])},
                )
                break
        ctx.state(("history", T.spec, word), nontrivial=True)
    ctx.stratum("history: two operations on one pair of table objects")


# (geometry, weight pattern, segment-log2 mode); weight 1 everywhere only with the shifted level (else 0/0 for most words)
BT_COMBOS = [
    ("abut", "cycle", "shift"),
    ("abut", "cycle", "wmean"),
    ("abut", "cycle", "zero"),
    ("abut", "half", "shift"),
    ("abut", "cycle2", "wmean"),
    ("abut", "ones", "shift"),
    ("gaps", "cycle", "shift"),
    ("abut", "ones", "tiny"),  # weight exactly 1 and a residual of a thousandth: z is still infinite, p = 0, the bin is a hit
]
BT_COMBOS_LONG = [("abut", "cycle", "shift"), ("abut", "cycle2", "wmean"), ("gaps", "cycle", "zero")]


def run_bintest_layout(case, ctx, b):
    lay = case["layout"]
    long_ = max(n for _c, n in lay) > 5
    lim = b["bintest_own_alpha_bins"]
    for r in range(b["rotations"]):
        spec = layout_spec(lay, r)
        sub = {"layout": lay, "rotation": r}
        nb = sum(n for _c, n in lay)
        combos = BT_COMBOS_LONG if long_ else BT_COMBOS
        for geom, w, mode in combos:
            T = Table(spec, geom=geom, weights=w, mode=mode)
            check_bintest(ctx, T, False, lim, sub)
        T = Table(spec, weights="half", mode="shift", null=nb // 2)
        check_bintest(ctx, T, False, lim, sub)
        if not long_:
            for geom, w, mode in BT_COMBOS[:1] + BT_COMBOS[3:4]:
                check_history(ctx, Table(spec, geom=geom, weights=w, mode=mode), sub)
        for g, genes in enumerate(GENES[1:]):
            w, mode = (("cycle", "shift"), ("half", "wmean"), ("cycle2", "zero"))[(g + r) % 3]
            T = Table(spec, weights=w, mode=mode, genes=genes)
            for target_only in (True, False):
                check_bintest(ctx, T, target_only, lim, sub)
        T = Table(spec, weights="cycle", mode="shift", genes="targets", index="shifted")
        check_bintest(ctx, T, True, lim, sub)
    ctx.sample("bintest", {"layout": lay, "table": Table(layout_spec(lay, 0), weights="cycle", mode="shift", genes="mixed").spec})


MANIFEST = {
    "text": "Bounded-exhaustive exploration of the real segmetrics.do_segmetrics, bintest.do_bintest and bintest.p_adjust_bh: every "
    "p-vector over a 6-value alphabet up to the length bound (plus structured vectors of 50 and 200); every log2 word over a tie-rich "
    "alphabet as one segment's bins through all eleven statistics under three segment-level modes and two weight patterns; every layout "
    "of up to three segments of 0-5 bins (40, 300 in the thorough tier) on up to two chromosomes under four bin geometries, a "
    "null-coverage bin at every position, skip_low on/off and two row indexes; every subset and ordered pair of the spread "
    "statistics; alpha x bootstraps x smoothed with each run repeated under another global RNG state; bintest over the same layouts x "
    "weights x gene patterns x target_only x alpha, including alpha equal to each adjusted p-value it reported. Every result is "
    "compared with textbook formulas evaluated on the bins that overlap the segment. Exhaustive inside the stated bound, nothing sampled.",
    "note": "Trusted: pandas/numpy, the CopyNumArray constructor as table builder, scipy's Student t tail, the reference models "
    "(models/segstats.py, models/stats.py; second formulations in selftest/segstats.py), descriptives.biweight_location as the centre of "
    "the midvariance (verified by C19). Not covered: the CLI wrappers, the 'mode' statistic, bins outside every segment in bintest, "
    "the numerical content of the bootstrap interval beyond ordering / range / reproducibility, the range clause for the smoothed "
    "bootstrap with weights below 1 (noise is added by design).",
    "technique": "explicit-state enumeration of bin tables, segmentations, statistic subsets and configurations on the real code, "
    "independent textbook reference model as oracle; stateless enumeration of all two-operation histories (bintest, segmetrics) on shared table objects, differential oracle",
}

"""C14 - segment filters merge only adjacent like segments and conserve what they merge.

E1: every segment table of the bound (chromosome layouts x every word of level symbols x weight / gap /
probe variations x default and non-default row index) through segfilters.cn / ci / sem / ampdel.
E2: every ordered filter list through do_call(filters=[...]); the list is replayed step by step
(ci/sem on the input, calling, the rest in the given order), every step is compared with the model and the
do_call result with the stepwise result.
Oracle: models/filters.py (run-length merging; conservation clauses evaluated separately).
"""
import atexit
import itertools
import math
import os
import shutil
import tempfile

from checks.common import np, pd
from mc.engine import Exc
from models import filters as M

from cnvlib import commands as CMD  # noqa: E402
from cnvlib import segfilters  # noqa: E402  (after checks.common bound the tree under test)
from cnvlib.call import do_call  # noqa: E402
from cnvlib.cnary import CopyNumArray as CNA  # noqa: E402

ID = "C14"
BUDGET = {"quick": 900, "thorough": 5400}
CASE_TIMEOUT = 900

CHROMS = ["chr2", "chr10", "chr11"]  # table order (genomic) differs from the order of the names as strings
W_DEFAULT = [2.0, 0.5, 1.0, 0.5, 2.0, 1.0]
P_DEFAULT = [5, 1, 3, 1, 5, 2]
P_ALT = [1, 1, 1, 1, 1, 1]
L_DEFAULT = [-0.3, 0.4, 1.4, -1.2, 0.0, 0.7]
LENGTHS = [100, 150, 200]
WEIGHTS = [2.0, 0.0, 0.5]
GAPS = [0, 100]

# ---- level symbols -------------------------------------------------------------------------------
# cn / ampdel: cn;  allelic: (cn, cn1) with cn1 = None for missing (cn2 = cn - cn1)
# ci: (ci_lo, ci_hi);  sem: (log2, sem);  chain: name -> (log2, ci half width, sem)
ALPHA = {
    "cn": {"full": [2, 3, 0, 1, 5, 7], "small": [2, 3, 0, 5], "struct": [2, 3]},
    "ampdel": {"full": [2, 5, 0, 7, 1, 4], "small": [2, 5, 0, 7], "struct": [0, 5]},
    "cn-allelic": {
        "full": [(2, 1), (2, None), (2, 2), (3, 2), (3, None), (3, 3), (0, 0)],
        "small": [(2, 1), (2, None), (2, 2), (3, 2)],
    },
    "ampdel-allelic": {
        "full": [(2, 1), (5, 3), (5, None), (5, 5), (7, 4), (0, 0)],
        "small": [(2, 1), (5, 3), (5, None), (7, 4)],
    },
    "ci": {
        "full": [(-0.5, 0.5), (0.1, 0.9), (-0.9, -0.1), (1.0, 2.0), (-2.0, -1.0), (-0.1, 2.0), (0.0, 0.8), (-0.8, 0.0)],
        "small": [(-0.5, 0.5), (0.1, 0.9), (1.0, 2.0), (-0.9, -0.1)],
        "struct": [(-0.5, 0.5), (0.1, 0.9)],
    },
    "sem": {
        "full": [(0.4, 0.5), (0.4, 0.1), (-0.3, 0.1), (1.4, 0.5), (-1.2, 0.5), (-0.3, 0.2), (0.4, 0.0), (0.0, 0.1), (0.0, 0.0)],
        "small": [(0.4, 0.5), (0.4, 0.1), (1.4, 0.5), (-0.3, 0.1)],
        "struct": [(0.4, 0.5), (0.4, 0.1), (1.4, 0.5)],
    },
}
DIRECT_KINDS = ["cn", "ampdel", "ci", "sem", "cn-allelic", "ampdel-allelic"]
FILTER_OF = {"cn": "cn", "ampdel": "ampdel", "ci": "ci", "sem": "sem", "cn-allelic": "cn", "ampdel-allelic": "ampdel"}

# chain symbols: (log2, ci_lo, ci_hi, sem).  threshold cn: D 0, L 1, N 2, G 3, A 6, H 8; clonal: 0, 2, 2, 3, 5, 8.
# ci level / sem level: D below/below, L neutral/neutral, N neutral/neutral, G above/neutral, A above/above, H neutral/neutral
CHAIN = {
    "N": (0.0, -0.1, 0.1, 0.02),
    "A": (1.4, 1.3, 1.5, 0.02),
    "D": (-3.0, -3.1, -2.9, 0.02),
    "G": (0.4, 0.3, 0.5, 3.0),
    "H": (2.0, -3.0, 7.0, 3.0),
    "L": (-0.3, -5.3, 4.7, 3.0),
}
CHAIN_ALPHA = {"full": ["N", "A", "D", "G", "H", "L"], "mid": ["N", "A", "D", "G", "H"], "small": ["N", "A", "D", "G"]}
BAF_ALPHA = [("N", 0.5), ("N", None), ("N", 1.0), ("A", 0.5), ("A", None), ("A", 1.0)]

BASES = [[], ["cn"], ["ampdel"], ["cn", "ampdel"], ["ampdel", "cn"]]


def main_lists():
    return [([pre] if pre else []) + base for pre in (None, "ci", "sem") for base in BASES]


def placement_lists():
    out = []
    for pre in ("ci", "sem"):
        for base in BASES[1:]:
            for pos in range(1, len(base) + 1):
                out.append(base[:pos] + [pre] + base[pos:])
    return out


NONE_LISTS = [["ci"], ["sem"]]
NONE_OPEN_LISTS = [["cn"], ["ampdel"], ["ci", "cn"]]
SHIFTED_LISTS = [["ci"], ["sem"], ["cn"], ["ampdel"], ["ci", "cn", "ampdel"], ["sem", "ampdel", "cn"]]
BAF_LISTS = [["cn"], ["ampdel"], ["cn", "ampdel"], ["ampdel", "cn"], ["ci", "cn"]]


def compositions(n, maxparts):
    """Chromosome layouts: n segments over 1..maxparts chromosomes, fewest chromosomes first."""
    out = []
    for k in range(1, min(n, maxparts) + 1):
        for cuts in itertools.combinations(range(1, n), k - 1):
            edges = (0,) + cuts + (n,)
            out.append([edges[i + 1] - edges[i] for i in range(k)])
    return out


# ---- bounds per tier -----------------------------------------------------------------------------
def bounds(tier):
    if tier == "thorough":
        return {
            "maxchrom": 3,
            "levels_full_n": 4,
            "levels_small_n": 5,
            "shifted": [("full", 1, 3), ("small", 4, 4)],
            "weights_all_layouts_n": 4,
            "weights_single_n": 5,
            "gaps_n": 5,
            "chain": {1: ("full", "all"), 2: ("full", "all"), 3: ("full", "all"), 4: ("small", "all")},
            "chain_all_lists": True,
            "chain_side_n": 3,
            "baf_layouts": [[1], [2], [1, 1], [3], [1, 2], [2, 1], [1, 1, 1]],
            "baf_methods": ["threshold", "clonal"],
        }
    return {
        "maxchrom": 2,
        "levels_full_n": 3,
        "levels_small_n": 4,
        "shifted": [("small", 1, 3)],
        "weights_all_layouts_n": 3,
        "weights_single_n": 4,
        "gaps_n": 4,
        "chain": {1: ("full", "main-both"), 2: ("full", "main-both"), 3: ("mid", "main")},
        "chain_all_lists": False,
        "chain_side_n": 2,
        "baf_layouts": [[1], [2], [1, 1], [3]],
        "baf_methods": ["threshold"],
    }


def describe(tier):
    b = bounds(tier)
    return {
        "rule": "E1: every segment table = chromosome layout (n segments over 1..maxchrom chromosomes, every composition) x every word of "
        "level symbols of the filter's alphabet, weights / probes / log2 / gaps on a fixed varied pattern ('levels'); run-structure words x every "
        "weight word over {2, 0, 0.5} ('weights'); run-structure words x every gap word over {0, 100} x 2 probe patterns ('gaps'); "
        "the level words again on a table whose index labels are 1..n (first row of a longer table dropped); each table through the "
        "real segfilters.<filter>. E2: every chain table x calling method x ordered filter list through do_call(filters=list) and, "
        "step by step, through ci/sem -> do_call(filters=None) -> remaining filters in list order; every step compared with the model on the "
        "implementation's own previous state, the do_call result with the stepwise result. state = (table, index variant[, method, list]); "
        "non-trivial = the model merges or drops at least one row",
        "bound": {
            "chromosomes": "1..%d" % b["maxchrom"],
            "levels": "full alphabet up to %d segments in total, small (4-symbol) alphabet at %d" % (b["levels_full_n"], b["levels_small_n"]),
            "nondefault_index": ", ".join("%s alphabet for %d..%d segments" % a for a in b["shifted"]),
            "weights": "all layouts up to %d segments, single chromosome at %d; struct alphabet x {2,0,0.5}^n" % (b["weights_all_layouts_n"], b["weights_single_n"]),
            "gaps": "all layouts up to %d segments; struct alphabet x {0,100}^(inner boundaries) x 2 probe patterns" % b["gaps_n"],
            "chain": "; ".join(
                "%d segments: %d-symbol alphabet, %s"
                % (
                    n,
                    len(CHAIN_ALPHA[a]),
                    {
                        "all": "all 27 ordered lists x {threshold, clonal}",
                        "main-both": "the 15 lists with ci/sem first x {threshold, clonal}",
                        "main": "the 15 lists with ci/sem first, threshold",
                    }[w],
                )
                for n, (a, w) in sorted(b["chain"].items())
            )
            + (
                ""
                if b["chain_all_lists"]
                else "; the 12 lists with ci/sem placed later (threshold; 6 of them clonal) on tables of <= %d segments" % b["chain_side_n"]
            )
            + "; method none and the non-default index (6 lists) on tables of <= %d segments" % b["chain_side_n"],
            "chain_baf": "layouts %s, 6 (log2, baf) symbols incl. missing baf, 5 lists, methods %s" % (b["baf_layouts"], b["baf_methods"]),
            "history": "one table object through every word of %s do_call(filters=list) calls over 7 lists (none, cn, ampdel, ci, sem, ci+cn, cn+ampdel), (log2, baf) tables with layouts %s; "
            "`call --filter` command lines: every word of 2 commands over 7 option sets in one process, layouts %s; methods %s"
            % (("2 and 3" if tier == "thorough" else "2"), ("[1],[2],[1,1],[3]" if tier == "thorough" else "[1],[2],[1,1]"), ("[1],[2],[1,1]" if tier == "thorough" else "[1],[2]"), b["baf_methods"]),
        },
        "alphabet": {
            "direct": {k: {a: [list(s) if isinstance(s, tuple) else s for s in v] for a, v in d.items()} for k, d in ALPHA.items()},
            "chain": {k: list(v) for k, v in CHAIN.items()},
            "chain_baf": [list(s) for s in BAF_ALPHA],
            "weights_default": W_DEFAULT,
            "probes": [P_DEFAULT, P_ALT],
            "log2_default": L_DEFAULT,
            "segment_lengths": LENGTHS,
            "lists_main": main_lists(),
            "lists_placement": placement_lists(),
        },
        "assumptions": [
            "do_call(filters=None) on the (ci/sem-filtered) table is taken as the called, pre-filter table (DESIGN section 4 rule 6; verified by C01/C02)",
            "in the stepwise replay each step's input is the implementation's own previous state, so values the statement leaves open "
            "(baf and cn of a merged run) are carried, not modelled",
            "left open: log2 of a run whose weights sum to 0 (a weighted average is undefined); cn of a merged ampdel run; whether a CI "
            "touching 0 counts as straddling; whether ampdel/ci/sem additionally split on allele-specific cn when cn1/cn2 columns exist",
            "a missing allele-specific cn equals only another missing one",
            "tables are sorted, non-overlapping, chromosomes contiguous, index labels unique (do_call itself resets duplicated labels)",
            "method='none' with a cn-based filter is only observed (the statement does not say it must refuse)",
            "that do_call leaves the caller's filter list alone is C10's business: a fresh list is passed to every call",
            "history scopes: the answer for a fresh copy of the table (checked against the model in the chain scope) is the expected answer on a reused table object / in a reused process; "
            "command-line results are compared to 1e-5 relative (files hold 6 significant digits)",
        ],
    }


# ---- table builders ------------------------------------------------------------------------------
def coordinates(layout, gaps=None):
    out = []
    k = b = 0
    for ci, n in enumerate(layout):
        pos = 0
        for s in range(n):
            length = LENGTHS[k % 3]
            out.append((CHROMS[ci], pos, pos + length))
            if s < n - 1:
                gap = gaps[b] if gaps is not None else GAPS[b % 2]
                b += 1
                pos += length + gap
            k += 1
    return out


def make_rows(kind, layout, syms, weights=None, probes=None, gaps=None):
    rows = []
    for k, ((chrom, start, end), sym) in enumerate(zip(coordinates(layout, gaps), syms)):
        r = {
            "chromosome": chrom,
            "start": start,
            "end": end,
            "gene": "g%d" % k,
            "log2": L_DEFAULT[k % 6],
            "probes": (probes or P_DEFAULT)[k % 6],
            "weight": weights[k] if weights is not None else W_DEFAULT[k % 6],
        }
        if kind in ("cn", "ampdel"):
            r["cn"] = sym
        elif kind in ("cn-allelic", "ampdel-allelic"):
            cn, cn1 = sym
            r["baf"] = None if cn1 is None else (cn1 / cn if cn else 0.5)
            r["cn"] = cn
            r["cn1"] = cn1
            r["cn2"] = None if cn1 is None else cn - cn1
        elif kind == "ci":
            r["ci_lo"], r["ci_hi"] = sym
            r["sem"] = 0.01
        elif kind == "sem":
            r["log2"], r["sem"] = sym
            r["ci_lo"], r["ci_hi"] = -0.5, 0.5
        elif kind == "chain":
            r["log2"], r["ci_lo"], r["ci_hi"], r["sem"] = CHAIN[sym]
        elif kind == "chain-baf":
            r["log2"], r["ci_lo"], r["ci_hi"], r["sem"] = CHAIN[sym[0]]
            r["baf"] = sym[1]
        else:
            raise ValueError(kind)
        rows.append(r)
    return rows


INT_COLS = ("start", "end", "probes", "cn")
ALLELE_COLS = ("cn1", "cn2")


def to_frame(rows, index):
    """pandas table for the rows; index 'shifted' = labels 1..n (a longer table whose first row was dropped)."""
    src = ([dict(rows[0])] + rows) if index == "shifted" else rows
    cols = {}
    for c in src[0]:
        vals = [r[c] for r in src]
        if c in INT_COLS:
            cols[c] = np.array(vals, dtype=np.int64)
        elif c in ALLELE_COLS:
            if any(v is None for v in vals):
                cols[c] = np.array([np.nan if v is None else v for v in vals], dtype=np.float64)
            else:
                cols[c] = np.array(vals, dtype=np.int64)
        elif c in ("chromosome", "gene"):
            cols[c] = vals
        else:
            cols[c] = np.array([np.nan if v is None else v for v in vals], dtype=np.float64)
    df = pd.DataFrame(cols)
    if index == "shifted":
        df = df.iloc[1:]
    return df


def fresh(df, meta=None):
    return CNA(df.copy(), meta)


READ_NEED = ("chromosome", "start", "end", "log2", "probes", "weight")
READ_OPT = ("cn", "cn1", "cn2", "ci_lo", "ci_hi", "sem")


def read_rows(cna):
    """Rows of an implementation table as dicts (NaN -> None); a str if a promised column is absent."""
    df = cna.data
    for c in READ_NEED:
        if c not in df.columns:
            return "column %r missing from the result" % c
    names = [c for c in READ_NEED + READ_OPT if c in df.columns]
    cols = {c: df[c].tolist() for c in names}
    out = []
    for i in range(len(df)):
        r = {}
        for c in names:
            v = cols[c][i]
            if isinstance(v, float) and math.isnan(v):
                v = None
            r[c] = v
        out.append(r)
    return out


def index_kind(df):
    return "default-index" if list(df.index) == list(range(len(df))) else "nondefault-index"


def feature(rows, idx):
    if not rows:
        return idx + "/empty-table"
    if "cn1" not in rows[0]:
        return idx + "/plain"
    beside = any(a["chromosome"] == b["chromosome"] and (a["cn1"] is None) != (b["cn1"] is None) for a, b in zip(rows, rows[1:]))
    return idx + ("/allelic-missing-beside-known" if beside else "/allelic")


def public(rows):
    """Row dicts for a violation record (drop the gene names)."""
    return [{k: v for k, v in r.items() if k != "gene"} for r in rows]


# ---- one filter execution against both formulations of the model ---------------------------------
# finding-key groups: which rows were merged / the conserved totals / the values of a correctly delimited segment
KEY_GROUP = {
    "rows": "merged-rows",
    "one-level-per-output": "merged-rows",
    "covers-each-input-once": "merged-rows",
    "neighbours-differ": "merged-rows",
    "edges": "merged-rows",
    "total-probes": "conserved-totals",
    "total-weight": "conserved-totals",
    "span": "conserved-totals",
    "probes": "segment-probes",
    "weight": "segment-weight",
    "log2": "segment-log2",
    "level": "segment-cn",
}

def is_segment_table(rows):
    """Sorted, pairwise disjoint within a chromosome, each chromosome in one block, start < end."""
    seen = set()
    for i, r in enumerate(rows):
        if not r["start"] < r["end"]:
            return False
        if i and rows[i - 1]["chromosome"] == r["chromosome"]:
            if rows[i - 1]["end"] > r["start"]:
                return False
        else:
            if r["chromosome"] in seen:
                return False
            seen.add(r["chromosome"])
    return True


def check_filter(ctx, op, filt, in_rows, got, feat, sub):
    """Compare one execution of filter `filt` on `in_rows` with the model.  Returns (ok, nontrivial)."""
    if isinstance(got, Exc):
        ctx.violation(
            "the filter returns a filtered table for every in-scope segment table",
            f"{op}/{feat}/raises/{got.key}",
            expected="a table",
            observed=got,
            sub=sub,
        )
        return False, False
    out = read_rows(got)
    if isinstance(out, str):
        ctx.violation("the filtered table has coordinates, log2, probes and weight", f"{op}/{feat}/columns", expected=list(READ_NEED), observed=out, sub=sub)
        return False, False
    ctx.trace()
    ctx.outcome([[o[c] for c in READ_NEED] + [o.get("cn"), o.get("cn1")] for o in out])
    if not is_segment_table(in_rows):
        # an intermediate table of a filter chain that is no longer sorted and disjoint (the step that produced it
        # has been reported); the model is defined on segment tables only, so the chain stops here
        ctx.stratum("chain-stopped/intermediate-not-a-segment-table")
        return False, False
    best = None
    for lv in M.level_alternatives(filt, in_rows):
        model_out = M.apply(filt, in_rows, lv)
        own = M.clauses(filt, in_rows, lv, model_out)
        if own:  # the two formulations of the model disagree: a harness bug, never a finding
            raise AssertionError("C14 model inconsistent: %r on %r" % (own, in_rows))
        fails = M.compare(filt, in_rows, lv, out) + M.clauses(filt, in_rows, lv, out)
        if best is None or len(fails) < len(best[1]):
            best = (lv, fails, model_out)
        if not fails:
            break
    lv, fails, model_out = best
    for cid, text, exp, obs in fails:
        ctx.violation(text, f"{op}/{feat}/{KEY_GROUP[cid]}", expected=exp, observed=obs, sub={**sub, "clause_id": cid})
    strata(ctx, filt, in_rows, lv, model_out, feat)
    return True, len(model_out) != len(in_rows)


def strata(ctx, filt, rows, lv, model_out, feat):
    s = ctx.stratum
    s(f"{filt}/{feat.split('/')[0]}")
    if not rows:
        s(f"{filt}/empty-input")
        return
    if len(M.level_alternatives(filt, rows)) > 1:
        s(f"{filt}/open-reading(touching-zero-or-allelic)")
    merged = False
    for i, j in M.runs(rows, lv):
        part = rows[i : j + 1]
        if j > i:
            merged = True
            if any(a["end"] != b["start"] for a, b in zip(part, part[1:])):
                s(f"{filt}/run-spans-gap")
            w = [r["weight"] for r in part]
            if sum(w) == 0:
                s(f"{filt}/all-zero-weight-run(log2-open)")
            elif 0 in w:
                s(f"{filt}/zero-weight-row-in-run")
            if filt in ("ampdel", "ci", "sem") and len({(r.get("cn"), r.get("ci_lo"), r.get("sem")) for r in part}) > 1:
                s(f"{filt}/run-of-different-values-same-level")
            if filt == "cn" and "cn1" in part[0] and part[0]["cn1"] is None:
                s("cn/run-of-missing-allelic")
    s(f"{filt}/{'merges' if merged else 'nothing-to-merge'}")
    for a, b, la, lb in zip(rows, rows[1:], lv, lv[1:]):
        if a["chromosome"] != b["chromosome"] and la == lb:
            s(f"{filt}/same-level-across-chromosome-boundary")
            break
    if filt == "cn" and "cn1" in rows[0]:
        for a, b in zip(rows, rows[1:]):
            if a["chromosome"] == b["chromosome"] and a["cn"] == b["cn"] and (a["cn1"] is None) != (b["cn1"] is None):
                s("cn/missing-beside-known-same-cn")
                break
    if filt == "ampdel":
        if len(model_out) == 0:
            s("ampdel/everything-dropped")
        elif any(not M.keeps(filt, x) for x in lv):
            s("ampdel/neutral-run-dropped")


# ---- E1: direct calls ----------------------------------------------------------------------------
def words(symbols, n, prefix):
    prefix = list(prefix or [])
    for rest in itertools.product(range(len(symbols)), repeat=n - len(prefix)):
        yield [symbols[i] for i in prefix + list(rest)]


def run_direct_table(ctx, kind, rows, index, part):
    filt = FILTER_OF[kind]
    df = to_frame(rows, index)
    feat = feature(rows, index_kind(df))
    got = ctx.call(getattr(segfilters, filt), fresh(df))
    sub = {"filter": filt, "index_labels": [int(x) for x in df.index], "table": public(rows)}
    ok, nontrivial = check_filter(ctx, filt, filt, rows, got, feat, sub)
    ctx.state((part, kind, index, [[r[c] for c in r if c != "gene"] for r in rows]), nontrivial=nontrivial)
    return sub


def run_levels(case, ctx):
    kind, layout = case["kind"], case["layout"]
    n = sum(layout)
    sub = None
    for syms in words(ALPHA[kind][case["alpha"]], n, case.get("prefix")):
        rows = make_rows(kind, layout, syms)
        sub = run_direct_table(ctx, kind, rows, case["index"], "levels")
    ctx.sample("levels-" + kind + "-" + case["index"], sub)


def run_weights(case, ctx):
    kind, layout = case["kind"], case["layout"]
    n = sum(layout)
    pre = case.get("prefix")
    sub = None
    for syms in words(ALPHA[kind]["struct"], n, pre and pre[:1]):
        for w in words(WEIGHTS, n, pre and pre[1:]):
            rows = make_rows(kind, layout, syms, weights=w)
            sub = run_direct_table(ctx, kind, rows, "default", "weights")
    ctx.sample("weights-" + kind, sub)


def run_gaps(case, ctx):
    kind, layout = case["kind"], case["layout"]
    n = sum(layout)
    sub = None
    for syms in words(ALPHA[kind]["struct"], n, None):
        for g in itertools.product(GAPS, repeat=n - len(layout)):
            for probes in (P_DEFAULT, P_ALT):
                rows = make_rows(kind, layout, syms, probes=probes, gaps=list(g))
                sub = run_direct_table(ctx, kind, rows, "default", "gaps")
    ctx.sample("gaps-" + kind, sub)


# ---- E2: filter lists through do_call -------------------------------------------------------------
def split_list(flist):
    pre = [f for f in flist if f in ("ci", "sem")]
    rest = [f for f in flist if f not in ("ci", "sem")]
    return (pre[0] if pre else None), rest


class Chain:
    """Stepwise replay of a filter list; every filter step is checked against the model once."""

    def __init__(self, ctx, df0, method, sub):
        self.ctx, self.df0, self.method, self.sub = ctx, df0, method, sub
        self.cache = {(): fresh(df0)}

    def state(self, path):
        """Implementation table after the steps in `path`, or None if a step failed to return a table."""
        path = tuple(path)
        if path in self.cache:
            return self.cache[path]
        prev = self.state(path[:-1])
        step = path[-1]
        st = None
        if prev is not None:
            arg = fresh(prev.data, prev.meta)
            if step == "call":
                got = self.ctx.call(do_call, arg, method=self.method)
                if isinstance(got, Exc):
                    self.ctx.violation(
                        "calling returns a table",
                        f"do_call-unfiltered/raises/{self.method}/{got.key}",
                        expected="a table",
                        observed=got,
                        sub={**self.sub, "path": list(path)},
                    )
                else:
                    st = got
            else:
                in_rows = read_rows(prev)
                if isinstance(in_rows, str):
                    raise AssertionError(in_rows)
                got = self.ctx.call(getattr(segfilters, step), arg)
                feat = feature(in_rows, index_kind(prev.data))
                sub = {**self.sub, "path": list(path), "step_input": in_rows, "index_labels": [int(x) for x in prev.data.index]}
                ok, _ = check_filter(self.ctx, step, step, in_rows, got, feat, sub)
                if ok:
                    st = got
                    if len(got) == 0:
                        self.ctx.stratum("chain/empty-intermediate-table")
        self.cache[path] = st
        return st


CMP_COLS = READ_NEED + ("cn", "cn1", "cn2")


def same_tables(a_rows, b_rows):
    if len(a_rows) != len(b_rows):
        return False
    for a, b in zip(a_rows, b_rows):
        for c in CMP_COLS:
            x, y = a.get(c), b.get(c)
            if isinstance(x, float) and isinstance(y, float):
                if not M.close(x, y):
                    return False
            elif x != y:
                return False
    return True


def run_chain_table(ctx, kind, rows, index, plan):
    """plan: list of (method, [filter lists])"""
    df0 = to_frame(rows, index)
    idx = index_kind(df0)
    base_sub = {"index_labels": [int(x) for x in df0.index], "table": public(rows)}
    for method, lists in plan:
        sub0 = {**base_sub, "method": method}
        chain = Chain(ctx, df0, method, sub0)
        for flist in lists:
            pre, rest = split_list(flist)
            sub = {**sub0, "filters": flist}
            got = ctx.call(do_call, fresh(df0), method=method, filters=list(flist))
            place = "no-ci-sem" if pre is None else ("ci-sem-first" if flist[0] == pre else "ci-sem-later")
            if method == "none" and rest:
                # open: the statement does not say what a cn-based filter does without calling
                ctx.stratum("none-method/cn-filter-" + ("refused" if isinstance(got, Exc) else "returned"))
                continue
            path = ([pre] if pre else []) + ["call"] + rest
            want = chain.state(path)
            ctx.stratum(f"do_call/{method}/{len(flist)}-filters/{place}")
            if want is None:
                continue  # a step failed and was reported there
            want_rows = read_rows(want)
            ctx.state(("chain", kind, index, method, flist, [[r[c] for c in r if c != "gene"] for r in rows]), nontrivial=len(want_rows) != len(rows))
            if isinstance(got, Exc):
                ctx.violation(
                    "do_call(filters=list) returns the filtered table",
                    f"do_call/raises/{method}/{place}/{idx}/{got.key}",
                    expected=want_rows,
                    observed=got,
                    sub=sub,
                )
                continue
            got_rows = read_rows(got)
            ctx.trace()
            ctx.outcome(["do_call", [[o.get(c) for c in CMP_COLS] for o in got_rows]] if not isinstance(got_rows, str) else got_rows)
            if isinstance(got_rows, str) or not same_tables(want_rows, got_rows):
                ctx.violation(
                    "do_call(filters=list) = ci/sem on the input, then calling, then the remaining filters in the order given",
                    f"do_call/equals-stepwise/{method}/{place}/{idx}",
                    expected=want_rows,
                    observed=got_rows,
                    sub=sub,
                )
            if rest[:2] == ["ampdel", "cn"]:
                a = chain.state(([pre] if pre else []) + ["call", "ampdel"])
                if a is not None and len(want_rows) < len(a):
                    ctx.stratum("chain/cn-after-ampdel-merges-across-dropped-run")
            if pre and len(rest) and want is not None:
                ctx.stratum("chain/ci-sem-then-call-then-cn-filters")
    return base_sub


def chain_plan(tier, which):
    b = bounds(tier)
    if which == "all":
        every = main_lists() + placement_lists()
        return [("threshold", every), ("clonal", every)]
    if which == "main-both":
        return [("threshold", main_lists()), ("clonal", main_lists())]
    if which == "main":
        return [("threshold", main_lists())]
    if which == "placement":
        return [("threshold", placement_lists()), ("clonal", placement_lists()[:3] + placement_lists()[6:9])]
    if which == "none":
        return [("none", NONE_LISTS + NONE_OPEN_LISTS)]
    if which == "shifted":
        return [("threshold", SHIFTED_LISTS), ("clonal", SHIFTED_LISTS[-2:])]
    if which == "baf":
        return [(m, BAF_LISTS) for m in b["baf_methods"]]
    raise ValueError(which)


def run_chain(case, ctx):
    kind, layout = case["kind"], case["layout"]
    n = sum(layout)
    symbols = BAF_ALPHA if kind == "chain-baf" else CHAIN_ALPHA[case["alpha"]]
    plan = chain_plan(case["tier"], case["which"])
    sub = None
    for syms in words(symbols, n, case.get("prefix")):
        rows = make_rows(kind, layout, syms)
        sub = run_chain_table(ctx, kind, rows, case["index"], plan)
    ctx.sample("chain-" + case["which"], sub)


# ---- enumeration ---------------------------------------------------------------------------------
def prefixes(nsym, n, split_from, depth=1):
    """Case prefixes: None (whole word space in one case) below `split_from` segments, else every
    prefix of `depth` symbol indices."""
    if n < split_from:
        return [None]
    return [list(p) for p in itertools.product(range(nsym), repeat=min(depth, n))]


def cases(tier):
    b = bounds(tier)
    t = tier == "thorough"
    nmax = max(b["levels_small_n"], b["weights_single_n"], b["gaps_n"], max(b["chain"]))
    for n in range(1, nmax + 1):
        lays = compositions(n, b["maxchrom"])
        # E1 levels, default index
        for kind in DIRECT_KINDS:
            alpha = "full" if n <= b["levels_full_n"] else ("small" if n <= b["levels_small_n"] else None)
            if alpha is None:
                continue
            nsym = len(ALPHA[kind][alpha])
            for layout in lays:
                for p in prefixes(nsym, n, 3, 2 if nsym ** n > 2000 else 1):
                    yield {"check": "levels", "kind": kind, "alpha": alpha, "layout": layout, "index": "default", "prefix": p}
        # E1 levels, non-default index
        for alpha, lo, hi in b["shifted"]:
            if not lo <= n <= hi:
                continue
            for kind in DIRECT_KINDS:
                nsym = len(ALPHA[kind][alpha])
                for layout in lays:
                    for p in prefixes(nsym, n, 3, 2 if nsym ** n > 2000 else 1):
                        yield {"check": "levels", "kind": kind, "alpha": alpha, "layout": layout, "index": "shifted", "prefix": p}
        # E1 weights
        for kind in ("cn", "ampdel", "ci", "sem"):
            ns = len(ALPHA[kind]["struct"])
            if ns == 3 and n > (4 if t else 3):
                continue
            for layout in lays:
                if n > b["weights_all_layouts_n"] and not (len(layout) == 1 and n <= b["weights_single_n"]):
                    continue
                for p in [None] if n < 3 else [[i, j] for i in range(ns) for j in range(len(WEIGHTS))]:
                    yield {"check": "weights", "kind": kind, "layout": layout, "prefix": p}
        # E1 gaps
        if n <= b["gaps_n"]:
            for kind in ("cn", "ampdel", "ci", "sem"):
                if len(ALPHA[kind]["struct"]) == 3 and n > 4:
                    continue
                for layout in lays:
                    yield {"check": "gaps", "kind": kind, "layout": layout}
        # E2 chains
        if n in b["chain"]:
            alpha, which = b["chain"][n]
            nsym = len(CHAIN_ALPHA[alpha])
            for layout in lays:
                for p in [None] if n == 1 else [list(q) for q in itertools.product(range(nsym), repeat=n - 1)]:
                    yield {"check": "chain", "which": which, "kind": "chain", "alpha": alpha, "layout": layout, "index": "default", "prefix": p, "tier": tier}
        if n <= b["chain_side_n"]:
            nsym = len(CHAIN_ALPHA["full"])
            for which, index in (("shifted", "shifted"), ("none", "default")) + ((("placement", "default"),) if not b["chain_all_lists"] else ()):
                for layout in lays:
                    for p in [None] if n == 1 else [list(q) for q in itertools.product(range(nsym), repeat=n - 1)]:
                        yield {"check": "chain", "which": which, "kind": "chain", "alpha": "full", "layout": layout, "index": index, "prefix": p, "tier": tier}
        for layout in b["baf_layouts"]:
            if sum(layout) != n:
                continue
            for p in [None] if n == 1 else [list(q) for q in itertools.product(range(len(BAF_ALPHA)), repeat=n - 1)]:
                yield {"check": "chain", "which": "baf", "kind": "chain-baf", "alpha": "full", "layout": layout, "index": "default", "prefix": p, "tier": tier}
    yield from history_cases(tier)


# ---- histories: the same table object, or the same process, used for more than one filter list -----------
HIST_LISTS = [[], ["cn"], ["ampdel"], ["ci"], ["sem"], ["ci", "cn"], ["cn", "ampdel"]]
CLI_LISTS = [[], ["cn"], ["ampdel"], ["ci"], ["sem"], ["ci", "cn"], ["ampdel", "cn"]]
_TMP = None


def tmpdir():
    global _TMP
    if _TMP is None:
        _TMP = tempfile.mkdtemp(prefix="c14_", dir="/tmp")
        atexit.register(shutil.rmtree, _TMP, True)
    return _TMP


def rows_match(a_rows, b_rows, rel):
    """Tables equal: same rows, integers and levels exact, floats to `rel` (a file holds 6 significant digits)."""
    if isinstance(a_rows, str) or isinstance(b_rows, str) or len(a_rows) != len(b_rows):
        return False
    for a, b in zip(a_rows, b_rows):
        for c in CMP_COLS:
            x, y = a.get(c), b.get(c)
            if x is None or y is None:
                if not (x is None and y is None):
                    return False
            elif isinstance(x, str) or isinstance(y, str):
                if x != y:
                    return False
            elif abs(float(x) - float(y)) > rel * max(1.0, abs(float(x)), abs(float(y))):
                return False
    return True


def run_history(case, ctx):
    """One table object handed to do_call several times with different filter lists: every answer must be the one a
    fresh copy of the table gets (the differential oracle; the fresh answers are what the chain scope checks against the model)."""
    layout, method, depth = case["layout"], case["method"], case["depth"]
    n = sum(layout)
    sub = None
    for syms in words(BAF_ALPHA, n, case.get("prefix")):
        rows = make_rows("chain-baf", layout, syms)
        df0 = to_frame(rows, "default")
        base = {}
        for i, fl in enumerate(HIST_LISTS):
            got = ctx.call(do_call, fresh(df0), method=method, filters=list(fl))
            base[i] = got if isinstance(got, Exc) else read_rows(got)
        for word in itertools.product(range(len(HIST_LISTS)), repeat=depth):
            shared = fresh(df0)
            sub = {"table": public(rows), "method": method, "history": [HIST_LISTS[i] for i in word]}
            for pos, i in enumerate(word):
                got = ctx.call(do_call, shared, method=method, filters=list(HIST_LISTS[i]))
                ctx.trace()
                want = base[i]
                if isinstance(want, Exc) or isinstance(got, Exc):
                    ok = isinstance(want, Exc) and isinstance(got, Exc)
                    obs = got
                else:
                    obs = read_rows(got)
                    ok = rows_match(want, obs, 1e-9)
                if not ok:
                    before = "+".join(sorted({"-".join(HIST_LISTS[j]) or "none" for j in word[:pos]})) or "nothing"
                    ctx.violation(
                        "do_call(filters=list) on a table gives the filtered table whatever was asked of the same table object before",
                        f"history/do_call/{method}/{'-'.join(HIST_LISTS[i]) or 'none'}/after:{before}",
                        expected=want,
                        observed=obs,
                        sub={**sub, "failing_call": pos},
                    )
                    break
            ctx.outcome(("history", [HIST_LISTS[i] for i in word], [len(base[i]) if not isinstance(base[i], (Exc, str)) else "refused" for i in word]))
            ctx.state(("history", method, layout, [list(x) for x in syms], word), nontrivial=len(set(word)) > 1)
        ctx.stratum(f"history/{method}/words of {depth} calls on one table object")
    ctx.sample("history", sub)


def cli_call(path, method, flist, out):
    if os.path.exists(out):
        os.remove(out)
    argv = ["call", path, "-m", method, "-o", out]
    for f in flist:
        argv += ["--filter", f]
    args = CMD.parse_args(argv)
    args.func(args)
    return CNA(pd.read_csv(out, sep="\t", dtype={"chromosome": str}), {"sample_id": "s"})


def run_cli_history(case, ctx):
    """`cnvkit.py call -m M --filter F ...` run several times in one process (parse_args + func, as the entry point does):
    each command line must apply exactly the filters it names; oracle = do_call(filters=list) through the API on a fresh table."""
    layout, method = case["layout"], case["method"]
    n = sum(layout)
    sub = None
    for syms in words(BAF_ALPHA, n, case.get("prefix")):
        rows = make_rows("chain-baf", layout, syms)
        df0 = to_frame(rows, "default")
        path = os.path.join(tmpdir(), "in.cns")
        out = os.path.join(tmpdir(), "out.cns")
        df0.to_csv(path, sep="\t", index=False, na_rep="")
        base = {}
        for i, fl in enumerate(CLI_LISTS):
            got = ctx.call(do_call, fresh(df0), method=method, filters=list(fl))
            base[i] = got if isinstance(got, Exc) else read_rows(got)
        for word in itertools.product(range(len(CLI_LISTS)), repeat=case["depth"]):
            sub = {"table": public(rows), "method": method, "command_lines": [CLI_LISTS[i] for i in word]}
            for pos, i in enumerate(word):
                got = ctx.call(cli_call, path, method, CLI_LISTS[i], out)
                ctx.trace()
                want = base[i]
                if isinstance(want, Exc) or isinstance(got, Exc):
                    ok = isinstance(want, Exc) and isinstance(got, Exc)
                    obs = got
                else:
                    obs = read_rows(got)
                    ok = rows_match(want, obs, 1e-5)
                if not ok:
                    ctx.violation(
                        "each `call --filter` command applies the filters it names (and no others), in one process as in many",
                        f"cli-history/call/{method}/{'-'.join(CLI_LISTS[i]) or 'none'}/" + ("first-command" if pos == 0 else "later-command"),
                        expected=want,
                        observed=obs,
                        sub={**sub, "failing_command": pos},
                    )
                    break
            ctx.outcome(("cli-history", [CLI_LISTS[i] for i in word], [len(base[i]) if not isinstance(base[i], (Exc, str)) else "refused" for i in word]))
            ctx.state(("cli-history", method, layout, [list(x) for x in syms], word), nontrivial=len(set(word)) > 1)
        ctx.stratum(f"cli-history/{method}/words of {case['depth']} command lines in one process")
    ctx.sample("cli-history", sub)


def history_cases(tier):
    t = tier == "thorough"
    for method in ("threshold", "clonal") if t else ("threshold",):
        for layout in ([1], [2], [1, 1], [3]) if t else ([1], [2], [1, 1]):
            n = sum(layout)
            for depth in (2, 3) if t else (2,):
                if depth == 3 and n > 2:
                    continue
                for p in [None] if n == 1 else [list(q) for q in itertools.product(range(len(BAF_ALPHA)), repeat=1)]:
                    yield {"check": "history", "method": method, "layout": layout, "depth": depth, "prefix": p}
        for layout in ([1], [2], [1, 1]) if t else ([1], [2]):
            n = sum(layout)
            for p in [None] if n == 1 else [list(q) for q in itertools.product(range(len(BAF_ALPHA)), repeat=1)]:
                yield {"check": "cli-history", "method": method, "layout": layout, "depth": 2, "prefix": p}


def run(case, ctx):
    c = case["check"]
    if c == "history":
        return run_history(case, ctx)
    if c == "cli-history":
        return run_cli_history(case, ctx)
    if c == "levels":
        run_levels(case, ctx)
    elif c == "weights":
        run_weights(case, ctx)
    elif c == "gaps":
        run_gaps(case, ctx)
    elif c == "chain":
        run_chain(case, ctx)
    else:
        raise ValueError(c)


MANIFEST = {
    "text": "Bounded-exhaustive exploration of the real segment filters: every small segment table (every chromosome layout x every word "
    "of filter-level symbols - copy numbers with allele-specific splits and missing values, confidence intervals above / below / "
    "straddling / touching zero, log2 and sem pairs, amplified / deleted / neutral - x zero and non-zero weight words x gap words, with the "
    "default and a non-default row index) through segfilters.cn / ci / sem / ampdel, and every ordered filter list x calling method through "
    "do_call, replayed step by step. Each execution is compared with a run-length reference model (first start, last end, summed probes "
    "and weight, weight-averaged log2) and, separately, with the conservation clauses (total probes, total weight, per-chromosome span, "
    "one level per output, every input covered once, neighbours differ). Exhaustive inside the stated bound, nothing sampled.",
    "note": "Trusted: pandas/numpy, the CopyNumArray constructor as table builder, do_call(filters=None) as the called table (C01/C02), the "
    "reference model (constructive and clause-wise formulations cross-checked on every case). Left open as the statement does: log2 of "
    "zero-weight runs, cn of a merged ampdel run, CI touching zero, allele-aware splitting by ampdel/ci/sem. Not covered: tables beyond the "
    "bound (the statement's 6 chromosomes x 30 segments), unsorted or overlapping tables, purity rescaling and VCF input before filtering.",
    "technique": "exhaustive enumeration of segment tables and ordered filter lists on the real code against a run-length reference model and "
    "separately evaluated conservation clauses; stateless enumeration of all call histories of depth 2 (thorough 3) on one table object and of all pairs of `call --filter` "
    "command lines in one process, differential oracle (fresh-object answer)",
}

"""C05 - the pooled reference is the robust per-bin consensus in the chosen reference sex; flat reference; gc/rmask.

E1.  Every cohort configuration inside the stated bound is written as .cnn / BED / FASTA files into a per-case
temp directory, the real `do_reference` / `do_reference_flat` / `get_fasta_stats` / `calculate_gc_lo` run on it,
and every bin of the result is compared with models/refbuild.py:

  pooled      genome A (3 autosomes + X + Y), corrections off: exact oracle per bin (centre each file on the median
              of its autosomes' medians, express sex chromosomes in the reference sex, biweight location / midvariance
              over {neutral pseudo-sample} + samples), plus the statement's consequences (depth-only cohorts, sex mixes)
  reject      one coverage file whose bins differ (start / end / chromosome / missing row / extra row): must raise
  corrected   genome B (10 % sex-chromosome share, FASTA), every subset of {gc, edge, rmask}: semantic clauses only
  flat        do_reference_flat over naming x reference sex x chromosome sets x antitarget x FASTA
  gc-strings  calculate_gc_lo on every string over the alphabet up to the length bound
  gc-fasta    get_fasta_stats on every bin [s, e) of every record of small FASTA files at several line widths
"""
import itertools
import math
import os
import shutil
import statistics
import tempfile

from checks.common import np, pd  # noqa: F401  (binds the tree under test first)
from cnvlib import read as cnvlib_read
from cnvlib import reference as R
from cnvlib.cnary import CopyNumArray as CNA
from mc.engine import Exc
from models import refbuild as RB

ID = "C05"
BUDGET = {"quick": 900, "thorough": 5400}
CASE_TIMEOUT = 900

TOL = 1e-9
TOL_ITER = 1e-6
SEM_TOL = 0.05  # sex-chromosome levels (statement: "lies 1.0 below", noise alphabet sd <= 0.05)
NEAR0 = 1e-3  # "spread ~ 0" / "reproduce their common profile": the estimators' own documented resolution

DEPTHS = (1.0, 0.5, 3.0)
NOISE_SD = 0.05
ANTI_MODES = ("none", "present", "empty-header", "empty-blank")
ORDERS = ("given", "rev-targets")
NAMINGS = ("chr", "bare", "chr+spike")  # the third: chr-style names plus one unprefixed spike-in sequence (sorts last)
SPIKE = "phiX174"
SPIKE_ENTRY = (SPIKE, 6, 3, 0.2, -0.1)
SEX_MODES = ("inferred", "given-female", "given-male")
REJECT_KINDS = ("start+1", "end+1", "chrom-renamed", "row-dropped", "row-added")
CORRECTIONS = ("gc", "edge", "rmask")

# genome A: (name, target bins, antitarget bins, target chromosome offset, antitarget chromosome offset)
GENOME_A = (("1", 30, 12, 0.30, -0.15), ("2", 18, 9, -0.10, 0.25), ("3", 12, 7, 0.05, 0.05), ("X", 45, 40, 0.05, 0.05), ("Y", 8, 4, 0.05, 0.05))
# genome B: (name, target bins, antitarget bins); sex share 50/500 targets, 44/434 antitargets
GENOME_B = (("1", 150, 130), ("2", 150, 130), ("3", 150, 130), ("X", 40, 40), ("Y", 10, 4))
COHORTS_B = {"FF": (0, 0), "MM": (1, 1), "FM": (0, 1), "FFM": (0, 0, 1), "FF-depth": (0, 0), "MM-depth": (1, 1), "MFM": (1, 0, 1)}

GC_ALPHABET_Q = "AcGtNn"
GC_ALPHABET_EXTRA = "AcGtNnCaRy"
FASTA_WIDTHS = (5, 8, 24, 60)
FASTA_CONTENTS = (  # 24 bases each; two records per file (second = reversed, other naming style)
    "ACGTacgtNNnnGGCCaattACGT",
    "NNNNNNNNacgtacgtACGTACGT",
    "GGGGGGGGGGGGccccccccccccc"[:24],
    "aAtTcCgGnNaAtTcCgGnNaAtT",
    "ATATATATATATATATATATATAT",
    "nnnnnnnnnnnnNNNNNNNNNNNN",
    "ACGTRYacgtryNNSWGGCCkmaa",  # IUPAC codes other than N: ambiguous, counted nowhere
)


# --------------------------------------------------------------------------------------------
def describe(tier):
    t = tier == "thorough"
    return {
        "rule": "pooled: every cohort configuration (k samples x every sex assignment x depth/noise x naming x antitarget files x "
        "file order) inside the deviation bound x reference sex {female, male} x sexes {inferred, given female, given male} through "
        "do_reference with corrections off; every output bin compared with the independent model. reject: every (file, kind of bin "
        "difference). corrected: every cohort x antitarget x reference sex x subset of corrections on genome B. flat: full product. "
        "gc: every string / every bin. state = canonical (configuration, reference sex, sex mode); non-trivial = a sex shift is "
        "applied to some sample or the cohort has >= 2 samples (pooled), the string has an unambiguous base (gc)",
        "bound": {
            "pooled": (
                "k = 1..5: all 2^k sex assignments x <= 2 deviations from the default configuration; k = 6: <= 1 deviation; k = 7, 8: "
                "default, clean, antitargets present; k <= 3: full product of the depth scales"
                if t
                else "k = 1..4: all 2^k sex assignments x <= 1 deviation from the default configuration; k <= 2: full product of "
                "naming x antitarget mode x order x {noisy, clean}"
            ),
            "default_configuration": "all depth scales 1, noise sd 0.05, chr naming, no antitarget files, files in sample order",
            "dimensions": {
                "depth/noise": "noisy | clean (sd 0: samples differ only in depth and sex) x {all 1 | one sample at 0.5 | one sample at 3}",
                "naming": list(NAMINGS),
                "antitarget": list(ANTI_MODES),
                "order": list(ORDERS),
            },
            "genome_A": "chr1 30 / chr2 18 / chr3 12 / chrX 45 / chrY 8 target bins; 12 / 9 / 7 / 40 / 4 antitarget bins",
            "reject": "k = 2, 3" + (", 4" if t else "") + " x every file position x 5 kinds x {target, antitarget} block",
            "corrected": "genome B (chr1-3 150 target + 130 antitarget bins each, chrX 40 + 40, chrY 10 + 4), cohorts "
            + ", ".join(COHORTS_B if t else [c for c in COHORTS_B if c != "MFM"])
            + " x antitarget {none, present} x reference sex x 8 correction subsets, noise sd 0.02",
            "flat": "naming x reference sex x chromosome sets {auto+X+Y, auto+X, auto, X+Y first} x antitarget {none, present, empty} x FASTA {no, yes}",
            "gc_strings": ("length <= 7 over 'AcGtNn' and length <= 5 over 'AcGtNnCaRy'" if t else "length <= 6 over 'AcGtNn' and length <= 4 over 'AcGtNnCaRy'"),
            "gc_fasta": "6 contents x 4 line widths x 2 records x every [s, e) with 0 <= s < e <= 24",
        },
        "alphabet": {
            "depth_scales": list(DEPTHS),
            "noise": "the n normal quantiles of a block of n bins under the affine permutation j -> (a_i j + b_i) mod n per sample i "
            "(a_i coprime to n, near n / golden ratio, so neighbouring bins get well-spread quantiles), x sd",
            "sex_modes": list(SEX_MODES),
            "reject_kinds": list(REJECT_KINDS),
            "corrections": list(CORRECTIONS),
            "fasta_line_widths": list(FASTA_WIDTHS),
        },
        "assumptions": [
            "each coverage file is median-centred on its own (targets and antitargets are separate tables): median over the "
            "autosomes of the per-chromosome medians (center_all's default, C15); autosomal null-coverage bins are not enumerated",
            "inferred sexes are the true sexes of the synthetic samples (clear samples, >= 40 chrX bins per file: C15's precondition)",
            "given sexes apply to every sample (the API takes one flag); the exact oracle follows the attributed sex, the sex-mix "
            "consequence is evaluated only where attributed = true sex",
            "Tukey's biweight: c = 6 / 9, median start, <= 5 steps, tolerance and scale floor 1e-3 (C19 anchors); a step length within "
            "1e-9 of the tolerance leaves both continuations open; midvariance about the reported log2, n = all or un-rejected "
            "observations, 1.4826 * MAD accepted on exactly symmetric data (C19 statement)",
            "rmask = lowercase fraction of the unambiguous bases (same denominator as gc); a bin without any unambiguous base only "
            "has to return without raising",
            "output row order, gene, depth and extra columns are not part of the statement; bins are compared as a multiset of coordinates",
            "corrected (corrections on): only the statement's consequences are checked (sex-chromosome levels within 0.05, depth-only "
            "spread <= 1e-3, bins, gc / rmask values), on inputs whose designed X / Y level is exact to < 0.01",
            "'rejected' = do_reference raises (any exception type)",
        ],
    }


# --------------------------------------------------------------------------------------------
# configuration enumeration
def depth_noise_options(k):
    """[(clean?, depth index tuple)] default first: noisy all-1, then single deviations, then clean variants."""
    base = (0,) * k
    singles = [base[:i] + (d,) + base[i + 1 :] for i in range(k) for d in (1, 2)]
    return [(False, base)] + [(False, s) for s in singles] + [(True, base)] + [(True, s) for s in singles]


def config_dims(k):
    """dimension name -> list of options, default first."""
    return {
        "dn": depth_noise_options(k),
        "naming": list(NAMINGS),
        "anti": list(ANTI_MODES),
        "order": list(ORDERS),
    }


def deviations(dims, d):
    """All configurations differing from the default in <= d dimensions, fewest deviations first."""
    names = list(dims)
    for n in range(d + 1):
        for which in itertools.combinations(names, n):
            for choice in itertools.product(*[dims[w][1:] for w in which]):
                cfg = {nm: dims[nm][0] for nm in names}
                cfg.update(dict(zip(which, choice)))
                yield cfg


def pooled_case(k, sexes, cfg):
    clean, depth = cfg["dn"]
    return {
        "check": "pooled",
        "k": k,
        "sexes": list(sexes),
        "clean": clean,
        "depth": list(depth),
        "naming": cfg["naming"],
        "anti": cfg["anti"],
        "order": cfg["order"],
    }


def cases(tier):
    t = tier == "thorough"
    seen = set()

    def emit(c):
        key = repr(sorted(c.items()))
        if key not in seen:
            seen.add(key)
            return True
        return False

    # cheap, exhaustive sub-checks first
    for first in [""] + list(GC_ALPHABET_Q):
        yield {"check": "gc-strings", "alphabet": GC_ALPHABET_Q, "prefix": first, "maxlen": 7 if t else 6}
    # with an IUPAC code other than N/n (R, and lower-case r): ambiguous, in neither numerator nor denominator
    for first in [""] + list(GC_ALPHABET_EXTRA):
        yield {"check": "gc-strings", "alphabet": GC_ALPHABET_EXTRA, "prefix": first, "maxlen": 5 if t else 4}
    for ci in range(len(FASTA_CONTENTS)):
        for w in FASTA_WIDTHS:
            yield {"check": "gc-fasta", "content": ci, "width": w}
    for naming in NAMINGS:
        for chroms in ("auto+X+Y", "auto+X", "auto", "X+Y-first"):
            for anti in ("none", "present", "empty"):
                yield {"check": "flat", "naming": naming, "chroms": chroms, "anti": anti}
    for k in (2, 3) + ((4,) if t else ()):
        for block in ("target", "antitarget"):
            yield {"check": "reject", "k": k, "block": block}
    # pooled, exact oracle
    kmax, dev = (5, 2) if t else (4, 1)
    for k in range(1, kmax + 1):
        for sexes in itertools.product((0, 1), repeat=k):
            for cfg in deviations(config_dims(k), dev):
                c = pooled_case(k, sexes, cfg)
                if emit(c):
                    yield c
    for k in (1, 2):
        for sexes in itertools.product((0, 1), repeat=k):
            for naming, anti, order, clean in itertools.product(NAMINGS, ANTI_MODES, ORDERS, (False, True)):
                c = pooled_case(k, sexes, {"dn": (clean, (0,) * k), "naming": naming, "anti": anti, "order": order})
                if emit(c):
                    yield c
    # the same through the command line: every legal spelling of -x / --sample-sex, with and without -y
    for sexes in ((0, 0), (1, 1), (0, 1)) + (((1, 0, 1),) if t else ()):
        for anti in ("none", "present"):
            c = pooled_case(len(sexes), sexes, {"dn": (False, (0,) * len(sexes)), "naming": NAMINGS[0], "anti": anti, "order": ORDERS[0]})
            c["via"] = "cli"
            yield c
    # corrections on, semantic clauses
    for cohort in COHORTS_B:
        if cohort == "MFM" and not t:
            continue
        for anti in ("none", "present"):
            for ref_male in (False, True):
                for mask in range(8):
                    corr = [c for i, c in enumerate(CORRECTIONS) if mask >> i & 1]
                    yield {"check": "corrected", "cohort": cohort, "anti": anti, "ref_male": ref_male, "corrections": corr}
    for anti in ("none", "present"):
        for corr in (["gc"], ["gc", "rmask"], ["gc", "edge", "rmask"]):
            yield {"check": "corrected", "cohort": "FM", "anti": anti, "ref_male": False, "corrections": corr, "stale_gc": True}
    if t:
        for k in (1, 2, 3):
            for sexes in itertools.product((0, 1), repeat=k):
                for depth in itertools.product((0, 1, 2), repeat=k):
                    for clean in (False, True):
                        c = pooled_case(k, sexes, {"dn": (clean, depth), "naming": "chr", "anti": "none", "order": "given"})
                        if emit(c):
                            yield c
        for sexes in itertools.product((0, 1), repeat=6):
            for cfg in deviations(config_dims(6), 1):
                c = pooled_case(6, sexes, cfg)
                if emit(c):
                    yield c
        for k in (7, 8):
            for sexes in itertools.product((0, 1), repeat=k):
                for clean, anti in ((False, "none"), (True, "none"), (False, "present")):
                    yield pooled_case(k, sexes, {"dn": (clean, (0,) * k), "naming": "chr", "anti": anti, "order": "given"})


def run(case, ctx):
    fn = {
        "pooled": run_pooled,
        "reject": run_reject,
        "corrected": run_corrected,
        "flat": run_flat,
        "gc-strings": run_gc_strings,
        "gc-fasta": run_gc_fasta,
    }[case["check"]]
    tmp = tempfile.mkdtemp(prefix="c05_", dir="/tmp")
    try:
        fn(case, ctx, tmp)
    finally:
        shutil.rmtree(tmp, ignore_errors=True)


# --------------------------------------------------------------------------------------------
# synthetic data
_Z = {}


def normal_quantiles(n):
    if n not in _Z:
        nd = statistics.NormalDist()
        _Z[n] = [nd.inv_cdf((j + 0.5) / n) for j in range(n)]
    return _Z[n]


def noise_for(n, i):
    """Sample i's unit noise over n bins: the n normal quantiles under j -> (a j + b) mod n, with a near n / golden
    ratio (so that every run of neighbouring bins receives quantiles spread over the whole range) and coprime to n."""
    a, found = int(0.618 * n), -1
    while True:
        if math.gcd(a, n) == 1:
            found += 1
            if found == i:
                break
        a += 1
    b = (37 * i + 11) % n
    z = normal_quantiles(n)
    return [z[(a * j + b) % n] for j in range(n)]


def chrom_name(name, naming):
    if name == SPIKE:
        return name  # a spike-in / decoy sequence keeps its own, unprefixed name
    return ("chr" if naming.startswith("chr") else "") + name


def zero_median(vals):
    m = RB.median(vals)
    return [v - m for v in vals]


def genome_a(naming):
    """-> (target bins, antitarget bins, target profile, antitarget profile); bins = (chrom, start, end, gene)."""
    tb, ab, tp, ap = [], [], [], []
    for name, nt, na, off_t, off_a in GENOME_A + ((SPIKE_ENTRY,) if naming == "chr+spike" else ()):
        c = chrom_name(name, naming)
        prof = zero_median([0.01 * ((37 * i) % 41 - 20) for i in range(nt)])
        for i in range(nt):
            s = 10_000 + 1_000 * i
            tb.append((c, s, s + 150 + 10 * (i % 7), "G%s_%d" % (name, i // 3)))
            tp.append(off_t + prof[i])
        step = 2_000 if na < nt // 2 + 1 else 1_000
        prof = zero_median([0.01 * ((29 * i) % 37 - 18) for i in range(na)])
        for i in range(na):
            s = 10_000 + step * i + 400
            ab.append((c, s, s + 500, "Antitarget"))
            ap.append(off_a + prof[i])
    return tb, ab, tp, ap


def sex_level(role, male, j):
    """(log2 level relative to the autosomes, null-coverage?) of a normal sample of the given sex."""
    if role == "X":
        return (-1.0 if male else 0.0), False
    if role == "Y":
        if male:
            return -1.0, False
        return (-20.0, True) if j % 2 else (-7.0 - 0.25 * (j % 3), False)
    return 0.0, False


def make_sample(bins, profile, male, scale, sd, i, base):
    """rows (chrom, start, end, gene, depth, log2) of sample i; log2 rounded to 6 decimals (what the file says)."""
    n = len(bins)
    z = noise_for(n, i) if sd else [0.0] * n
    rows = []
    for j, (c, s, e, g) in enumerate(bins):
        lvl, null = sex_level(RB.role_of(c), male, j)
        if null:
            rows.append((c, s, e, g, 0.0, -20.0))
            continue
        v = round(base + math.log2(scale) + profile[j] + lvl + sd * z[j], 6)
        rows.append((c, s, e, g, round(2.0**v, 6), v))
    return rows


def write_cnn(path, rows, mode="rows"):
    with open(path, "w") as f:
        if mode == "blank":
            return
        f.write("chromosome\tstart\tend\tgene\tdepth\tlog2\n")
        for c, s, e, g, d, v in rows:
            f.write("%s\t%d\t%d\t%s\t%r\t%r\n" % (c, s, e, g, d, v))


def write_bed(path, bins):
    with open(path, "w") as f:
        for c, s, e, g in bins:
            f.write("%s\t%d\t%d\t%s\n" % (c, s, e, g))


def cohort_files(tmp, tb, ab, tp, ap, sexes, scales, sd, anti, order, base_t=6.0, base_a=2.0):
    """Write the cohort; -> (target paths, antitarget paths or None, [target rows per sample], [antitarget rows per sample])."""
    t_rows, a_rows, t_paths, a_paths = [], [], [], []
    for i, male in enumerate(sexes):
        rows = make_sample(tb, tp, male, scales[i], sd, i, base_t)
        p = os.path.join(tmp, "S%d.targetcoverage.cnn" % i)
        write_cnn(p, rows)
        t_rows.append(rows)
        t_paths.append(p)
        if anti != "none":
            p = os.path.join(tmp, "S%d.antitargetcoverage.cnn" % i)
            if anti == "present":
                rows = make_sample(ab, ap, male, scales[i], sd, i + 11, base_a)
                write_cnn(p, rows)
                a_rows.append(rows)
            else:
                write_cnn(p, [], "blank" if anti == "empty-blank" else "rows")
                a_rows.append([])
            a_paths.append(p)
    if order == "rev-targets":
        t_paths = t_paths[::-1]
    return t_paths, (a_paths if anti != "none" else None), t_rows, a_rows


def table_of(ref):
    """Observed reference as {column: python list}."""
    df = ref.data
    out = {"chromosome": [str(c) for c in df["chromosome"].tolist()], "start": [int(x) for x in df["start"].tolist()], "end": [int(x) for x in df["end"].tolist()]}
    for col in ("log2", "spread", "gc", "rmask"):
        if col in df:
            out[col] = [float(x) for x in df[col].tolist()]
    return out


def role_median(tab, col, role):
    vals = [v for c, v in zip(tab["chromosome"], tab[col]) if RB.role_of(c) == role]
    return RB.median(vals) if vals else None


# --------------------------------------------------------------------------------------------
# pooled, exact
def check_bins(ctx, tab, expected_bins, key, sub):
    got = sorted(zip(tab["chromosome"], tab["start"], tab["end"]))
    want = sorted((c, s, e) for c, s, e, *_ in expected_bins)
    if got != want:
        missing = [b for b in want if b not in set(got)][:3]
        extra = [b for b in got if b not in set(want)][:3]
        ctx.violation(
            "the reference has exactly the bins of the coverage files",
            key,
            expected={"bins": len(want), "missing_from_output": missing},
            observed={"bins": len(got), "not_in_input": extra},
            sub=sub,
        )
        return False
    return True


def judge_exact(ctx, tab, blocks, attributed, ref_male, kp, sub, anti_bins=(), tol=None):
    """Every output bin against the model.  One violation per (call, key): the first failing bin + the count."""
    model = RB.pooled_reference([[[(r[0], r[1], r[2], r[5]) for r in rows] for rows in blk] for blk in blocks], attributed, ref_male)
    tol = TOL_ITER if tol is None else tol
    fails = {}
    anti_set = {(b[0], b[1], b[2]) for b in anti_bins}
    for c, s, e, lg, sp in zip(tab["chromosome"], tab["start"], tab["end"], tab["log2"], tab["spread"]):
        m = model[(c, s, e)]
        role = RB.role_of(c)
        role = ("autosome" if role == "auto" else "chr" + role) + ("/antitarget" if (c, s, e) in anti_set else "/target")
        feat = RB.estimator_feature(m["info"])
        info = m["info"]
        ctx.stratum("estimator: " + feat)
        if info["floor"]:
            ctx.stratum("estimator: 1e-3 scale floor active")
        if info["rejected"]:
            ctx.stratum("estimator: an observation rejected (|u| >= 1)")
        if info["steps"] > 1:
            ctx.stratum("estimator: more than one step")
        if info["borderline"]:
            ctx.stratum("estimator: step length within 1e-9 of the tolerance (both continuations accepted)")
        if not (math.isfinite(lg) and any(RB.close(lg, v, tol) for v in m["log2"])):
            k = f"pooled/log2/{role}"
            f = fails.setdefault(k, ["each bin's log2 is Tukey's biweight location over {neutral pseudo-sample} + the centred, sex-shifted samples", 0, None])
            f[1] += 1
            if f[2] is None:
                f[2] = {"bin": [c, s, e], "expected": m["log2"], "observed": lg, "estimator_inputs": m["values"], "estimator_path": feat}
            continue  # the spread is defined about the location; judged only where the location stands
        # values read back from a file carry 6 digits; the spread is defined about the unrounded location
        centre = lg if tol == TOL_ITER else min(m["log2"], key=lambda v: abs(v - lg))
        ok, mv = RB.spread_ok(sp, m["values"], centre, tol)
        if mv["near_symmetric"]:
            ctx.stratum("spread: exactly symmetric inputs (MAD fallback allowed)")
        else:
            ctx.stratum("spread: asymmetric inputs (formula required)")
        if not ok:
            k = f"pooled/spread/{role}"
            f = fails.setdefault(k, ["each bin's spread is the biweight midvariance of the same values about the bin's log2", 0, None])
            f[1] += 1
            if f[2] is None:
                f[2] = {
                    "bin": [c, s, e],
                    "expected": {"formula": mv["values"], "mad_fallback_if_symmetric": mv["mad_fallback"] if mv["near_symmetric"] else None},
                    "observed": sp,
                    "estimator_inputs": m["values"],
                    "centre": lg,
                }
    for k, (clause, n, first) in sorted(fails.items()):
        ctx.violation(clause, k, expected=first["expected"], observed=first["observed"], sub=sub, detail={**first, "failing_bins_in_this_call": n})
    return model, not fails


def judge_sex_levels(ctx, tab, ref_male, kp, sub, tol=SEM_TOL):
    # the autosomal baseline = the level the autosomes are centred on (median of the autosomes' medians)
    auto = RB.centre_of(list(zip(tab["chromosome"], tab["log2"])))
    for role, want in (("X", -1.0 if ref_male else 0.0), ("Y", -1.0)):
        med = role_median(tab, "log2", role)
        if med is None:
            continue
        got = med - auto
        ctx.stratum(f"sex-levels: chr{role} judged")
        dev = abs(got - want)
        ctx.stratum("sex-levels: deviation " + ("< 0.005" if dev < 0.005 else "< 0.0125" if dev < 0.0125 else "< 0.025" if dev < 0.025 else ">= 0.025 (tolerance 0.05)"))
        if not abs(got - want) <= tol:
            ctx.violation(
                f"chr{role} lies at {'-1.0 (male reference) / 0 (female reference)' if role == 'X' else 'the single-copy level -1.0'} relative to the autosomal baseline",
                f"{kp}/sex-level/chr{role}",
                expected=want,
                observed=got,
                sub=sub,
                detail={"autosome_median": auto, "chromosome_median": med},
            )


CLI_SPELLINGS = {"inferred": [None], "given-female": ["f", "x", "female", "Female"], "given-male": ["m", "y", "male", "Male"]}
_CLI_N = [0]


def cli_reference(tmp, t_paths, a_paths, ref_male, spelling):
    """`cnvkit.py reference <files> -o out --no-gc --no-edge --no-rmask [-y] [-x SEX]`, output read back (values carry 6 digits)."""
    from cnvlib import commands

    _CLI_N[0] += 1
    out = os.path.join(tmp, "cli_reference_%d.cnn" % _CLI_N[0])
    argv = ["reference"] + list(t_paths) + list(a_paths or []) + ["-o", out, "--no-gc", "--no-edge", "--no-rmask"]
    argv += ["-y"] if ref_male else []
    argv += ["-x", spelling] if spelling else []
    args = commands.parse_args(argv)
    args.func(args)
    return cnvlib_read(out)


def run_pooled(case, ctx, tmp):
    k, sexes = case["k"], case["sexes"]
    tb, ab, tp, ap = genome_a(case["naming"])
    scales = [DEPTHS[d] for d in case["depth"]]
    sd = 0.0 if case["clean"] else NOISE_SD
    t_paths, a_paths, t_rows, a_rows = cohort_files(tmp, tb, ab, tp, ap, sexes, scales, sd, case["anti"], case["order"])
    blocks = [t_rows] + ([a_rows] if case["anti"] == "present" else [])
    bins = tb + (ab if case["anti"] == "present" else [])
    uniform = len(set(sexes)) == 1
    ctx.stratum(f"pooled: k={k}")
    ctx.stratum("pooled: cohort " + ("mixed" if not uniform else "all-male" if sexes[0] else "all-female"))
    ctx.stratum("pooled: antitarget " + case["anti"])
    ctx.stratum("pooled: naming " + case["naming"])
    cli = case.get("via") == "cli"
    for ref_male in (False, True):
        for mode, spelling in [(m, sp) for m in SEX_MODES for sp in (CLI_SPELLINGS[m] if cli else [None])]:
            attributed = list(map(bool, sexes)) if mode == "inferred" else [mode == "given-male"] * k
            truthful = attributed == list(map(bool, sexes))
            sub = {"ref_male": ref_male, "sexes": mode}
            kp = "sexes-inferred" if mode == "inferred" else "sexes-given"
            female_samples = None if mode == "inferred" else mode == "given-female"
            if cli:
                # the same call through `cnvkit.py reference` (argument parsing, every legal spelling of -x)
                sub["argv_sex"] = spelling
                kp = "cli/" + kp
                ctx.stratum("cli reference: -x " + str(spelling))
                ref = ctx.call(cli_reference, tmp, t_paths, a_paths, ref_male, spelling)
            else:
                ref = ctx.call(R.do_reference, t_paths, a_paths, None, ref_male, None, female_samples, False, False, False)
            shifted = any(a != ref_male for a in attributed)
            ctx.state(("pooled", case, ref_male, mode), nontrivial=shifted or k >= 2)
            if isinstance(ref, Exc):
                ctx.violation(
                    "a reference is built from coverage files with identical bins",
                    f"pooled/raises/{ref.key}/antitarget-{case['anti']}",
                    expected="a reference",
                    observed=ref,
                    sub=sub,
                )
                continue
            ctx.trace()
            tab = table_of(ref)
            if "log2" not in tab or "spread" not in tab:
                ctx.violation("the reference has log2 and spread columns", "pooled/columns", observed=list(ref.data.columns), sub=sub)
                continue
            ctx.outcome(hash(tuple(round(v, 6) for v in tab["log2"]) + tuple(round(v, 6) for v in tab["spread"])))
            if not check_bins(ctx, tab, bins, f"pooled/bins/antitarget-{case['anti']}", sub):
                continue
            for a, true_male in zip(attributed, sexes):
                ctx.stratum("shift: %s sample -> %s reference" % ("male" if a else "female", "male" if ref_male else "female"))
            model, _ok = judge_exact(ctx, tab, blocks, attributed, ref_male, kp, sub, ab if case["anti"] == "present" else (), tol=1e-5 if cli else None)
            if truthful:
                judge_sex_levels(ctx, tab, ref_male, "pooled/" + kp, sub)
            if case["clean"] and uniform and truthful and k >= 2:
                # samples differ only in depth: common profile, spread ~ 0
                ctx.stratum("depth-only cohort judged")
                worst = None
                for c, s, e, lg, sp in zip(tab["chromosome"], tab["start"], tab["end"], tab["log2"], tab["spread"]):
                    common = model[(c, s, e)]["values"][1]
                    dev = max(abs(lg - common), abs(sp))
                    if not dev <= NEAR0 and (worst is None or dev > worst[0]):
                        worst = (dev, [c, s, e], common, lg, sp)
                if worst:
                    ctx.violation(
                        "normals that differ only in sequencing depth reproduce their common profile with spread ~ 0",
                        f"pooled/depth-only/{kp}",
                        expected={"log2": worst[2], "spread": 0.0},
                        observed={"log2": worst[3], "spread": worst[4]},
                        sub={**sub, "bin": worst[1]},
                    )
    ctx.sample("pooled", {"case": case, "first_target_rows_of_S0": [list(r) for r in t_rows[0][:3]]})


# --------------------------------------------------------------------------------------------
# bins that differ are rejected
def mutate_rows(rows, kind):
    rows = [list(r) for r in rows]
    mid = len(rows) // 2
    if kind == "start+1":
        rows[mid][1] += 1
    elif kind == "end+1":
        rows[mid][2] += 1
    elif kind == "chrom-renamed":
        c = rows[mid][0]
        new = c[:-1] + "4"
        for r in rows:
            if r[0] == c:
                r[0] = new
    elif kind == "row-dropped":
        del rows[mid]
    elif kind == "row-added":
        r = list(rows[mid])
        r[1], r[2] = r[2] + 10, r[2] + 60
        rows.insert(mid + 1, r)
    return [tuple(r) for r in rows]


def run_reject(case, ctx, tmp):
    k, block = case["k"], case["block"]
    tb, ab, tp, ap = genome_a("chr")
    sexes = [i % 2 for i in range(k)]
    t_paths, a_paths, t_rows, a_rows = cohort_files(tmp, tb, ab, tp, ap, sexes, [1.0] * k, NOISE_SD, "present", "given")
    paths, rows = (t_paths, t_rows) if block == "target" else (a_paths, a_rows)
    # control: the untouched cohort is accepted
    ref = ctx.call(R.do_reference, t_paths, a_paths, None, False, None, None, False, False, False)
    ctx.state(("reject-control", k, block), nontrivial=False)
    if isinstance(ref, Exc):
        ctx.violation("a reference is built from coverage files with identical bins", f"reject/control-raises/{ref.key}", observed=ref)
    else:
        ctx.trace()
    for i in range(k):
        for kind in REJECT_KINDS:
            write_cnn(paths[i], mutate_rows(rows[i], kind))
            for fs in (None, True):
                sub = {"file": i, "kind": kind, "female_samples": fs}
                got = ctx.call(R.do_reference, t_paths, a_paths, None, False, None, fs, False, False, False)
                ctx.state(("reject", k, block, i, kind, fs), nontrivial=True)
                ctx.trace()
                ctx.stratum("reject: " + kind)
                ctx.stratum("reject: differing file is " + ("first" if i == 0 else "last" if i == k - 1 else "middle"))
                ctx.outcome(("reject", got.type if isinstance(got, Exc) else "accepted"))
                if not isinstance(got, Exc):
                    ctx.violation(
                        "files whose bins differ are rejected",
                        f"reject/accepted/{block}/{kind}",
                        expected="an exception",
                        observed="a reference of %d bins" % len(got),
                        sub=sub,
                    )
            write_cnn(paths[i], rows[i])
    ctx.sample("reject", {"case": case, "kinds": list(REJECT_KINDS)})


# --------------------------------------------------------------------------------------------
# corrections on (genome B + FASTA): semantic clauses
def genome_b():
    """-> (target bins, antitarget bins, fasta records, per-bin designed (gc, rmask) for targets / antitargets)."""
    tb, ab, recs, tg, ag = [], [], [], [], []
    for name, nt, na in GENOME_B:
        c = "chr" + name
        length = 1_000 + 400 * nt + 800 * na + 200
        seq = [("ACGT"[p % 4] if (p // 97) % 5 else "N") for p in range(length)]
        pos = 500
        y_fix = 3 if name == "Y" else 0
        for i in range(nt):
            size = 100 + 10 * (i % 7)
            g = 0.3 + 0.4 * ((17 * i + y_fix) % 41) / 40.0
            fill(seq, pos, pos + size, g, 0.1 + 0.5 * ((11 * i) % 23) / 22.0)
            tb.append((c, pos, pos + size, "G%s_%d" % (name, i // 4)))
            tg.append(g)
            pos += size + (60 if i % 3 else 240)
        pos += 300
        for i in range(na):
            g = 0.3 + 0.4 * ((13 * i + (2 if name == "Y" else 0)) % 41) / 40.0
            rm = 0.05 + 0.8 * ((19 * i + (4 if name == "Y" else 0)) % 31) / 30.0
            fill(seq, pos, pos + 500, g, rm)
            ab.append((c, pos, pos + 500, "Antitarget"))
            ag.append((g, rm))
            pos += 700
        assert pos <= length, (name, pos, length)
        recs.append((c, "".join(seq)))
    return tb, ab, recs, tg, ag


def fill(seq, s, e, gc, rm):
    """Deterministic sequence with about the requested G+C and lowercase fractions."""
    n = e - s
    for p in range(n):
        base = "GC"[p % 2] if ((p * 37) % 100) < 100 * gc else "AT"[(p // 2) % 2]
        if ((p * 61 + 7) % 100) < 100 * rm:
            base = base.lower()
        if (p * 13 + 5) % 50 == 0:
            base = "N" if p % 4 else "n"  # ambiguous bases inside bins: excluded from both fractions
        seq[s + p] = base


_GB = {}


def genome_b_cached():
    if "g" not in _GB:
        tb, ab, recs, tg, ag = genome_b()
        seqs = dict(recs)
        t_stats = [RB.gc_rmask(seqs[c][s:e]) for c, s, e, _ in tb]
        a_stats = [RB.gc_rmask(seqs[c][s:e]) for c, s, e, _ in ab]
        _GB["g"] = (tb, ab, recs, t_stats, a_stats)
    return _GB["g"]


def profile_b(bins, stats, gc_slope, rm_slope):
    """Common per-bin bias of every sample: a GC- and repeat-dependent term, zero-median per chromosome."""
    raw = [gc_slope * (g - 0.5) + rm_slope * (rm - 0.4) for g, rm in stats]
    out = [0.0] * len(bins)
    for chrom in dict.fromkeys(b[0] for b in bins):
        idx = [j for j, b in enumerate(bins) if b[0] == chrom]
        for j, v in zip(idx, zero_median([raw[j] for j in idx])):
            out[j] = v
    return out


def run_corrected(case, ctx, tmp):
    tb, ab, recs, t_stats, a_stats = genome_b_cached()
    sexes = COHORTS_B[case["cohort"]]
    k = len(sexes)
    depth_only = case["cohort"].endswith("-depth")
    sd = 0.0 if depth_only else 0.02
    scales = [DEPTHS[i % 3] for i in range(k)] if depth_only else [1.0] * k
    tp = profile_b(tb, t_stats, 0.6, 0.0)
    ap = profile_b(ab, a_stats, 0.4, -0.5)
    fa = os.path.join(tmp, "genome.fa")
    with open(fa, "w") as f:
        f.write(RB.render_fasta(recs, 60))
    anti = case["anti"]
    t_paths, a_paths, t_rows, a_rows = cohort_files(tmp, tb, ab, tp, ap, sexes, scales, sd, anti, "given")
    ref_male = case["ref_male"]
    corr = case["corrections"]
    kp = "+".join(corr) if corr else "none"
    if case.get("stale_gc"):
        # coverage files that already carry a gc column (import-picard output, re-annotated .cnn) with values that are
        # not the FASTA's: a FASTA was given, so the reference's gc is still the G+C fraction of each bin's sequence
        for path in list(t_paths) + list(a_paths or []):
            with open(path) as f:
                lines = f.read().splitlines()
            with open(path, "w") as f:
                for i, line in enumerate(lines):
                    f.write(line + ("\tgc" if i == 0 else "\t0.111") + "\n")
        ctx.stratum("corrected: coverage files carry a stale gc column")
    ref = ctx.call(R.do_reference, t_paths, a_paths, fa, ref_male, None, None, "gc" in corr, "edge" in corr, "rmask" in corr)
    ctx.state(("corrected", case), nontrivial=bool(corr))
    ctx.stratum("corrected: " + kp)
    ctx.stratum("corrected: antitarget " + anti)
    if isinstance(ref, Exc):
        ctx.violation("a reference is built from coverage files with identical bins", f"corrected/raises/{ref.key}", observed=ref)
        return
    ctx.trace()
    tab = table_of(ref)
    ctx.outcome(hash(tuple(round(v, 6) for v in tab["log2"])))
    bins = tb + (ab if anti == "present" else [])
    if not check_bins(ctx, tab, bins, "corrected/bins", None):
        return
    judge_sex_levels(ctx, tab, ref_male, "corrected/" + ("corrections-on" if corr else "corrections-off"), None)
    if depth_only:
        ctx.stratum("depth-only cohort judged")
        worst = max(abs(v) for v in tab["spread"])
        if not worst <= NEAR0:
            ctx.violation(
                "normals that differ only in sequencing depth give spread ~ 0",
                "corrected/depth-only",
                expected=0.0,
                observed=worst,
            )
    # gc / rmask columns, where reported
    want = {}
    for (c, s, e, _), st in zip(tb, t_stats):
        want[(c, s, e)] = st
    for (c, s, e, _), st in zip(ab, a_stats):
        want[(c, s, e)] = st
    for col, ix in (("gc", 0), ("rmask", 1)):
        if col not in tab:
            continue
        n = 0
        for c, s, e, v in zip(tab["chromosome"], tab["start"], tab["end"], tab[col]):
            if math.isnan(v):
                continue
            n += 1
            if not RB.close(v, want[(c, s, e)][ix], TOL):
                ctx.violation(
                    f"{col} is the {'G+C' if col == 'gc' else 'lowercase'} fraction of the unambiguous bases of the bin's sequence",
                    f"corrected/{col}",
                    expected=want[(c, s, e)][ix],
                    observed=v,
                    sub={"bin": [c, s, e]},
                )
                break
        ctx.stratum(f"corrected: {col} column compared", n)
    ctx.sample("corrected", {"case": case, "bins": len(bins)})


# --------------------------------------------------------------------------------------------
# flat reference
FLAT_SEQ = {
    "1": "ACGTacgtNNnnGGCCaattACGTGGGGccccAAAAttttNNNNACGTnnnnacgtACGTTTGA",
    "2": "ggccGGCCatatATATNNNNNNNNNNNNacgtacgtGGGGGGGGccccccccATGCatgcATGC",
    "X": "NNNNNNNNNNNNNNNNNNNNACGTACGTACGTacgtacgtacgtGGGGCCCCggggccccATAT",
    "Y": "atatatatatatGCGCGCGCGCGCnnnnnnnnNNNNNNNNACGTACGTacgtacgtAAAAAAAA",
}
FLAT_BINS = [(0, 10), (10, 25), (30, 64)]
FLAT_ANTI = [(25, 30), (12, 20)]  # the second overlaps a target bin on purpose: bins are kept as given


def run_flat(case, ctx, tmp):
    naming, chroms, anti = case["naming"], case["chroms"], case["anti"]
    names = {"auto+X+Y": ["1", "2", "X", "Y"], "auto+X": ["1", "2", "X"], "auto": ["1", "2"], "X+Y-first": ["X", "Y", "1"]}[chroms]
    tb = [(chrom_name(n, naming), s, e, "G%s_%d" % (n, i)) for n in names for i, (s, e) in enumerate(FLAT_BINS)]
    ab = [(chrom_name(n, naming), s, e, "Antitarget") for n in names for (s, e) in FLAT_ANTI[:1]] if anti == "present" else []
    t_bed = os.path.join(tmp, "targets.bed")
    write_bed(t_bed, tb)
    a_bed = None
    if anti != "none":
        a_bed = os.path.join(tmp, "antitargets.bed")
        write_bed(a_bed, ab)
    fa = os.path.join(tmp, "flat.fa")
    recs = [(chrom_name(n, naming), FLAT_SEQ[n]) for n in ["1", "2", "X", "Y"]]
    with open(fa, "w") as f:
        f.write(RB.render_fasta(recs, 25))
    seqs = RB.parse_fasta(RB.render_fasta(recs, 25))
    for ref_male in (False, True):
        for with_fa in (False, True):
            sub = {"ref_male": ref_male, "fasta": with_fa}
            kp = f"antitarget-{anti}/{'fasta' if with_fa else 'no-fasta'}"
            ref = ctx.call(R.do_reference_flat, t_bed, a_bed, fa if with_fa else None, ref_male)
            ctx.state(("flat", case, ref_male, with_fa), nontrivial=any(RB.role_of(b[0]) != "auto" for b in tb))
            ctx.stratum("flat: antitarget " + anti)
            ctx.stratum("flat: chromosomes " + chroms)
            if isinstance(ref, Exc):
                ctx.violation("a flat reference is built from the given regions", f"flat/raises/{ref.key}/antitarget-{anti}", observed=ref, sub=sub)
                continue
            ctx.trace()
            tab = table_of(ref)
            ctx.outcome(hash(tuple(tab.get("log2", [])) + tuple(round(v, 9) for v in tab.get("gc", [])) + tuple(round(v, 9) for v in tab.get("rmask", []))))
            if not check_bins(ctx, tab, tb + ab, f"flat/bins/antitarget-{anti}", sub):
                continue
            for c, s, e, v in zip(tab["chromosome"], tab["start"], tab["end"], tab["log2"]):
                role = RB.role_of(c)
                want = RB.flat_log2(role, ref_male)
                ctx.stratum(f"flat: chr-role {role}")
                if not abs(v - want) <= TOL:
                    ctx.violation(
                        "a flat reference is 0 on autosomes, -1 on Y, and -1 on X only for a male reference",
                        f"flat/log2/{role}/{'male-ref' if ref_male else 'female-ref'}",
                        expected=want,
                        observed=v,
                        sub={**sub, "bin": [c, s, e]},
                    )
                    break
            if with_fa:
                for col, ix in (("gc", 0), ("rmask", 1)):
                    if col not in tab:
                        ctx.violation(f"a flat reference built with a FASTA reports {col}", f"flat/{col}-missing", observed=list(ref.data.columns), sub=sub)
                        continue
                    for c, s, e, v in zip(tab["chromosome"], tab["start"], tab["end"], tab[col]):
                        st = RB.gc_rmask(seqs[c][s:e])
                        if st is None:
                            ctx.stratum("flat: bin without unambiguous bases (value left open)")
                            continue
                        if not RB.close(v, st[ix], TOL):
                            ctx.violation(
                                f"{col} is the {'G+C' if col == 'gc' else 'lowercase'} fraction of the unambiguous bases of the bin's sequence",
                                f"flat/{col}",
                                expected=st[ix],
                                observed=v,
                                sub={**sub, "bin": [c, s, e], "sequence": seqs[c][s:e]},
                            )
                            break
    ctx.sample("flat", {"case": case, "targets": [list(b) for b in tb[:4]]})


# --------------------------------------------------------------------------------------------
# gc / rmask
def judge_gc_pair(ctx, got, seq, key, sub, trace=True):
    want = RB.gc_rmask(seq)
    if isinstance(got, Exc):
        ctx.violation("gc and rmask are returned for every sequence", f"{key}/raises/{got.key}", observed=got, sub=sub)
        return
    if trace:
        ctx.trace()
    if want is None:
        ctx.stratum("gc: no unambiguous base (values left open)")
        return
    try:
        g, r = float(got[0]), float(got[1])
    except Exception:  # noqa: BLE001
        ctx.violation("gc and rmask are two numbers", f"{key}/shape", observed=repr(got)[:100], sub=sub)
        return
    ctx.outcome((round(g, 9), round(r, 9)))
    amb = "with-ambiguous" if any(ch not in "ACGTacgt" for ch in seq) else "unambiguous-only"
    if not RB.close(g, want[0], TOL):
        ctx.violation("gc is the G+C fraction of the unambiguous bases", f"{key}/gc/{amb}", expected=want[0], observed=g, sub=sub)
    if not RB.close(r, want[1], TOL):
        ctx.violation("rmask is the lowercase fraction of the bin's (unambiguous) sequence", f"{key}/rmask/{amb}", expected=want[1], observed=r, sub=sub)


def run_gc_strings(case, ctx, tmp):
    alpha, prefix, maxlen = case["alphabet"], case["prefix"], case["maxlen"]
    if prefix == "":
        todo = [""]
    else:
        todo = [prefix + "".join(t) for n in range(maxlen) for t in itertools.product(alpha, repeat=n)]
    for seq in todo:
        got = ctx.call(R.calculate_gc_lo, seq)
        ctx.state(("gc-string", seq), nontrivial=any(ch in "ACGTacgt" for ch in seq))
        judge_gc_pair(ctx, got, seq, "calculate_gc_lo", {"sequence": seq})
    ctx.stratum("gc-strings evaluated", len(todo))
    ctx.sample("gc-strings", {"case": case, "strings": len(todo)})


def run_gc_fasta(case, ctx, tmp):
    content, width = FASTA_CONTENTS[case["content"]], case["width"]
    recs = [("chr1", content), ("7", content[::-1].swapcase())]
    text = RB.render_fasta(recs, width)
    fa = os.path.join(tmp, "small.fa")
    with open(fa, "w") as f:
        f.write(text)
    seqs = RB.parse_fasta(text)
    assert seqs == dict(recs)
    for name, seq in recs:
        n = len(seq)
        bins = [(name, s, e) for s in range(n) for e in range(s + 1, n + 1)]
        arr = CNA.from_rows([(c, s, e, "g", 0.0) for c, s, e in bins], columns=["chromosome", "start", "end", "gene", "log2"])
        arr.sort()
        coords = [(str(c), int(s), int(e)) for c, s, e in zip(arr.data["chromosome"], arr.data["start"], arr.data["end"])]
        got = ctx.call(R.get_fasta_stats, arr, fa)
        ctx.state(("gc-fasta", case["content"], width, name), nontrivial=True)
        ctx.stratum("gc-fasta: line width %s the record" % ("<" if width < n else ">="))
        if isinstance(got, Exc):
            ctx.violation("gc and rmask are returned for every bin", f"get_fasta_stats/raises/{got.key}", observed=got, sub={"record": name})
            continue
        ctx.trace()
        gcs, rms = list(got[0]), list(got[1])
        if len(gcs) != len(coords) or len(rms) != len(coords):
            ctx.violation("one gc and one rmask value per bin", "get_fasta_stats/length", expected=len(coords), observed=[len(gcs), len(rms)], sub={"record": name})
            continue
        for (c, s, e), g, r in zip(coords, gcs, rms):
            judge_gc_pair(ctx, (g, r), seq[s:e], "get_fasta_stats", {"record": c, "start": s, "end": e, "width": width}, trace=False)
            ctx.stratum("gc-fasta: bin " + ("crosses a line break" if s // width != (e - 1) // width else "inside one line"))
    # both records in one table (chromosome selection)
    both = [(name, s, s + 6) for name, seq in recs for s in range(0, len(seq) - 5, 6)]
    arr = CNA.from_rows([(c, s, e, "g", 0.0) for c, s, e in both], columns=["chromosome", "start", "end", "gene", "log2"])
    arr.sort()
    coords = [(str(c), int(s), int(e)) for c, s, e in zip(arr.data["chromosome"], arr.data["start"], arr.data["end"])]
    got = ctx.call(R.get_fasta_stats, arr, fa)
    ctx.state(("gc-fasta-both", case["content"], width), nontrivial=True)
    if isinstance(got, Exc):
        ctx.violation("gc and rmask are returned for every bin", f"get_fasta_stats/raises/{got.key}", observed=got, sub={"record": "both"})
    else:
        ctx.trace()
        for (c, s, e), g, r in zip(coords, list(got[0]), list(got[1])):
            judge_gc_pair(ctx, (g, r), seqs[c][s:e], "get_fasta_stats/two-records", {"record": c, "start": s, "end": e, "width": width}, trace=False)
    # nested bins: an earlier bin reaches past the end of the table's last bin on that chromosome
    for name, seq in recs:
        n = len(seq)
        for table in ([(0, n), (5, 18)], [(0, 10), (2, n), (3, 5)], [(1, n - 1), (1, 2)]):
            arr = CNA.from_rows([(name, s, e, "g", 0.0) for s, e in table], columns=["chromosome", "start", "end", "gene", "log2"])
            arr.sort()
            coords = [(str(c), int(s), int(e)) for c, s, e in zip(arr.data["chromosome"], arr.data["start"], arr.data["end"])]
            got = ctx.call(R.get_fasta_stats, arr, fa)
            ctx.state(("gc-fasta-nested", case["content"], width, name, table), nontrivial=True)
            ctx.stratum("gc-fasta: nested bins (the last bin ends before an earlier one)")
            if isinstance(got, Exc):
                ctx.violation("gc and rmask are returned for every bin", f"get_fasta_stats/raises/{got.key}/nested-bins", observed=got, sub={"record": name, "bins": table})
                continue
            ctx.trace()
            for (c, s, e), g, r in zip(coords, list(got[0]), list(got[1])):
                judge_gc_pair(ctx, (g, r), seq[s:e], "get_fasta_stats/nested-bins", {"record": c, "start": s, "end": e, "width": width, "bins": table}, trace=False)
    ctx.sample("gc-fasta", {"case": case, "text": text})


MANIFEST = {
    "text": "Bounded-exhaustive exploration of the real reference builder. Every cohort of 1..4 (quick) / 1..8 (thorough) synthetic "
    "normals - every sex assignment, depth scales, deterministic noise, both chromosome naming styles, antitarget files absent / "
    "present / empty, both file orders, inside a stated deviation bound - is written as .cnn files and run through do_reference "
    "with corrections off for both reference sexes and sexes inferred / given; every output bin's log2 and spread is compared with "
    "an independent model (per-file median centring, copy-number based sex shift, neutral pseudo-sample, Tukey biweight location / "
    "midvariance), together with the statement's consequences (depth-only cohorts, chrX / chrY levels for every sex mix). Every "
    "kind of differing bin in every file position must be rejected. With corrections on (every subset, 10 % sex-chromosome share, "
    "FASTA) the consequences and the gc / rmask columns are checked. do_reference_flat is run over its full small product, "
    "calculate_gc_lo on every string up to the length bound, get_fasta_stats on every bin of small FASTA files at four line widths.",
    "note": "Trusted: pandas / numpy / pyfaidx, the model (two formulations cross-checked in selftest/refbuild.py). Noisy cohorts are "
    "claimed only over the deterministic noise alphabet; sex inference is assumed right on clear samples (C15). Not covered: "
    "autosomal null-coverage bins, clustering (do_cluster), PAR handling (diploid_parx_genome), cohorts beyond the bound, the exact "
    "values after the rolling-median corrections.",
    "technique": "exhaustive enumeration of cohort configurations / strings / bins on the real code against an independent reference model",
}

"""C18 - VCF genotypes become allele frequencies and per-segment BAF as defined.

E1: synthetic VCF texts (written by models/vcf.py) -> the real reader, load_het_snps, baf_by_ranges /
mirrored_baf / tumor_boost, do_call's and do_segmentation's baf column, rescale_baf; every result compared
with the record -> row model.  Scopes:
  select   every (sample_id, normal_id) selector pair x 1..3 samples x PEDIGREE declarations
  record1  every single-record file of the call alphabet, one sample, x filters
  record2  every single-record tumour/normal file (deviation-bounded in quick, full product in thorough)
  combo    every set of <= k records from a fixed slice: every file order x selectors x filters (rows stay
           attached to their coordinates), load_het_snps x zygosity_freq x tumor_boost, BAF over every cut of
           the contigs into <= 3 ranges x above_half x tumor_boost, do_call x purity, do_segmentation
  empty    0-record files
  rescale  the purity formula on a lattice
"""
import itertools
import math
import os
import shutil
import tempfile

from checks.common import GA, np, pd
from mc.engine import Exc
from models import vcf as M

from cnvlib import call as cnv_call  # noqa: E402
from cnvlib import cmdutil, segmentation  # noqa: E402
from cnvlib.cnary import CopyNumArray as CNA  # noqa: E402
from skgenome import tabio  # noqa: E402

ID = "C18"
BUDGET = {"quick": 1500, "thorough": 7200}
CASE_TIMEOUT = 1800

TMP_ROOT = "/dev/shm" if os.path.isdir("/dev/shm") and os.access("/dev/shm", os.W_OK) else tempfile.gettempdir()
NAN = float("nan")

# ------------------------------------------------------------------------------------------ alphabets
GTS = ["0/1", "0/0", "1/1", "0|1", "1|0", "./.", "1/0", "0|0", "1|1"]
ADS = [(10, 10), (20, 0), (0, 20), (3, 27), (15, 5), (5, 15), (6, 6)]
FILTERS = ["PASS", ".", "q10"]
KINDS = {  # ref, alt, has END
    "snv": ("A", "G", False),
    "ins": ("A", "ATG", False),
    "del": ("ATG", "A", False),
    "sym": ("A", "<DEL>", True),
}


def gt_class(gt):
    return "nocall" if "." in gt else ("phased" if "|" in gt else "unphased")


def sample_calls(fmt):
    """Per-sample (name, ad, dp) values that can sit under a FORMAT of these keys."""
    out = []
    if fmt == ("GT", "AD", "DP"):
        out += [("ad%d,%d+dp" % ad, ad, sum(ad)) for ad in ADS]
        out += [("ad10,10+dp24", (10, 10), 24)]  # DP counts more reads than AD
        out += [("ad%d,%d+dp." % ad, ad, None) for ad in ADS[:2]]
        out += [("ad.+dp25", None, 25), ("ad.+dp.", None, None)]
    elif fmt == ("GT", "AD"):
        out += [("ad%d,%d" % ad, ad, None) for ad in ADS]
        out += [("ad.", None, None)]
    elif fmt == ("GT", "DP"):
        out += [("dp25", None, 25), ("dp12", None, 12), ("dp.", None, None)]
    else:
        out += [("gt-only", None, None)]
    return out


FMTS = [("GT", "AD", "DP"), ("GT", "AD"), ("GT", "DP"), ("GT",)]
INFO_DPS = [None, 40]


def forms():
    """(form name, fmt, info_dp, ad, dp) for one sample: every depth / count source combination."""
    out = []
    for fmt in FMTS:
        for name, ad, dp in sample_calls(fmt):
            for idp in INFO_DPS:
                if idp is not None and not (ad is None and dp is None) and name != "ad10,10+dp":
                    continue  # INFO DP matters only when the sample has no depth of its own; one control with both
                out.append((":".join(fmt) + "/" + name + ("/infoDP" if idp else ""), fmt, idp, ad, dp))
    return out


FORMS = forms()


def mkrec(chrom, pos, kind, calls, fmt, somatic=False, filt="PASS", info_dp=None):
    ref, alt, has_end = KINDS[kind]
    return {
        "chrom": chrom, "pos": pos, "ref": ref, "alt": alt, "filter": filt, "somatic": somatic, "info_dp": info_dp,
        "end": pos + 50 if has_end else None, "fmt": list(fmt), "calls": calls,
    }


def call(gt, ad, dp="sum"):
    return {"gt": gt, "ad": list(ad) if ad is not None else None, "dp": (sum(ad) if ad is not None else None) if dp == "sum" else dp}


def extras(tier):
    """(somatic, filter, kind): full product in thorough; deviation <= 1 from (., PASS, snv) x somatic in quick."""
    if tier == "thorough":
        return [(s, f, k) for s in (False, True) for f in FILTERS for k in KINDS]
    out = [(False, "PASS", "snv"), (True, "PASS", "snv")]
    out += [(False, f, k) for f in FILTERS for k in KINDS if (f, k) != ("PASS", "snv")]
    return out


# the slice of tumour/normal records the multi-record files are drawn from: (chrom, pos, kind, T call, N call, fmt, extra)
def slice_records(n):
    F3 = ("GT", "AD", "DP")
    S = [
        ("1", 21, "snv", call("0/1", (6, 14)), call("0/1", (12, 8)), F3, {}),  # het; t 0.7 n 0.4
        ("1", 41, "snv", call("0/1", (14, 6)), call("0/1", (10, 10)), F3, {}),  # het; t 0.3 n 0.5
        ("1", 61, "snv", call("0/1", (4, 16)), call("0|1", (8, 12)), F3, {}),  # het, phased normal; t 0.8 n 0.6
        ("1", 31, "snv", call("1/1", (0, 20)), call("1/1", (0, 20)), F3, {}),  # germline hom-alt
        ("1", 51, "snv", call("0/1", (10, 10)), call("0/0", (20, 0)), F3, {}),  # somatic by genotype
        ("1", 11, "snv", call("0/1", (12, 8)), call("0/1", (9, 11)), F3, {"somatic": True}),  # SOMATIC flag
        ("1", 71, "snv", call("0/1", (9, 27)), call("0/1", (6, 6)), F3, {}),  # tumour depth 36, normal depth 12
        ("1", 81, "snv", call("0/1", (3, 9)), call("0/1", (18, 6)), F3, {}),  # tumour depth 12, normal depth 24; n 0.25
        ("2", 15, "snv", call("1|0", (10, 10)), call("0/1", (15, 5)), F3, {}),  # other contig; n 0.25 boundary
        ("2", 35, "ins", call("0/1", (12, 8)), call("0/1", (5, 15)), F3, {"filt": "q10"}),  # n 0.75 boundary
        ("1", 91, "snv", call("./.", None, None), call("0/1", (8, 12)), ("GT", "AD"), {}),  # tumour not called
        ("2", 55, "del", call("0/0", (20, 0)), call("0/0", (20, 0)), F3, {"filt": "."}),  # hom-ref
        # thorough-only tail
        ("1", 22, "snv", call("0/1", (16, 4)), call("0/1", (11, 9)), F3, {}),  # abuts record 0; t 0.2
        ("1", 21, "ins", call("0/1", (7, 13)), call("0/1", (10, 10)), F3, {}),  # same position as record 0, other alleles
        ("3", 5, "snv", call("0/1", (13, 7)), call("1|0", (9, 11)), F3, {}),  # third contig
        ("1", 45, "snv", call("0/1", None, 30), call("0/1", None, 30), ("GT", "DP"), {}),  # no allele counts
        ("2", 75, "snv", call("0/1", (0, 20)), call("0/1", (0, 20)), F3, {}),  # tumour and normal freq 1 (TumorBoost undefined)
        ("1", 65, "snv", call("0/1", (1, 19)), call("0/1", (10, 10)), F3, {}),  # t 0.95
        ("2", 5, "snv", call("0/1", (10, 10)), call("0/1", (10, 10)), ("GT",), {"info_dp": 50}),  # depth from INFO only
        ("1", 99, "sym", call("0/1", (10, 10)), call("0/1", (10, 10)), F3, {}),  # symbolic allele with END
    ]
    return [mkrec(c, p, k, [t, nn], fmt, **x) for c, p, k, t, nn, fmt, x in S[:n]]


CONTIGS = [("1", 1000), ("2", 1000), ("3", 1000)]
CUTS_Q = [20, 21, 45, 65]
CUTS_T = [20, 21, 22, 35, 45, 65, 85]


def segment_tables(tier):
    """(name, ranges): every cut of contig 1 [0,100) into <= 3 ranges x contig-2 layouts; full = all variants run."""
    cuts = CUTS_T if tier == "thorough" else CUTS_Q
    out = []
    for k in (0, 1, 2):
        for cs in itertools.combinations(cuts, k):
            edges = [0] + list(cs) + [100]
            one = [("1", a, b) for a, b in zip(edges, edges[1:])]
            layouts = ["whole", "absent", "split"] if (k <= 1 or tier == "thorough") else ["whole"]
            for lay in layouts:
                two = {"whole": [("2", 0, 100)], "absent": [], "split": [("2", 0, 30), ("2", 30, 100)]}[lay]
                out.append({"cuts": list(cs), "layout": lay, "ranges": one + two})
    out.append({"cuts": [], "layout": "only2", "ranges": [("2", 0, 100)]})
    out.append({"cuts": [], "layout": "with3", "ranges": [("1", 0, 100), ("2", 0, 100), ("3", 0, 100)]})
    return out


def ped_variants(n):
    names = ["S%d" % i for i in range(n)]
    out = [[]]
    for a in names:
        for b in names:
            if a != b:
                out.append([(a, b)])
    if n == 3:
        out.append([("S2", "S1"), ("S0", "S1")])
        out.append([("S1", "S0"), ("S2", "S0")])
    return out


SEL_ADS = [(10, 10), (18, 6), (7, 21)]


def describe(tier):
    t = tier == "thorough"
    return {
        "rule": "every synthetic VCF of the stated alphabets is written as text, read by the real reader for every selector / "
        "filter configuration, passed through load_het_snps, baf_by_ranges / mirrored_baf / tumor_boost, do_call and "
        "do_segmentation, and compared field by field with the record -> row model. state = canonical (file, selectors, "
        "options[, segment table]); non-trivial = the file has a record that a filter drops, a paired normal, or a "
        "heterozygous record inside a range",
        "bound": {
            "select": "1..3 samples x PEDIGREE {absent, every single Derived/Original pair, two declarations} x sample_id, normal_id in "
            "{None, every name, every index}; read + load_het_snps",
            "record1": f"{len(GTS)} genotypes x {len(FORMS)} depth/count forms x "
            + ("somatic x FILTER x kind (full)" if t else "somatic x (FILTER, kind) within 1 deviation")
            + " x min_depth {None, 20} x skip_somatic; load_het_snps x zygosity_freq {None, 0.25}" + ("" if t else " on the FILTER=PASS files"),
            "record2": "tumour call x normal call under a shared FORMAT: "
            + ("full product per FORMAT" if t else "each call x a small set of partners, both roles")
            + " x min_depth {None, 20}; tumor_boost / mirrored_baf vectors; load_het_snps x zygosity_freq {None, 0.25} x tumor_boost",
            "combo": (f"every set of <= 3 records from a {N_SLICE_T}-record slice and every set of 4 from its first {N_SLICE_Q}" if t else f"every set of <= 3 records from a {N_SLICE_Q}-record slice")
            + "; every file order (<= 3 records; listed / reversed / rotated for 4) x selector pairs {default, (T,N)} (+ (N,T) for the listed order) "
            "x 4 filter configurations; "
            "load_het_snps x selectors x zygosity_freq {None, 0.25} x min depth {20, None} x tumor_boost; BAF x segment tables x "
            "above_half {None, True, False} x tumor_boost; do_call x purity {None, 0.5, 0.8, 1.0}; do_segmentation {none, haar}",
            "segment_tables": f"contig 1 [0,100) cut at <= 2 of {CUTS_T if t else CUTS_Q} x contig-2 layouts {{whole, absent, split}}"
            + ("" if t else " (two-cut tables: whole only)")
            + ", plus contig-2-only and 3 contigs; above_half / tumor_boost variants on the 'whole' layouts of the paired arrays",
            "empty": "0-record files x 1..2 samples",
            "rescale": "purity {0.05..1.0} x baf {0, 0.2, 0.5, 0.7, 1, NaN}",
        },
        "alphabet": {"GT": GTS, "AD": [list(a) for a in ADS], "forms": [f[0] for f in FORMS], "filters": FILTERS, "kinds": list(KINDS)},
        "assumptions": [
            "multi-allelic records, ALT '.', <NON_REF>, a FORMAT without GT and a VCF without sample columns are outside the claim",
            "selectors naming a sample that is not in the file, the same column as sample and normal, or the file's only sample as the "
            "normal are outside the claim (not documented)",
            "a requested sample that is not a PEDIGREE-declared tumour: the sample is demanded, its normal is left open",
            "depth = sample DP, else sum of AD, else INFO DP (DESIGN C18); a missing depth / count / genotype may be reported as missing or 0; "
            "a missing genotype is only required not to be heterozygous; alt_freq is demanded only where count and depth are known and depth > 0",
            "row end is demanded only for SNVs (start + 1); indel / symbolic ends are open (ranges in the BAF scopes never cut through them)",
            "the depth filter of a paired read looks at the normal's depth (DESIGN C18 must-catch); it is left open when the sample has no depth anywhere in the file",
            "zygosity_freq thresholds follow the zygosity_from_freq docstring: het when zf <= freq < 1 - zf",
            "no heterozygous record at all: load_het_snps may return nothing or fall back to all filtered records (documented); a pair "
            "whose normal genotypes are all reference may use the documented 0.25 work-around; BAF over a fall-back table is not claimed",
            "mirroring side with above_half=None: the majority side; open on ties and when values exactly at 0.5 make count-majority and "
            "median-side disagree",
            "row order of the table is not claimed here (C07/C08 territory): rows are matched by (chromosome, start, ref, alt)",
        ],
    }


N_SLICE_Q, N_SLICE_T = 12, 20


# -------------------------------------------------------------------------------------------- cases
def cases(tier):
    t = tier == "thorough"
    yield {"check": "rescale"}
    for n in (1, 2):
        yield {"check": "empty", "n": n}
    for n in (1, 2, 3):
        for ped in ped_variants(n):
            yield {"check": "select", "n": n, "ped": ped}
    n = N_SLICE_T if t else N_SLICE_Q
    for i in range(n):  # one- and two-record tumour/normal files first: the smallest inputs of the het / BAF scopes
        yield {"check": "combo", "n": n, "recs": [i]}
    for combo in itertools.combinations(range(N_SLICE_Q), 2):
        yield {"check": "combo", "n": n, "recs": list(combo)}
    for fi in range(len(FORMS)):
        for gt in GTS:
            yield {"check": "record1", "gt": gt, "form": fi, "full": t}
    for fmt in FMTS:
        calls = sample_calls(fmt)
        for ci in range(len(calls)):
            for gt in GTS:
                yield {"check": "record2", "fmt": list(fmt), "call": ci, "gt": gt, "full": t}
    for k in (2, 3):
        for combo in itertools.combinations(range(n), k):
            if k == 2 and combo[1] < N_SLICE_Q:
                continue  # already enumerated above
            yield {"check": "combo", "n": n, "recs": list(combo)}
    if t:
        for combo in itertools.combinations(range(N_SLICE_Q), 4):
            yield {"check": "combo", "n": n, "recs": list(combo)}


def run(case, ctx):
    tmp = tempfile.mkdtemp(prefix="verif-c18-", dir=TMP_ROOT)
    try:
        RUNNERS[case["check"]](case, ctx, tmp)
    finally:
        shutil.rmtree(tmp, ignore_errors=True)


# ------------------------------------------------------------------------------------------- helpers
def py(x):
    if isinstance(x, np.generic):
        x = x.item()
    return x


def table_rows(va):
    d = va.data
    cols = list(d.columns)
    return cols, [dict(zip(cols, (py(x) for x in r))) for r in d.itertuples(index=False, name=None)]


def sel_kwargs(sid, nid):
    kw = {}
    if sid is not None:
        kw["sample_id"] = sid
    if nid is not None:
        kw["normal_id"] = nid
    return kw


FIELDS = ["end", "somatic", "zygosity", "depth", "alt_count", "alt_freq"]  # alt_freq after its two inputs
NFIELDS = ["n_zygosity", "n_depth", "n_alt_count", "n_alt_freq"]
CLAUSE = {
    "rows": "reading yields exactly one row per record that passes the depth and somatic filters asked for",
    "start": "each row carries the record's 0-based start",
    "pairing": "the sample -- and paired normal, if any -- are the ones chosen by the documented rules",
    "end": "an SNV row covers exactly its base",
    "somatic": "the SOMATIC flag of the record is reported",
    "zygosity": "zygosity is 0 / 0.5 / 1 from the genotype",
    "depth": "depth is the chosen sample's read depth",
    "alt_count": "alt_count is the chosen sample's alt-allele count",
    "alt_freq": "alt_freq = alt count / depth of the chosen sample, attached to its own record",
}


def rec_key(rec):
    return (rec["chrom"], rec["pos"] - 1, rec["ref"], rec["alt"])


def match_rows(vcf, exp, required, optional, cols, got_rows, paired):
    """Problems [(clause id, key part, expected, observed)] of one observed table against one admissible expectation."""
    probs = []
    got_paired = "n_depth" in cols or "n_alt_freq" in cols or "n_zygosity" in cols
    if got_rows and got_paired != paired:
        probs.append(("pairing", "pairing/" + ("normal-missing" if paired else "normal-unexpected"), {"paired": paired}, {"columns": cols}))
        return probs
    keys = [(r["chromosome"], r["start"], r["ref"], r["alt"]) for r in got_rows]
    ekeys = {rec_key(vcf["records"][exp[i]["rec"]]): i for i in required + optional}
    rkeys = {rec_key(vcf["records"][exp[i]["rec"]]) for i in required}
    missing = sorted(k for k in rkeys if k not in keys)
    extra = sorted(k for k in keys if k not in ekeys)
    dup = len(set(keys)) != len(keys)
    if missing or extra or dup:
        strip = lambda ks: sorted((k[0], k[2], k[3]) for k in ks)  # noqa: E731
        shifted = len(missing) == len(extra) and all(
            (m[0], m[2], m[3]) == (x[0], x[2], x[3]) and abs(m[1] - x[1]) == 1
            for m, x in zip(sorted(missing, key=lambda k: (k[0], k[2], k[3], k[1])), sorted(extra, key=lambda k: (k[0], k[2], k[3], k[1])))
        )
        if not dup and shifted and strip(missing) == strip(extra):
            probs.append(("start", "start", missing, extra))
        else:
            probs.append(("rows", "rows/" + ("duplicate" if dup else "missing" if missing and not extra else "extra" if extra and not missing else "different"), sorted(rkeys), sorted(keys)))
        return probs
    for k, r in zip(keys, got_rows):
        e = exp[ekeys[k]]
        wrong = set()
        for f in FIELDS + (NFIELDS if paired else []):
            base = f.replace("n_", "")
            if f not in r:
                probs.append((base, "column-missing/" + base, f, cols))
            elif not M.value_ok(e[f], r[f]):
                wrong.add(f)
                if base == "alt_freq" and {f.replace("alt_freq", "depth"), f.replace("alt_freq", "alt_count")} & wrong:
                    continue  # a consequence of the wrong count / depth already reported for this row
                probs.append((base, "field/" + base, {"record": k, f: _show(e[f])}, {f: r[f]}))
    return probs


def _show(s):
    if s == M.OPEN:
        return s
    return sorted(("missing" if isinstance(x, float) and math.isnan(x) else x for x in s), key=repr)


def check_read(ctx, vcf, sid, nid, min_depth, skip_somatic, got, prefix, feat, sub):
    """Compare one tabio.read result with the model.  Returns (sample, normal, exp rows, kept indices) or None."""
    sel = M.choose_samples(vcf, sid, nid)
    if sel is None:
        ctx.stratum("selector-outside-claim")
        return None
    s, nids = sel
    ff = ("depth" if min_depth else "nodepth") + "+" + ("skipsom" if skip_somatic else "keepsom")
    if isinstance(got, Exc):
        ctx.violation(CLAUSE["rows"], f"{prefix}/raises/{got.key}/{feat_str(feat)}", expected="a table", observed=got, sub=sub)
        return None
    ctx.trace()
    cols, rows = table_rows(got)
    ctx.outcome([cols, rows])
    best = None
    for n in sorted(nids, key=lambda x: (x is not None, str(x))):
        exp = M.expected_rows(vcf, s, n)
        req, opt = M.filter_rows(exp, min_depth, skip_somatic, n is not None)
        probs = match_rows(vcf, exp, req, opt, cols, rows, n is not None)
        if not probs:
            kept_keys = {(r["chromosome"], r["start"], r["ref"], r["alt"]) for r in rows}
            kept = [i for i in req + opt if rec_key(vcf["records"][exp[i]["rec"]]) in kept_keys]
            return s, n, exp, sorted(kept)
        if best is None or len(probs) < len(best[0]):
            best = (probs, n)
    probs, n = best
    pf = "paired" if n is not None else "unpaired"
    seen = set()
    if prefix.startswith("select") and all(kpart.startswith("field/") for _c, kpart, _w, _o in probs):
        # in the selection scope every sample column carries its own numbers: any wrong value = another sample was read
        probs = [("pairing", "values-of-another-sample", [p[2] for p in probs][:4], [p[3] for p in probs][:4])]
    for cid, kpart, want, obs in probs:
        key = read_key(prefix, cid, kpart, pf, ff, feat)
        if key in seen:
            continue
        seen.add(key)
        ctx.violation(CLAUSE[cid], key, expected=want, observed=obs, sub={**sub, "model_sample": s, "model_normal": n})
    return None


def feat_str(feat):
    return feat if isinstance(feat, str) else "/".join(str(feat[k]) for k in ("gt", "fmt", "kind", "sel", "scope") if k in feat)


def read_key(prefix, cid, kpart, pf, ff, feat):
    """Finding classifier: the failing clause plus only the input features that clause depends on."""
    if isinstance(feat, str):
        feat = {"scope": feat}
    parts = [prefix, kpart, pf]
    if cid == "rows":
        parts.append(ff)
    if cid in ("start", "end", "rows") and "kind" in feat:
        parts.append(feat["kind"])
    if cid == "zygosity" and "gt" in feat:
        parts.append(feat["gt"])
    if cid in ("depth", "alt_count", "alt_freq") and "fmt" in feat:
        parts.append(feat["fmt"])
    if cid in ("depth", "alt_count", "alt_freq", "zygosity", "somatic") and "order" in feat:
        parts.append(feat["order"])
    if cid == "pairing" and "sel" in feat:
        parts.append(feat["sel"])
    if "scope" in feat:
        parts.append(feat["scope"])
    return "/".join(parts)


def do_read(ctx, path, sid, nid, min_depth, skip_somatic):
    kw = sel_kwargs(sid, nid)
    if min_depth is not None:
        kw["min_depth"] = min_depth
    if skip_somatic:
        kw["skip_somatic"] = True
    return ctx.call(lambda: tabio.read(path, "vcf", **kw))


FILTER_CONFIGS = [(None, False), (20, False), (None, True), (20, True)]


def close(a, b):
    if a is None or b is None:
        return False
    if isinstance(a, float) and math.isnan(a):
        return isinstance(b, float) and math.isnan(b)
    if isinstance(b, float) and math.isnan(b):
        return False
    return abs(a - b) <= 1e-9 * max(1.0, abs(a), abs(b))


def cmp_vector(ctx, clause, key, adm, got, sub):
    """adm: per element M.OPEN or a list of admissible floats (NaN = missing).  True when compared equal."""
    if isinstance(got, Exc):
        ctx.violation(clause, f"{key}/raises/{got.key}", expected=_adm_show(adm), observed=got, sub=sub)
        return False
    ctx.trace()
    got = [None if x is None else float(x) for x in got]
    ctx.outcome([key.split("/")[0], got])
    if len(got) != len(adm):
        ctx.violation(clause, f"{key}/length", expected=_adm_show(adm), observed=got, sub=sub)
        return False
    for a, g in zip(adm, got):
        if a == M.OPEN:
            continue
        if not any(close(x, g) for x in a):
            ctx.violation(clause, key, expected=_adm_show(adm), observed=got, sub=sub)
            return False
    return True


def _adm_show(adm):
    return [a if a == M.OPEN else ["missing" if isinstance(x, float) and math.isnan(x) else x for x in a] for a in adm]


# ------------------------------------------------------------------------------- model of one array
CHROM_ORDER = {"1": 0, "2": 1, "3": 2}


def snp_table(vcf, exp, kept, paired):
    """The model's view of an array holding the records `kept`: one dict per row, in genomic order."""
    out = []
    for i in kept:
        e = exp[i]
        rec = vcf["records"][e["rec"]]
        start = rec["pos"] - 1
        end_max = max(start + len(rec["ref"]), start + len(rec["alt"]), rec["end"] or 0, start + 1)
        gz = e["n_zygosity"] if paired else e["zygosity"]
        out.append({
            "i": i, "chrom": rec["chrom"], "start": start, "end_min": start + 1, "end_max": end_max,
            "t": M._single(e["alt_freq"]), "n": M._single(e["n_alt_freq"]) if paired else None,
            "het": gz == {0.5}, "maybe_het": 0.5 in gz,
        })
    out.sort(key=lambda s: (CHROM_ORDER[s["chrom"]], s["start"], s["end_max"]))
    return out


def boosted(s):
    if s["t"] is None or s["n"] is None:
        return None
    return M.tumor_boost(s["t"], s["n"])


def expected_baf(snps, ranges, above_half, freq_of):
    """Per range: admissible BAF list, or OPEN when an open frequency or an open end is involved."""
    out = []
    for c, s0, e0 in ranges:
        vals, is_open = [], False
        for s in snps:
            if s["chrom"] != c:
                continue
            lo = s["start"] < e0 and s["end_min"] > s0
            hi = s["start"] < e0 and s["end_max"] > s0
            if lo != hi:
                is_open = True
            elif lo:
                f = freq_of(s)
                if f is None:
                    is_open = True
                else:
                    vals.append(f)
        out.append(M.OPEN if is_open else M.range_baf(vals, above_half))
    return out


def baf_feature(snps, ranges, above_half, freq_of, all_rows, tumor_boost):
    """Input-feature part of the finding key (from the model only)."""
    parts = []
    if not all_rows:
        parts.append("no-records")
    if above_half is not None:
        single_other = False
        for c, s0, e0 in ranges:
            inside = [freq_of(s) for s in snps if s["chrom"] == c and s["start"] < e0 and s["end_min"] > s0]
            if len(inside) == 1 and inside[0] is not None and ((inside[0] < 0.5) if above_half else (inside[0] > 0.5)):
                single_other = True
        if single_other:
            parts.append("side-requested+lone-snp-on-other-side")
    if tumor_boost:
        prefix = [s["i"] for s in all_rows[: len(snps)]] == [s["i"] for s in snps]
        parts.append("tumor_boost" + ("" if prefix else "+row-dropped-before-a-het"))
    return "/".join(parts) or "plain"


_GA_CACHE = {}


def ga_ranges(ranges):
    """The segment table as a GenomicArray (cached; a private copy of the frame is handed out each time)."""
    key = tuple(tuple(r) for r in ranges)
    if key not in _GA_CACHE:
        _GA_CACHE[key] = GA.from_rows(list(key), columns=["chromosome", "start", "end"])
    return _GA_CACHE[key].copy()


BAF_CLAUSE = "the BAF of a range is the median of the heterozygous frequencies inside it mirrored to one side of 0.5, missing where there are none"
BOOST_CLAUSE = "TumorBoost follows its formula and stays attached to the record it was computed from"


def check_baf(ctx, arr, name, all_rows, het_rows, paired, tables, variants, sub):
    """baf_by_ranges of one real array over segment tables; het_rows = the model's heterozygous rows (None = not claimed)."""
    hit = False
    for tab in tables:
        ranges = tab["ranges"]
        seg = ga_ranges(ranges)
        for above_half, tb in variants(tab):
            if tb and not paired:
                continue
            kw = {}
            if above_half is not None:
                kw["above_half"] = above_half
            if tb:
                kw["tumor_boost"] = True
            if het_rows is None:
                ctx.stratum("baf-not-claimed(no-het-fallback-or-open-genotype)")
                continue
            freq_of = boosted if tb else (lambda s: s["t"])
            adm = expected_baf(het_rows, ranges, above_half, freq_of)
            if all(a == M.OPEN for a in adm):
                ctx.stratum("baf-not-claimed(open-frequencies)")
                continue
            got = ctx.call(lambda: [py(x) for x in arr.baf_by_ranges(seg, **kw)])
            feat = baf_feature(het_rows, ranges, above_half, freq_of, all_rows, tb)
            cmp_vector(ctx, BAF_CLAUSE, f"baf_by_ranges/{feat}", adm, got, {**sub, "array": name, **tab, **kw})
            for a in adm:
                if a != M.OPEN:
                    nin = "nan" if any(isinstance(x, float) and math.isnan(x) for x in a) else "value"
                    ctx.stratum("range-baf-" + nin)
                    hit = hit or nin == "value"
                else:
                    ctx.stratum("range-baf-open")
    return hit


def check_baf_history(ctx, arr, name, het_rows, tables, sub):
    """One array asked for its BAFs, its frequencies then edited in place (every alt_freq halved through the public
    column assignment), and asked again: the second answer is the median of the frequencies the records hold now."""
    if het_rows is None:
        return
    halved = lambda s: None if s["t"] is None else s["t"] * 0.5  # noqa: E731
    for tab in tables:
        ranges = tab["ranges"]
        adm = expected_baf(het_rows, ranges, None, halved)
        if all(a == M.OPEN for a in adm):
            continue
        seg = ga_ranges(ranges)
        a = arr.copy()

        def asked_edited_asked():
            a.baf_by_ranges(seg)
            a["alt_freq"] = a["alt_freq"] * 0.5
            return [py(x) for x in a.baf_by_ranges(seg)]

        got = ctx.call(asked_edited_asked)
        cmp_vector(ctx, BAF_CLAUSE, "baf_by_ranges/history/asked-frequencies-edited-asked-again", adm, got, {**sub, "array": name, **tab, "history": "baf_by_ranges; alt_freq halved in place; baf_by_ranges"})
        ctx.stratum("baf-history: asked, frequencies edited in place, asked again")


ALL6 = [(None, False), (True, False), (False, False), (None, True), (True, True), (False, True)]


def v_full(tab):
    """every (above_half, tumor_boost) on the tables whose contig-2 layout is 'whole', the default elsewhere"""
    return ALL6 if tab["layout"] == "whole" else [(None, False)]


def v_boost(tab):
    return [(None, False), (True, False), (False, False), (None, True)] if tab["layout"] == "whole" else [(None, False)]


def v_default(tab):
    return [(None, False)]


def v_whole_default(tab):
    return [(None, False)] if tab["layout"] == "whole" else []


def check_vectors(ctx, arr, name, rows, paired, sub):
    """tumor_boost() and mirrored_baf() are per-row vectors in the array's row order."""
    if paired:
        adm = []
        for s in rows:
            b = boosted(s)
            adm.append(M.OPEN if b is None else [b])
        if any(a != M.OPEN for a in adm):
            got = ctx.call(lambda: [py(x) for x in arr.tumor_boost()])
            cmp_vector(ctx, BOOST_CLAUSE, f"tumor_boost/{name}", adm, got, sub)
            ctx.stratum("tumor_boost-vector")
        else:
            ctx.stratum("tumor_boost-not-claimed(no-defined-pair-of-frequencies)")
    for above_half in (None, True, False):
        for tb in (False, True) if paired else (False,):
            vals = [boosted(s) if tb else s["t"] for s in rows]
            if any(v is None for v in vals) or not vals:
                ctx.stratum("mirrored-not-claimed(open-frequency-or-empty)")
                continue
            kw = {}
            if above_half is not None:
                kw["above_half"] = above_half
            if tb:
                kw["tumor_boost"] = True
            got = ctx.call(lambda: [py(x) for x in arr.mirrored_baf(**kw)])
            cands = M.mirrored_baf(vals, above_half)
            if isinstance(got, Exc):
                ctx.violation("mirrored frequencies are 0.5 +- |f - 0.5| on one side", f"mirrored_baf/{name}/raises/{got.key}", expected=cands, observed=got, sub={**sub, **kw})
                continue
            ctx.trace()
            ctx.outcome(["mirrored", got])
            if not any(len(c) == len(got) and all(close(x, float(g)) for x, g in zip(c, got)) for c in cands):
                ctx.violation(
                    "mirrored frequencies are 0.5 +- |f - 0.5| on one side, one per row, in row order",
                    f"mirrored_baf/{name}/above_half={above_half}/tumor_boost={tb}",
                    expected=cands, observed=got, sub={**sub, **kw},
                )


HET_CLAUSE = "load_het_snps keeps exactly the germline-heterozygous records (after the depth and somatic filters), each with its own frequencies"


def check_het(ctx, vcf, path, sid, nid, min_depth, zf, tb, prefix, feat, sub):
    """load_het_snps against the model.  Returns (array, exp rows, kept indices, indices that passed the read
    filters, kept-set-is-the-het-set) or None."""
    sel = M.choose_samples(vcf, sid, nid)
    if sel is None:
        return None
    s, nids = sel
    if tb:
        nn = sorted(nids, key=lambda x: (x is not None, str(x)))[-1]
        if nn is None:
            ctx.stratum("het-tumor-boost-unpaired-not-claimed")
            return None
        allrows = snp_table(vcf, M.expected_rows(vcf, s, nn), list(range(len(vcf["records"]))), True)
        if all(boosted(x) is None for x in allrows):
            ctx.stratum("het-tumor-boost-not-claimed(no-defined-pair-of-frequencies)")
            return None
    kw = sel_kwargs(sid, nid)
    kw["min_variant_depth"] = min_depth
    if zf is not None:
        kw["zygosity_freq"] = zf
    if tb:
        kw["tumor_boost"] = True
    got = ctx.call(lambda: cmdutil.load_het_snps(path, **kw))
    sub = {**sub, "load_het_snps": kw}
    opts = ("zygosity_freq" if zf is not None else "genotypes") + ("+tumor_boost" if tb else "")
    fs = feat.get("gt", "") if isinstance(feat, dict) else feat
    if isinstance(got, Exc):
        ctx.violation(HET_CLAUSE, f"{prefix}/raises/{got.key}/{opts}", expected="a table", observed=got, sub=sub)
        return None
    cols, rows = table_rows(got)
    ctx.outcome(["het", cols, rows])
    keys = [(r["chromosome"], r["start"], r["ref"], r["alt"]) for r in rows]
    problems = []
    for n in sorted(nids, key=lambda x: (x is not None, str(x))):
        paired = n is not None
        if tb and not paired:
            ctx.stratum("het-tumor-boost-unpaired-not-claimed")
            return None
        exp = M.expected_rows(vcf, s, n)
        req, opt = M.filter_rows(exp, min_depth, True, paired)
        got_paired = "n_alt_freq" in cols
        if rows and got_paired != paired:
            problems.append((f"{prefix}/pairing", {"paired": paired}, cols))
            continue
        kmap = {rec_key(vcf["records"][exp[i]["rec"]]): i for i in req + opt}
        if any(k not in kmap for k in keys) or len(set(keys)) != len(keys):
            problems.append((f"{prefix}/kept-set/unfiltered-or-duplicate/" + ("depth" if min_depth else "nodepth"), sorted(kmap), keys))
            continue
        got_set = frozenset(kmap[k] for k in keys)
        admissible, unique = [], True
        for mask in range(1 << len(opt)):
            kept = req + [o for b, o in enumerate(opt) if mask >> b & 1]
            outs = M.het_selection(exp, sorted(kept), paired, zf)
            if outs is None:
                ctx.stratum("het-not-claimed(open-frequency)")
                return None
            admissible += outs
        unique = len(set(admissible)) == 1
        if got_set not in admissible:
            problems.append(("/".join(x for x in (prefix, "kept-set", opts, "paired" if paired else "unpaired", fs) if x), [sorted(a) for a in dict.fromkeys(admissible)], sorted(got_set)))
            continue
        ctx.trace()
        # values stay attached to their records
        bad = None
        for k, r in zip(keys, rows):
            e = exp[kmap[k]]
            fields = ["depth", "alt_count"] + (["n_depth", "n_alt_count", "n_alt_freq"] if paired else [])
            if not tb:
                fields.append("alt_freq")
            for f in fields:
                if f not in r or not M.value_ok(e[f], r[f]):
                    bad = bad or (f"{prefix}/field/{f.replace('n_', '')}", {"record": k, f: _show(e[f])}, {f: r.get(f)})
            if tb:
                t, nn = M._single(e["alt_freq"]), M._single(e["n_alt_freq"])
                b = M.tumor_boost(t, nn) if t is not None and nn is not None else None
                if b is not None and not close(b, r.get("alt_freq")):
                    gap = "row-dropped-before-a-kept-row" if _gap(vcf, set(req) | got_set, got_set) else "kept-rows-lead"
                    bad = bad or (f"{prefix}/field/alt_freq-boosted/{gap}", {"record": k, "alt_freq": b, "tumour": t, "normal": nn}, {"alt_freq": r.get("alt_freq")})
        if bad:
            problems.append(bad)
            continue
        ctx.stratum("het-kept-%s" % ("none" if not got_set else "some"))
        is_het_outcome = bool(got_set) and unique
        return got, exp, sorted(got_set), sorted(set(req) | got_set), is_het_outcome
    key, want, obs = problems[0]
    ctx.violation(HET_CLAUSE if "boosted" not in key else BOOST_CLAUSE, key, expected=want, observed=obs, sub=sub)
    return None


def _gap(vcf, filtered, got_set):
    """True when, in genomic order of the filtered table, a record outside the kept set precedes a kept one."""
    order = sorted(filtered, key=lambda i: (CHROM_ORDER[vcf["records"][i]["chrom"]], vcf["records"][i]["pos"]))
    seen_other = False
    for i in order:
        if i in got_set:
            if seen_other:
                return True
        else:
            seen_other = True
    return False


# --------------------------------------------------------------------------------------- sub-checks
def run_rescale(case, ctx, tmp):
    for p in [0.05, 0.1, 0.25, 1 / 3, 0.5, 0.65, 0.8, 0.99, 1.0]:
        bafs = [0.0, 0.2, 0.5, 0.7, 1.0, NAN]
        got = ctx.call(lambda: [py(x) for x in cnv_call.rescale_baf(p, pd.Series(bafs))])
        adm = [[M.rescale_baf(p, b)] for b in bafs]
        cmp_vector(ctx, "purity rescaling solves tumour*purity + 0.5*(1-purity) = observed", "rescale_baf/direct", adm, got, {"purity": p})
        ctx.state(("rescale", p), nontrivial=p < 1)
    ctx.sample("rescale", {"purity": 0.5, "baf": 0.7, "tumour_baf": M.rescale_baf(0.5, 0.7)})


def run_empty(case, ctx, tmp):
    n = case["n"]
    vcf = {"samples": ["S%d" % i for i in range(n)], "pedigree": [], "contigs": CONTIGS, "records": []}
    path = os.path.join(tmp, "e.vcf")
    M.write_vcf(path, vcf)
    sels = [(None, None)] + ([("S0", "S1"), (None, 1)] if n == 2 else [("S0", None)])
    tables = [t for t in segment_tables("quick") if len(t["cuts"]) <= 1]
    for sid, nid in sels:
        paired = nid is not None
        for md, ss in FILTER_CONFIGS:
            got = do_read(ctx, path, sid, nid, md, ss)
            sub = {"sample_id": sid, "normal_id": nid, "min_depth": md, "skip_somatic": ss}
            r = check_read(ctx, vcf, sid, nid, md, ss, got, "read-empty", "no-records", sub)
            ctx.state(("empty", n, sid, nid, md, ss))
            if r is not None:
                check_baf(ctx, got, "read", [], [], paired, tables, lambda tab: [(None, False), (True, False), (None, True)], sub)
        for zf in (None, 0.25):
            res = check_het(ctx, vcf, path, sid, nid, 20, zf, False, "load_het_snps-empty", "no-records", {"sample_id": sid, "normal_id": nid})
            if res is not None:
                check_baf(ctx, res[0], "het", [], [], paired, tables, lambda tab: [(None, False), (True, False), (None, True)], {"sample_id": sid, "normal_id": nid, "zygosity_freq": zf})
                cns = CNA.from_rows([(c, s, e, "g", 0.0) for c, s, e in tables[0]["ranges"]], columns=["chromosome", "start", "end", "gene", "log2"])
                out = ctx.call(lambda: cnv_call.do_call(cns, res[0], method="none"))
                if isinstance(out, Exc):
                    ctx.violation(BAF_CLAUSE, f"do_call/raises/{out.key}/no-records", expected="a table", observed=out, sub={"sample_id": sid, "normal_id": nid})
                elif "baf" in out and not out["baf"].isna().all():
                    ctx.violation(BAF_CLAUSE, "do_call/baf/no-records", expected="missing", observed=[py(x) for x in out["baf"]], sub={"sample_id": sid, "normal_id": nid})
                else:
                    ctx.trace()
    ctx.stratum("file-without-records")
    ctx.sample("empty", {"samples": vcf["samples"]})


def run_select(case, ctx, tmp):
    n, ped = case["n"], [tuple(p) for p in case["ped"]]
    names = ["S%d" % i for i in range(n)]

    def calls(shift):
        return [call("0/1", (SEL_ADS[k][0] + shift, SEL_ADS[k][1])) for k in range(n)]

    recs = [mkrec("1", 31, "snv", calls(0), ("GT", "AD", "DP")), mkrec("1", 11, "snv", calls(4), ("GT", "AD", "DP"), somatic=True)]
    vcf = {"samples": names, "pedigree": ped, "contigs": CONTIGS, "records": recs}
    path = os.path.join(tmp, "s.vcf")
    M.write_vcf(path, vcf)
    idents = [None] + names + list(range(n))
    pfeat = "no-pedigree" if not ped else ("pedigree" if len(ped) == 1 else "two-pedigrees")
    for sid in idents:
        for nid in idents:
            sfeat = ("sample_id-given" if sid is not None else "sample_id-default") + "+" + ("normal_id-given" if nid is not None else "no-normal_id")
            sub = {"sample_id": sid, "normal_id": nid}
            sel = M.choose_samples(vcf, sid, nid)
            ctx.state(("select", n, ped, sid, nid), nontrivial=bool(sel and any(x is not None for x in sel[1])))
            if sel is None:
                ctx.stratum("selector-outside-claim")
                continue
            got = do_read(ctx, path, sid, nid, None, False)
            check_read(ctx, vcf, sid, nid, None, False, got, "select/read", {"sel": pfeat}, {**sub, "selectors": sfeat})
            check_het(ctx, vcf, path, sid, nid, 20, None, False, "select/load_het_snps", {"sel": pfeat}, sub)
            ctx.stratum("selection-" + pfeat)
            ctx.stratum("selection-paired" if None not in sel[1] else ("selection-unpaired" if sel[1] == {None} else "selection-normal-open"))
    ctx.sample("select", {"samples": names, "pedigree": ped, "records": 2})


def run_record1(case, ctx, tmp):
    fname, fmt, idp, ad, dp = FORMS[case["form"]]
    gt = case["gt"]
    path = os.path.join(tmp, "r.vcf")
    for som, filt, kind in extras("thorough" if case.get("full") else "quick"):
        rec = mkrec("1", 101, kind, [{"gt": gt, "ad": ad, "dp": dp}], fmt, somatic=som, filt=filt, info_dp=idp)
        vcf = {"samples": ["S0"], "pedigree": [], "contigs": CONTIGS, "records": [rec]}
        M.write_vcf(path, vcf)
        feat = {"gt": gt_class(gt), "fmt": fname.split("/")[0], "kind": kind}
        sub = {"vcf": vcf}
        for md, ss in FILTER_CONFIGS:
            got = do_read(ctx, path, None, None, md, ss)
            r = check_read(ctx, vcf, None, None, md, ss, got, "read1", feat, {**sub, "min_depth": md, "skip_somatic": ss})
            dropped = r is not None and not r[3]
            ctx.state(("record1", gt, fname, som, filt, kind, md, ss), nontrivial=dropped)
            if r is not None:
                ctx.stratum("read1-row-" + ("dropped" if dropped else "kept"))
        if filt == "PASS" or case.get("full"):
            for zf in (None, 0.25):
                check_het(ctx, vcf, path, None, None, 20, zf, False, "load_het_snps1", feat, sub)
        ctx.stratum("gt-" + gt_class(gt))
        ctx.stratum("kind-" + kind)
        ctx.stratum("filter-" + filt)
        if som:
            ctx.stratum("somatic-flag")
    ctx.stratum("form-" + fname.split("/")[0])
    ctx.sample("record1", {"gt": gt, "form": fname})


T_SMALL = [("0/1", (10, 10)), ("1/1", (0, 20)), ("0/1", (3, 9))]
N_SMALL = [("0/1", (12, 8)), ("0/0", (20, 0)), ("0/1", (3, 3)), ("./.", None)]


def _small_call(fmt, gt, ad):
    c = {"gt": gt, "ad": None, "dp": None}
    if "AD" in fmt:
        c["ad"] = list(ad) if ad is not None else None
    if "DP" in fmt:
        c["dp"] = sum(ad) if ad is not None else None
    return c


def run_record2(case, ctx, tmp):
    fmt = tuple(case["fmt"])
    calls = sample_calls(fmt)
    name, ad, dp = calls[case["call"]]
    gt = case["gt"]
    mine = {"gt": gt, "ad": list(ad) if ad is not None else None, "dp": dp}
    pairs = []  # (role of the enumerated call, tumour call, normal call)
    if case.get("full"):
        for g2 in GTS:
            for n2, ad2, dp2 in calls:
                pairs.append(("t", mine, {"gt": g2, "ad": list(ad2) if ad2 is not None else None, "dp": dp2}))
    else:
        for g2, ad2 in N_SMALL:
            pairs.append(("t", mine, _small_call(fmt, g2, ad2)))
        for g2, ad2 in T_SMALL:
            pairs.append(("n", _small_call(fmt, g2, ad2), mine))
    path = os.path.join(tmp, "p.vcf")
    for role, tc, nc in pairs:
        for idp in INFO_DPS if (tc["ad"] is None and tc["dp"] is None) or (nc["ad"] is None and nc["dp"] is None) else [None]:
            rec = mkrec("1", 101, "snv", [tc, nc], fmt, info_dp=idp)
            vcf = {"samples": ["T", "N"], "pedigree": [], "contigs": CONTIGS, "records": [rec]}
            M.write_vcf(path, vcf)
            feat = {"gt": gt_class(gt), "fmt": ":".join(fmt), "kind": "snv"}
            sub = {"vcf": vcf, "enumerated": "tumour" if role == "t" else "normal"}
            for md, ss in FILTER_CONFIGS[:2]:
                got = do_read(ctx, path, "T", "N", md, ss)
                r = check_read(ctx, vcf, "T", "N", md, ss, got, "read2", feat, {**sub, "min_depth": md, "skip_somatic": ss})
                dropped = r is not None and not r[3]
                ctx.state(("record2", fmt, tc, nc, idp, md, ss), nontrivial=True)
                if r is not None:
                    ctx.stratum("read2-row-" + ("dropped" if dropped else "kept"))
                    if md is None:
                        exp, kept = r[2], r[3]
                        rows = snp_table(vcf, exp, kept, True)
                        check_vectors(ctx, got, "read2", rows, True, sub)
            for zf in (None, 0.25):
                res = check_het(ctx, vcf, path, "T", "N", 20, zf, False, "load_het_snps2", feat, sub)
                if res is not None and zf is None:
                    check_het(ctx, vcf, path, "T", "N", 20, zf, True, "load_het_snps2", feat, sub)
    ctx.sample("record2", {"fmt": list(fmt), "call": name, "gt": gt})


def file_orders(k_recs):
    k = len(k_recs)
    if k <= 3:
        return [list(p) for p in itertools.permutations(k_recs)]
    base = list(k_recs)
    outs = [base, base[::-1]] + [base[i:] + base[:i] for i in range(1, k)]
    return [list(x) for x in dict.fromkeys(tuple(o) for o in outs)]


COMBO_SELECTORS = [(None, None), ("T", "N"), ("N", "T")]


def run_combo(case, ctx, tmp):
    thorough = case["n"] > N_SLICE_Q
    slice_ = slice_records(case["n"])
    idxs = case["recs"]
    path = os.path.join(tmp, "m.vcf")
    base_sub = {"records": idxs}
    genomic = sorted(idxs, key=lambda i: (CHROM_ORDER[slice_[i]["chrom"]], slice_[i]["pos"], i))
    feat = {"order": "sorted-file" if list(idxs) == genomic else "unsorted-file"}
    # (1) every file order x selectors x filters: rows stay attached to their coordinates
    for order in file_orders(idxs):
        vcf = {"samples": ["T", "N"], "pedigree": [], "contigs": CONTIGS, "records": [slice_[i] for i in order]}
        M.write_vcf(path, vcf)
        ofeat = "sorted-file" if order == genomic else "unsorted-file"
        for sid, nid in COMBO_SELECTORS if order == list(idxs) else COMBO_SELECTORS[:2]:
            for md, ss in FILTER_CONFIGS:
                got = do_read(ctx, path, sid, nid, md, ss)
                sub = {**base_sub, "order": order, "sample_id": sid, "normal_id": nid, "min_depth": md, "skip_somatic": ss}
                r = check_read(ctx, vcf, sid, nid, md, ss, got, "read", {"order": ofeat}, sub)
                nontrivial = r is not None and len(r[3]) < len(order)
                ctx.state(("combo-read", order, sid, nid, md, ss), nontrivial=nontrivial or nid is not None)
                ctx.stratum("read-" + ofeat)
                if nontrivial:
                    ctx.stratum("read-filter-dropped-a-row")
    # (2) the file in the listed order: het selection, BAF, calls
    vcf = {"samples": ["T", "N"], "pedigree": [], "contigs": CONTIGS, "records": [slice_[i] for i in idxs]}
    M.write_vcf(path, vcf)
    tables = segment_tables("thorough" if thorough else "quick")
    for sid, nid in COMBO_SELECTORS:
        paired = nid is not None
        swapped = (sid, nid) == ("N", "T")
        sub = {**base_sub, "sample_id": sid, "normal_id": nid}
        got = do_read(ctx, path, sid, nid, None, False)
        r = check_read(ctx, vcf, sid, nid, None, False, got, "read", feat, sub)
        if r is not None:
            s, n, exp, kept = r
            rows = snp_table(vcf, exp, kept, paired)
            hets = [x for x in rows if x["het"]]
            if any(x["maybe_het"] and not x["het"] for x in rows):
                hets = None
            elif not hets and rows:
                hets = None  # documented fall-back to all rows: not claimed
            if not swapped:
                hit = check_baf(ctx, got, "read", rows, hets, paired, tables, v_full if paired else v_default, sub)
                check_baf_history(ctx, got, "read", hets, [t_ for t_ in tables if t_["layout"] == "whole"], sub)
                ctx.state(("combo-baf-read", idxs, sid, nid), nontrivial=hit)
            check_vectors(ctx, got, "read", rows, paired, sub)
        for zf in (None, 0.25):
            for md in (20, None):
                for tb in (False, True) if paired else (False,):
                    if swapped and (md is None or tb):
                        continue
                    res = check_het(ctx, vcf, path, sid, nid, md, zf, tb, "load_het_snps", {}, sub)
                    ctx.state(("combo-het", idxs, sid, nid, zf, md, tb), nontrivial=res is not None and bool(res[2]))
                    if res is None or swapped or md is None:
                        continue
                    harr, exp, kept, filtered, is_het = res
                    hsub = {**sub, "zygosity_freq": zf, "load_tumor_boost": tb}
                    all_rows = snp_table(vcf, exp, filtered, paired)
                    hrows = snp_table(vcf, exp, kept, paired)
                    if tb:
                        # the array's alt_freq already is the boosted frequency
                        for x in hrows:
                            x["t"] = boosted(x)
                    claimed = hrows if (is_het or not kept) else None
                    if not kept:
                        all_rows = []
                    plain = not tb and zf is None
                    name = "het" + ("+boosted" if tb else "") + ("+zf" if zf is not None else "")
                    variants = (v_boost if paired else v_default) if plain else v_whole_default
                    hit = check_baf(ctx, harr, name, all_rows, claimed, paired and not tb, tables, variants, hsub)
                    ctx.state(("combo-baf-het", idxs, sid, nid, zf, tb), nontrivial=hit)
                    if plain:
                        check_baf_history(ctx, harr, "het", claimed, [t_ for t_ in tables if t_["layout"] == "whole"], hsub)
                        check_vectors(ctx, harr, "het", hrows, paired, hsub)
                        check_calls(ctx, harr, claimed, paired, hsub, len(idxs))
    ctx.sample("combo", {"records": [{k: v for k, v in slice_[i].items()} for i in idxs]})


CALL_RANGES = [("1", 0, 21), ("1", 21, 45), ("1", 45, 100), ("2", 0, 100)]


def check_calls(ctx, harr, hets, paired, sub, nrec):
    """The baf column of do_call (with purity rescaling) and of do_segmentation."""
    if hets is None:
        return
    cns = CNA.from_rows([(c, s, e, "g", l2) for (c, s, e), l2 in zip(CALL_RANGES, (0.0, 0.5, -0.5, 0.1))], columns=["chromosome", "start", "end", "gene", "log2"])
    base = expected_baf(hets, CALL_RANGES, None, lambda s: s["t"])
    for method, purity in (("none", None), ("none", 0.5), ("none", 0.8), ("none", 1.0), ("threshold", 0.5), ("clonal", None)):
        out = ctx.call(lambda: cnv_call.do_call(cns, harr, method=method, purity=purity))
        csub = {**sub, "method": method, "purity": purity, "ranges": CALL_RANGES}
        if isinstance(out, Exc):
            ctx.violation(BAF_CLAUSE, f"do_call/raises/{out.key}", expected="a table", observed=out, sub=csub)
            continue
        if purity and purity < 1.0:
            adm = [a if a == M.OPEN else [M.rescale_baf(purity, x) for x in a] for a in base]
        else:
            adm = base
        if "baf" not in out:
            if len(harr) == 0:
                ctx.trace()
                ctx.stratum("do_call-no-variants-no-baf-column")
            else:
                ctx.violation(BAF_CLAUSE, "do_call/no-baf-column", expected=_adm_show(adm), observed=list(out.data.columns), sub=csub)
            continue
        coords = [(r.chromosome, int(r.start), int(r.end)) for r in out]
        if coords != CALL_RANGES:
            ctx.violation("the baf column stays on the segment it was computed for", "do_call/segments-changed", expected=CALL_RANGES, observed=coords, sub=csub)
            continue
        got = [py(x) for x in out["baf"]]
        feat = "rescaled" if purity and purity < 1.0 else "plain"
        cmp_vector(ctx, BAF_CLAUSE + "; purity rescaling follows its formula", f"do_call/baf/{feat}", adm, got, csub)
        ctx.stratum("do_call-" + feat)
    # a merging filter that acts before calling (ci): the BAF of a merged segment is that of the het SNVs inside the
    # merged segment, not an average of its pieces' BAFs
    if len(harr):
        cns_ci = CNA.from_rows(
            [(c, s, e, "g", l2, 5, 1.0 + 0.5 * i, -0.1, 0.1) for i, ((c, s, e), l2) in enumerate(zip(CALL_RANGES, (0.0, 0.05, -0.05, 0.1)))],
            columns=["chromosome", "start", "end", "gene", "log2", "probes", "weight", "ci_lo", "ci_hi"],
        )
        merged = [("1", 0, 100), ("2", 0, 100)]
        out = ctx.call(lambda: cnv_call.do_call(cns_ci, harr, method="none", filters=["ci"]))
        csub = {**sub, "method": "none", "filters": ["ci"], "ranges": CALL_RANGES}
        if isinstance(out, Exc):
            ctx.violation(BAF_CLAUSE, f"do_call/raises/{out.key}/ci-filter", expected="a table", observed=out, sub=csub)
        elif "baf" not in out:
            ctx.violation(BAF_CLAUSE, "do_call/no-baf-column/ci-filter", expected="a baf column", observed=list(out.data.columns), sub=csub)
        else:
            coords = [(r.chromosome, int(r.start), int(r.end)) for r in out]
            if coords == merged:  # which segments merge is property C14's business
                adm = expected_baf(hets, merged, None, lambda s: s["t"])
                cmp_vector(ctx, BAF_CLAUSE + " (segments merged by the ci filter before the BAFs are taken)", "do_call/baf/merged-by-ci", adm, [py(x) for x in out["baf"]], {**csub, "segments": merged})
                ctx.stratum("do_call-ci-merged")
    if not len(harr):
        return
    bins = [("1", 10 * i, 10 * i + 10, "g", 0.0 if i < 5 else 1.0, 1.0) for i in range(10)] + [("2", 20 * i, 20 * i + 20, "g", 0.2, 1.0) for i in range(5)]
    cnr = CNA.from_rows(bins, columns=["chromosome", "start", "end", "gene", "log2", "weight"])
    for method in ("none", "haar"):
        out = ctx.call(lambda: segmentation.do_segmentation(cnr, method, variants=harr))
        ssub = {**sub, "segmentation": method}
        if isinstance(out, Exc):
            ctx.violation(BAF_CLAUSE, f"do_segmentation/raises/{out.key}", expected="a table", observed=out, sub=ssub)
            continue
        ranges = [(r.chromosome, int(r.start), int(r.end)) for r in out]
        if "baf" not in out:
            ctx.violation(BAF_CLAUSE, "do_segmentation/no-baf-column", expected="a baf column", observed=list(out.data.columns), sub=ssub)
            continue
        adm = expected_baf(hets, ranges, None, lambda s: s["t"])
        distinct = len({tuple(a) if a != M.OPEN else "open" for a in adm if a == M.OPEN or not any(isinstance(x, float) and math.isnan(x) for x in a)}) > 1
        cmp_vector(ctx, BAF_CLAUSE + " (baf column of the segmentation output)", f"do_segmentation/baf/{len(ranges) > 1 and 'several-segments' or 'one-segment'}",
                   adm, [py(x) for x in out["baf"]], {**ssub, "segments": ranges})
        ctx.stratum("do_segmentation-" + method)
        if distinct:
            ctx.stratum("do_segmentation-segments-with-different-baf")


RUNNERS = {
    "rescale": run_rescale,
    "empty": run_empty,
    "select": run_select,
    "record1": run_record1,
    "record2": run_record2,
    "combo": run_combo,
}

MANIFEST = {
    "text": "Bounded-exhaustive exploration of the VCF path: synthetic VCF texts of biallelic sites (every genotype form x every "
    "depth / allele-count source x SOMATIC x FILTER x SNV / indel / symbolic allele; 1..3 samples with and without PEDIGREE "
    "declarations; every set and file order of a few records from a fixed tumour/normal slice on up to 3 contigs) are read by "
    "the real reader under every selector pair, depth filter and somatic filter, passed through load_het_snps (zygosity_freq, "
    "tumor_boost), baf_by_ranges / mirrored_baf / tumor_boost over every cut of the contigs into <= 3 ranges, do_call with purity "
    "rescaling and do_segmentation, and compared field by field with a pure-Python record -> row model that keeps every value the "
    "statement leaves open as a set of admissible values. Exhaustive inside the stated bound, nothing sampled.",
    "note": "Trusted: pysam's VCF parser, pandas/numpy, the reference model (second formulations in selftest/vcf.py). Not covered: "
    "multi-allelic records, files beyond a handful of records (the statement's 500), VCFs without samples, GATK/Mutect header "
    "pairing, indel/symbolic row ends, hmm segmentation with variants.",
    "technique": "exhaustive enumeration of synthetic VCF files x reader configurations x segment tables on the real code against a record -> row reference model; ask / edit-in-place / ask-again history on every multi-record file",
}

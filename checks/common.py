"""Helpers shared by the check modules (table builders, enumerations)."""
import itertools

from mc import repo

repo.bind()
import numpy as np  # noqa: E402
import pandas as pd  # noqa: E402
from skgenome import GenomicArray as GA  # noqa: E402


def intervals(n):
    """All [s, e) with 0 <= s < e <= n."""
    return [(s, e) for s in range(n + 1) for e in range(s + 1, n + 1)]


def multisets(items, k):
    """All multisets of <= k items, smallest first (as sorted tuples)."""
    out = [()]
    for n in range(1, k + 1):
        out += list(itertools.combinations_with_replacement(items, n))
    return out


def sort_rows(rows):
    return sorted(rows, key=lambda r: (r[0], r[1], r[2]))


def make_ga(rows, cols="gv", cls=GA):
    """GenomicArray from (chrom, start, end) rows, sorted as GenomicArray.sort would, with
    optional extra columns: g = gene (g0, g1, ... by row), v = float value (0.5 * i)."""
    rows = sort_rows(rows)
    columns = ["chromosome", "start", "end"]
    full = [tuple(r[:3]) for r in rows]
    if "g" in cols:
        columns.append("gene")
        full = [r + ("g%d" % i,) for i, r in enumerate(full)]
    if "v" in cols:
        columns.append("val")
        full = [r + (0.5 * i,) for i, r in enumerate(full)]
    return cls.from_rows(full, columns=columns), full


def rows_of(garr, ncols=None):
    data = garr.data if hasattr(garr, "data") else garr
    out = []
    for r in data.itertuples(index=False, name=None):
        r = tuple(x.item() if isinstance(x, np.generic) else x for x in r)
        out.append(r[:ncols] if ncols else r)
    return out


def coords_of(garr):
    return rows_of(garr, 3)


def is_default_index(df):
    return isinstance(df.index, pd.RangeIndex) and df.index.start == 0 and df.index.step == 1

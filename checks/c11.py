"""C11 - a clear copy-number step is found and localised by haar and hmm-germline; flat profiles stay unsegmented.

E1: every profile of a finite, stated family is built without any random number generator and pushed through the
real `cnvlib.segmentation.do_segmentation(cnarr, "haar" | "hmm-germline")`:

  profile = chromosomes (1..3), each  level0 + noise | level1 + noise   (a single clean step)   or flat at 0
  noise   = the n mid-point normal quantiles sd * Phi^-1((i + 1/2) / n) (exactly the stated marginal distribution)
            arranged by one member of the deterministic arrangement alphabet of mc/noise.py (affine permutations
            i -> (a*i + b) mod n, block-reversed and interleaved variants, and inversion in the prime field above
            n: the affine families are equidistributed, i.e. smoother than independent noise - their window sums
            are about half as large - so the white-like modular-inverse family carries the no-false-breakpoint side)
  x step kind x (left, right) sizes x sd x bin-weight pattern x bin layout.

The oracle is the statement, literally: one breakpoint per stepped chromosome, cumulative `probes` of the first
segment within 5 bins of the generated step position, both segment means within 0.1 of the generated levels; a
flat profile yields exactly one segment per chromosome arm.  The claim is exhaustive over this finite noise
alphabet only: "no arrangement of the family breaks detection", not "detection has probability 1".
"""
import itertools

from checks.common import np, pd  # noqa: F401  (binds the tree under test first)
from mc import noise as NZ
from mc.engine import Exc

from cnvlib import segmentation  # noqa: E402
from cnvlib.cnary import CopyNumArray as CNA  # noqa: E402
from cnvlib.segmentation import hmm as _hmm  # noqa: F401,E402  (pre-import: pomegranate loads once per shard)

ID = "C11"
BUDGET = {"quick": 900, "thorough": 5400}
CASE_TIMEOUT = 900

METHODS = ("haar", "hmm-germline")
# name -> (level left of the step, level right of it); the statement's levels: 0 / -1, 0 / +0.585, haar also 0 / +1
KINDS = {
    "0>-1": (0.0, -1.0),
    "-1>0": (-1.0, 0.0),
    "0>0.585": (0.0, 0.585),
    "0.585>0": (0.585, 0.0),
    "0>1": (0.0, 1.0),
    "1>0": (1.0, 0.0),
}
METHOD_KINDS = {"haar": list(KINDS), "hmm-germline": ["0>-1", "-1>0", "0>0.585", "0.585>0"]}
WEIGHTS = ("one", "alt", "ramp")
LAYOUTS = ("uniform", "vary")
POS_MARGIN = 5  # bins        (statement)
MEAN_MARGIN = 0.1  # log2 units (statement)
CENTROMERE_GAP = 5_000_000  # one gap of this size in the middle of a chromosome = two arms; every other gap < 2 kb

# sizes of the chromosomes of a multi-chromosome profile (chromosome j of pattern p), each side >= 100
MULTI_SIZES = [
    [(100, 100), (150, 250), (400, 100)],
    [(250, 100), (100, 400), (100, 150)],
    [(400, 400), (100, 100), (250, 150)],
]


def tier_params(tier):
    t = tier == "thorough"
    full = [(w, lay) for w in WEIGHTS for lay in LAYOUTS]
    return {
        "sizes": [100, 120, 150, 200, 280, 400] if t else [100, 150, 400],
        "sds": [0.01, 0.02, 0.05, 0.08, 0.1] if t else [0.01, 0.05, 0.1],
        "multi_sds": [0.01, 0.05, 0.1] if t else [0.01, 0.1],
        "arr_k": 3 if t else 1,  # affine multipliers (x 3 offsets, + block-reversed + interleaved each)
        "arr_km": 9 if t else 3,  # modular-inverse arrangements
        # (weight pattern, layout): the full product, or every pair that differs from (one, uniform) in <= 1 dimension
        "combos": full if t else [c for c in full if c[0] == "one" or c[1] == "uniform"],
        "flat_bins": [100, 101, 102, 150, 250, 400, 600] if t else [100, 250, 600],
        "multi_patterns": 3 if t else 1,
        "multi_arr": ["A0.0", "R1", "M0", "M4"] if t else ["A0.0", "M0"],
    }


def arrangements(p):
    return NZ.arrangement_names(p["arr_k"], km=p["arr_km"])


def describe(tier):
    p = tier_params(tier)
    names = arrangements(p)
    return {
        "rule": "E1: every profile of the family (step kind x left x right x sd x weight pattern x layout x noise arrangement; "
        "flat controls; 2- and 3-chromosome profiles) is segmented by the real do_segmentation with haar and with hmm-germline "
        "and judged by the statement's clauses. state = canonical input (method, chromosome specs, sd, weights, layout, "
        "arrangement); non-trivial = the profile contains a step (the detection clauses are exercised, not only the "
        "no-false-breakpoint clause). Exhaustive over the finite noise alphabet only.",
        "bound": {
            "step": "kinds %s (haar) / %s (hmm-germline) x left,right in %s x sd in %s x (weights, layout) in %s x %d arrangements"
            % (METHOD_KINDS["haar"], METHOD_KINDS["hmm-germline"], p["sizes"], p["sds"], [list(c) for c in p["combos"]], len(names)),
            "flat": "bins in %s, one arm; two arms (a 5 Mb gap, each arm >= 100 bins) for >= 250 bins; level 0; same sd, weights, "
            "layouts, arrangements; plus 2 and 3 flat chromosomes" % p["flat_bins"],
            "multi": "2 chromosomes: every ordered pair of kinds; 3 chromosomes: %s; sizes from %d pattern(s) of MULTI_SIZES; "
            "sd in %s x the same (weights, layout) pairs x arrangement starts %s (chromosome j takes the j-th next arrangement)"
            % (
                "every ordered triple of kinds" if tier == "thorough" else "every ordered triple (hmm-germline), every ordered pair + one derived third kind (haar)",
                p["multi_patterns"],
                p["multi_sds"],
                p["multi_arr"],
            ),
        },
        "alphabet": {
            "noise": "n mid-point normal quantiles sd*Phi^-1((i+1/2)/n) arranged by: " + ", ".join(names),
            "arrangement_rule": "A<j>.<m> = i->(a_j*i+b_m) mod n, a_j = j-th integer >= 0.382 n coprime to n, b = 0, n//3, n//2; "
            "R<j> = A<j>.0 with blocks of 8 reversed; I<j> = A<j>.0 with its halves interleaved; M<j> = i->a_j*(i+b)^-1 mod p in the prime "
            "field just above n (values >= n deleted), a_j = j-th integer >= 0.382 p, b = offset number j mod 3: the only family whose "
            "window sums fluctuate like independent noise (the affine ones are equidistributed, i.e. smoother than noise)",
            "weights": {"one": "all 1", "alt": "0.5, 1, 0.5, 1, ...", "ramp": "0.5 -> 1 linearly along the chromosome"},
            "layout": {"uniform": "200 bp bins every 1000 bp", "vary": "bin sizes 100/200/300 bp, gaps 500..1500 bp (3-fold)"},
            "levels": KINDS,
        },
        "assumptions": [
            "the statement's random noise is replaced by the finite deterministic alphabet of mc/noise.py; a pass says no "
            "arrangement of this family breaks detection, not that detection has probability 1",
            "Phi^-1 is statistics.NormalDist.inv_cdf (stdlib); the realised standard deviation of n quantiles is slightly below the nominal sd",
            "breakpoint position = cumulative `probes` of the chromosome's first segment (the property's observation point)",
            "segment mean = the `log2` column of the reported segment",
            "a chromosome arm boundary is a single 5 Mb gap placed mid-chromosome with >= 100 bins on each side; all other gaps are < 2 kb "
            "(below the package's 100 kb arm-splitting gap), so stepped chromosomes are one arm",
            "flat profiles are at log2 0; chromosomes are named chr1..chr3 (autosomes); default do_segmentation arguments; one process, and for a slice of the haar cases real pools of 2 and 4 (thorough: 16) processes",
        ],
    }


# --------------------------------------------------------------------------------------------
# profile construction (plain Python; no RNG)
def bin_layout(n, kind, gap_at=None):
    out = []
    pos = 10000
    for i in range(n):
        if kind == "uniform":
            size, gap = 200, 800
        else:
            size = 100 + 100 * ((i * 7) % 3)
            gap = 500 + 250 * ((i * 5) % 5)
        if gap_at is not None and i == gap_at:
            pos += CENTROMERE_GAP
        out.append((pos, pos + size))
        pos += size + gap
    return out


def bin_weights(n, pattern):
    if pattern == "one":
        return [1.0] * n
    if pattern == "alt":
        return [0.5 if i % 2 == 0 else 1.0 for i in range(n)]
    if pattern == "ramp":
        return [0.5 + 0.5 * i / (n - 1) for i in range(n)]
    raise ValueError(pattern)


def build_profile(chroms, sd, wpat, layout):
    """chroms: list of dicts {left, right, l0, l1, arr, gap_at}.  Returns the CopyNumArray."""
    cols = {"chromosome": [], "start": [], "end": [], "gene": [], "log2": [], "depth": [], "weight": []}
    for ci, c in enumerate(chroms):
        n = c["left"] + c["right"]
        nz = NZ.noise(n, sd, c["arr"])
        lay = bin_layout(n, layout, c.get("gap_at"))
        w = bin_weights(n, wpat)
        for i in range(n):
            level = c["l0"] if i < c["left"] else c["l1"]
            value = level + nz[i]
            cols["chromosome"].append("chr%d" % (ci + 1))
            cols["start"].append(lay[i][0])
            cols["end"].append(lay[i][1])
            cols["gene"].append("G%d" % (i // 10))
            cols["log2"].append(value)
            cols["depth"].append(100.0 * 2.0**value)
            cols["weight"].append(w[i])
    df = pd.DataFrame(cols)
    if chroms[0]["arr"].startswith("M"):
        # the modular-inverse arrangements come as a filtered array would: row labels 1..n (a longer table minus its first row)
        df.index = range(1, len(df) + 1)
    return CNA(df, {"sample_id": "S"})


def next_arrangement(names, start, j):
    return names[(names.index(start) + j) % len(names)]


# --------------------------------------------------------------------------------------------
def cases(tier):
    p = tier_params(tier)
    t = tier == "thorough"
    # flat controls (simplest)
    for n in p["flat_bins"]:
        for sd in p["sds"]:
            for method in METHODS:
                yield {"check": "flat", "method": method, "bins": [n], "gap_at": [None], "sd": sd}
                if n >= 250:
                    for gap_at in sorted({n // 2, n // 3 if n // 3 >= 100 else n // 2}):
                        yield {"check": "flat", "method": method, "bins": [n], "gap_at": [gap_at], "sd": sd}
    for bins, gaps in (([100, 250], [None, 125]), ([250, 100, 600], [None, None, 200]), ([600, 600, 100], [300, None, None])):
        for sd in p["sds"]:
            for method in METHODS:
                yield {"check": "flat", "method": method, "bins": bins, "gap_at": gaps, "sd": sd}
    # the same answers with a worker pool (haar fans out per arm; fewer arms than workers, more arms than workers)
    for procs in (2, 4, 16) if t else (2, 4):
        for n in p["flat_bins"]:
            yield {"check": "flat", "method": "haar", "bins": [n], "gap_at": [None], "sd": p["sds"][0], "processes": procs}
        yield {"check": "flat", "method": "haar", "bins": [250, 100, 600], "gap_at": [None, None, 200], "sd": p["sds"][0], "processes": procs}
        for kind in METHOD_KINDS["haar"]:
            yield {"check": "step", "method": "haar", "kind": kind, "left": p["sizes"][0], "right": p["sizes"][-1], "sd": p["sds"][0], "processes": procs}
            yield {"check": "multi", "method": "haar", "kinds": [kind, kind], "pattern": 0, "sd": p["multi_sds"][0], "processes": procs}
    # one stepped chromosome, smallest first
    pairs = sorted(itertools.product(p["sizes"], repeat=2), key=lambda lr: (lr[0] + lr[1], lr))
    for left, right in pairs:
        for sd in p["sds"]:
            for method in METHODS:
                for kind in METHOD_KINDS[method]:
                    yield {"check": "step", "method": method, "kind": kind, "left": left, "right": right, "sd": sd}
    # two and three stepped chromosomes, each with its own kind, sizes and noise arrangement
    for pat in range(p["multi_patterns"]):
        for sd in p["multi_sds"]:
            for method in METHODS:
                kinds = METHOD_KINDS[method]
                for k1, k2 in itertools.product(kinds, repeat=2):
                    yield {"check": "multi", "method": method, "kinds": [k1, k2], "pattern": pat, "sd": sd}
                if t or method == "hmm-germline":
                    triples = list(itertools.product(kinds, repeat=3))
                else:
                    triples = [
                        (k1, k2, kinds[(kinds.index(k1) + 2 * kinds.index(k2) + 1) % len(kinds)])
                        for k1, k2 in itertools.product(kinds, repeat=2)
                    ]
                for tr in triples:
                    yield {"check": "multi", "method": method, "kinds": list(tr), "pattern": pat, "sd": sd}


def run(case, ctx):
    p = tier_params(ctx.tier)
    names = arrangements(p)
    kind = case["check"]
    method, sd = case["method"], case["sd"]
    if kind == "flat":
        specs = [{"left": n, "right": 0, "l0": 0.0, "l1": 0.0, "gap_at": g, "kind": "flat"} for n, g in zip(case["bins"], case["gap_at"])]
        starts = names
    elif kind == "step":
        l0, l1 = KINDS[case["kind"]]
        specs = [{"left": case["left"], "right": case["right"], "l0": l0, "l1": l1, "gap_at": None, "kind": case["kind"]}]
        starts = names
    elif kind == "multi":
        sizes = MULTI_SIZES[case["pattern"]]
        specs = []
        for j, k in enumerate(case["kinds"]):
            l0, l1 = KINDS[k]
            specs.append({"left": sizes[j][0], "right": sizes[j][1], "l0": l0, "l1": l1, "gap_at": None, "kind": k})
        starts = p["multi_arr"]
    else:
        raise ValueError(kind)
    for arr in starts:
        for wpat, layout in p["combos"]:
            chroms = [dict(s, arr=next_arrangement(names, arr, j)) for j, s in enumerate(specs)]
            run_one(ctx, method, chroms, sd, wpat, layout, {"arrangement": arr, "weights": wpat, "layout": layout}, case.get("processes", 1))
    ctx.sample(
        kind + "/" + method,
        {"case": case, "chromosomes": [{k: v for k, v in s.items()} for s in specs], "arrangements": starts, "weights_layouts": p["combos"]},
    )


# --------------------------------------------------------------------------------------------
def run_one(ctx, method, chroms, sd, wpat, layout, sub, procs=1):
    cnarr = build_profile(chroms, sd, wpat, layout)
    stepped = any(c["l0"] != c["l1"] for c in chroms)
    ctx.state(
        (method, [(c["left"], c["right"], c["l0"], c["l1"], c["gap_at"], c["arr"]) for c in chroms], sd, wpat, layout, procs),
        nontrivial=stepped,
    )
    # strata: what the alphabet reaches
    ctx.stratum("row-index-" + ("shifted" if chroms[0]["arr"].startswith("M") else "default"))
    ctx.stratum("chromosomes-%d" % len(chroms))
    ctx.stratum("weights-" + wpat)
    ctx.stratum("layout-" + layout)
    ctx.stratum("sd-%g" % sd)
    for c in chroms:
        ctx.stratum("arrangement-" + {"A": "affine", "R": "block-reversed", "I": "interleaved", "M": "modular-inverse"}[c["arr"][0]])
        if c["l0"] != c["l1"]:
            ctx.stratum("%s/step-%s" % (method, c["kind"]))
            if min(c["left"], c["right"]) == 100:
                ctx.stratum("side-of-exactly-100-bins")
        else:
            ctx.stratum("%s/flat-%s" % (method, "two-arms" if c["gap_at"] else "one-arm"))

    seg = ctx.call(segmentation.do_segmentation, cnarr, method, processes=procs)
    if procs != 1:
        ctx.stratum("worker pool of %d processes" % procs)
    feature = "flat" if not stepped else "step"
    if isinstance(seg, Exc):
        ctx.violation(
            "do_segmentation returns segments for an in-scope profile",
            "%s/%s/raises/%s" % (method, feature, seg.key),
            observed=seg,
            sub=sub,
        )
        return
    ctx.trace()
    data = seg.data
    missing = [c for c in ("chromosome", "probes", "log2") if c not in data.columns]
    if missing:
        ctx.violation(
            "the result reports chromosome, probes and log2 per segment",
            "%s/%s/missing-column" % (method, feature),
            observed=list(data.columns),
            expected=missing,
            sub=sub,
        )
        return
    rows = {}
    for chrom, probes, log2 in zip(data["chromosome"].tolist(), data["probes"].tolist(), data["log2"].tolist()):
        rows.setdefault(str(chrom), []).append((probes, float(log2)))
    ctx.outcome((method, [[(pr, round(lg, 3)) for pr, lg in rows.get("chr%d" % (i + 1), [])] for i in range(len(chroms))]))

    for ci, c in enumerate(chroms):
        name = "chr%d" % (ci + 1)
        segs = rows.get(name, [])
        where = dict(sub, chromosome=name, bins=[c["left"], c["right"]], arrangement_of_chromosome=c["arr"])
        observed = [{"probes": pr, "log2": round(lg, 6)} for pr, lg in segs]
        if c["l0"] == c["l1"]:
            arms = 2 if c["gap_at"] else 1
            if len(segs) != arms:
                ctx.violation(
                    "a flat profile yields exactly one segment per chromosome arm",
                    "%s/flat/%s/%s" % (method, "extra-segments" if len(segs) > arms else "too-few-segments", "two-arms" if arms == 2 else "one-arm"),
                    expected="%d segment(s)" % arms,
                    observed=observed,
                    sub=where,
                )
            continue
        if len(segs) != 2:
            ctx.violation(
                "exactly one breakpoint is reported on a chromosome with one clean step",
                "%s/step/%s/%s" % (method, "step-missed" if len(segs) < 2 else "extra-breakpoints", c["kind"]),
                expected="2 segments, breakpoint at bin %d" % c["left"],
                observed=observed,
                sub=where,
            )
            continue
        pos = segs[0][0]
        off = pos - c["left"]
        if not abs(off) <= POS_MARGIN:  # also true for NaN
            ctx.violation(
                "the breakpoint lies within 5 bins of the true one",
                "%s/step/position/%s" % (method, c["kind"]),
                expected="cumulative probes in [%d, %d]" % (c["left"] - POS_MARGIN, c["left"] + POS_MARGIN),
                observed=observed,
                sub=where,
            )
        else:
            a = abs(off)
            ctx.stratum("%s/breakpoint-offset-%s" % (method, "0" if a == 0 else "1..2" if a <= 2 else "3..5"))
        devs = (abs(segs[0][1] - c["l0"]), abs(segs[1][1] - c["l1"]))
        if not max(devs) <= MEAN_MARGIN or any(d != d for d in devs):
            ctx.violation(
                "both segment means lie within 0.1 of the true levels",
                "%s/step/segment-mean/%s" % (method, c["kind"]),
                expected=[c["l0"], c["l1"]],
                observed=observed,
                sub=where,
            )
        else:
            d = max(devs)
            ctx.stratum("%s/mean-deviation-%s" % (method, "<0.01" if d < 0.01 else "<0.05" if d < 0.05 else "<=0.1"))


MANIFEST = {
    "text": "Bounded-exhaustive enumeration of synthetic copy-number profiles through the real do_segmentation with the haar and "
    "hmm-germline methods: every step kind (0/-1, 0/+0.585, for haar 0/+1; both directions) x (left, right) sizes from 100 to 400 "
    "bins x noise sd 0.01..0.1 x bin-weight pattern x bin layout x every member of a finite deterministic noise alphabet "
    "(normal quantiles arranged by affine, block-reversed, interleaved and modular-inverse permutations; no random number "
    "generator), flat "
    "controls of 100..600 bins with one and two arms, and 2- and 3-chromosome profiles with every combination of step kinds. "
    "Each result is judged by the statement's clauses: one breakpoint per stepped chromosome, within 5 bins, segment means "
    "within 0.1; one segment per arm on flat profiles. Exhaustive inside the stated bound, nothing sampled.",
    "note": "The statement quantifies over random noise; this check decides it only over the finite noise alphabet of mc/noise.py "
    "(every profile has exactly the stated normal marginal distribution; the arrangements are affine permutations of the "
    "quantile ranks, two derived families, and modular-inverse permutations whose window sums behave like independent noise). "
    "The claim is exhaustive over that finite noise alphabet only: a pass means no arrangement of this family breaks "
    "detection, not that detection has probability 1. The quick tier takes (weights, layout) pairs that differ from (all 1, "
    "uniform) in at most one dimension, the thorough tier the full product. Trusted: pandas/numpy, pomegranate, "
    "statistics.NormalDist. Not covered: noise realisations outside the alphabet, sizes between the lattice points, profiles "
    "mixing flat and stepped chromosomes, stepped chromosomes with a centromere gap, non-default thresholds, hmm and "
    "hmm-tumor (outside the claim), cbs/flasso (no R here).",
    "technique": "explicit enumeration of a finite profile family on the real segmentation code, statement clauses as oracle; a slice re-run under real worker pools",
}

"""C16 - gene-level grouping yields each gene's own bins, each bin exactly once.

E1: every bin table whose per-chromosome gene-name word (over genes A,B,C / D,E and the non-gene names
Antitarget, '-', 'CGH', ...) satisfies the statement's precondition, up to a stated length, on one or two
chromosomes, under a default and two filtered (non-default) row indexes, through

* CopyNumArray.by_gene()            - groups compared bin for bin with the scan model, each bin once;
* CopyNumArray.squash_genes()       - one row per gene with the gene's true coordinates;
* reports.do_genemetrics()          - without segments over threshold x min_probes x skip_low (low bins at
                                      every position) x sex options, and with every cut of the chromosome
                                      into <= 3 segments at bin boundaries;
* reports.do_breaks()               - over the same cuts x min_probes.

Oracle: models/genes.py (plain Python on lists).  Where the statement leaves a reading open, every
reading is computed and the implementation may follow any one of them (see `assumptions`).
"""
import itertools
import math

from checks.common import np, rows_of
from mc.engine import Exc
from models import genes as M

from cnvlib import reports  # noqa: E402  (bound by checks.common)
from cnvlib.cnary import CopyNumArray as CNA  # noqa: E402

ID = "C16"
BUDGET = {"quick": 900, "thorough": 5400}
CASE_TIMEOUT = 900

X = "Antitarget"
GENES1 = ("A", "B", "C")
GENES2 = ("D", "E")
NON1 = (X,)
NON3 = (X, "-", "CGH")
# second-chromosome slice (12 words): every way a chromosome can begin / end / be interrupted
SLICE2 = (
    (X,),
    ("D",),
    ("D", X),
    (X, "D"),
    ("D", "D"),
    ("D", "E"),
    ("D", "D", X),
    (X, "D", "D"),
    ("D", X, "D"),
    ("D", "E", X),
    ("D", "D", "E", "E"),
    (X, "D", X, X),
)
X_SLICE = (("D",), ("D", X), (X, "D"), ("D", "E"), ("D", X, "D"))
INDEXES = ("default", "dropfirst", "gapped")
GENE_LEVELS = (0.3, -0.8, 0.0)  # rotated over the genes by `rot`
NONGENE_LEVEL = 0.6
SEG_LEVELS = (0.5, -0.1, -0.7)  # rotated over the segments by `srot`
LOW = -25.0
BASE_COLS = ["chromosome", "start", "end", "gene", "log2"]


def bound_of(tier):
    t = tier == "thorough"
    return {
        "groups_full": 6 if t else 5,  # word length, genes A,B,C + Antitarget,'-','CGH'
        "groups_struct": 9 if t else 7,  # word length, genes A,B,C + Antitarget
        "squash": 7 if t else 6,
        "ignore": 5 if t else 4,
        "pair_groups": 5 if t else 4,  # chromosome-1 word length when a second chromosome is present
        "gm_full": 6 if t else 5,  # all 3 rotations x 3 indexes
        "gm_len": 8 if t else 6,  # rotation 0, 2 indexes
        "gm_pair": 4 if t else 3,
        "low": 6 if t else 5,
        "seg": 7 if t else 5,
        "seg_filtered": 5 if t else 4,
        "seg_pair": 4 if t else 3,
        "breaks": 8 if t else 6,  # <= 2 segments
        "breaks3": 7 if t else 5,  # <= 3 segments
        "breaks_filtered": 6 if t else 4,
        "sex": 4 if t else 3,
        "cols": 5 if t else 4,
        "max_segments": 3,
    }


def describe(tier):
    b = bound_of(tier)
    return {
        "rule": "every per-chromosome gene-name word satisfying the precondition (each gene's bins consecutive up to interleaved "
        "non-gene bins; genes named in order of first appearance) up to the stated length, 1 chromosome or 2 (the other "
        "chromosome from a 12-word slice, both orders), x row index {default, first row filtered away, every other row "
        "filtered away}; by_gene on every table; squash_genes x squash_antitarget; do_genemetrics x threshold {0.2,0.5} x "
        "min_probes {1,3} x gene-level rotation, x skip_low with a very-low bin at every position, x sex options, x column "
        "sets, x every cut of each chromosome into <=3 segments x segment-level rotation x min_probes {1,3}; do_breaks x "
        "the same cuts x min_probes {1,2,3}. state = canonical (words, index, values, configuration); non-trivial = the "
        "expected result is non-empty and has both a gene and a non-gene / a reported and an unreported gene",
        "bound": {k: v for k, v in b.items()},
        "alphabet": {
            "genes": list(GENES1 + GENES2),
            "non_genes": list(NON3) + ["Background", "."],
            "second_chromosome_slice": [" ".join(w) for w in SLICE2],
            "indexes": list(INDEXES),
            "gene_log2_levels": list(GENE_LEVELS),
            "segment_log2_levels": list(SEG_LEVELS),
            "weights": [1.0, 0.5, 0.0],
            "layouts": ["gapped bins", "abutting bins"],
        },
        "assumptions": [
            "'reaches the threshold' is read as |log2| >= threshold (the command documents 'gain or loss'); a value within 1e-9 of the threshold may go either way",
            "an ignored-name / Antitarget bin between a gene's first and last bin belongs to that gene's group and enters its mean, count, weight and depth",
            "skip_low removes bins with log2 < -15 or depth 0 from the mean only (drop_low_coverage's documented rule); start and end stay the "
            "gene's true ones; bin count / weight / depth may be over all the gene's bins or over the surviving ones; a gene with no surviving bin is not reported",
            "with segments, 'the part of a gene inside a segment' may be read as first..last bin named by the gene inside the segment or as every bin of the "
            "gene's span inside the segment, and min_probes may apply to the part's bin count or to the segment's; any one consistent reading is accepted",
            "breaks: 'bins on each side' may count only the bins named by the gene or every bin of its span; location must lie between the end of the left and "
            "the start of the right segment; row order and the `change` column are not claimed",
            "squash_genes: only the rows named by a gene are claimed (one per gene, true chromosome/start/end); summary values and non-gene rows are left open",
            "sex options: on tables without chrX the result must not depend on them; with chrX and an explicit is_sample_female the chrX log2 (bins and segments) "
            "shift by +1 (male sample, diploid-X reference) or -1 (female, haploid-X reference) as shift_xx documents; inferring the sex belongs to C15",
            "Background is the package's alias of Antitarget; gene names carry no commas (a comma name would make a bin belong to two genes)",
            "weights are 1, 0.5 or 0 (every fifth bin); a gene whose bins all have weight 0 has no weighted mean: the plain mean is expected there, as for a table without weights",
            "row order of genemetrics / squash_genes / breaks output is not claimed; by_gene order is",
        ],
    }


# --------------------------------------------------------------------------------------------
# enumeration

_WORDS = {}


def words(maxlen, non, minlen=1):
    key = (maxlen, non, minlen)
    if key not in _WORDS:
        _WORDS[key] = M.words(maxlen, GENES1, non, minlen)
    return _WORDS[key]


def cases(tier):
    b = bound_of(tier)
    # by_gene (+ squash) on one chromosome: structural words first (shortest first), then the full non-gene alphabet
    seen = set()
    for w in words(b["groups_struct"], NON1):
        seen.add(w)
        yield {"check": "groups", "w": w, "squash": len(w) <= b["squash"], "ignore": len(w) <= b["ignore"]}
    for w in words(b["groups_full"], NON3):
        if w not in seen:
            yield {"check": "groups", "w": w, "squash": len(w) <= b["ignore"], "ignore": len(w) <= b["ignore"]}
    for w in words(b["pair_groups"], NON1):
        yield {"check": "groups2", "w": w}
    # genemetrics without segments
    for w in words(b["gm_len"], NON1):
        full = len(w) <= b["gm_full"]
        yield {"check": "genemetrics", "w": w, "rots": [0, 1, 2] if full else [0], "indexes": list(INDEXES) if full else ["default", "dropfirst"]}
    for w in words(b["gm_pair"], NON1):
        yield {"check": "genemetrics2", "w": w}
    for w in words(b["low"], NON1):
        yield {"check": "gm_low", "w": w}
    for w in words(b["cols"], NON1):
        yield {"check": "columns", "w": w}
    for w in words(b["sex"], NON1):
        yield {"check": "gm_sex", "w": w}
    # with segments
    for w in words(b["seg"], NON1):
        yield {"check": "gm_seg", "w": w, "indexes": ["default", "dropfirst"] if len(w) <= b["seg_filtered"] else ["default"]}
    for w in words(b["seg_pair"], NON1):
        yield {"check": "gm_seg2", "w": w}
    for w in words(b["breaks"], NON1):
        yield {"check": "breaks", "w": w, "kmax": 3 if len(w) <= b["breaks3"] else 2, "indexes": ["default", "gapped"] if len(w) <= b["breaks_filtered"] else ["default"]}
    for w in words(b["seg_pair"], NON1):
        yield {"check": "breaks2", "w": w}


def run(case, ctx):
    RUNNERS[case["check"]](case, ctx)


# --------------------------------------------------------------------------------------------
# tables


class Table:
    """One bin table: model bins (7-tuples, None for absent columns), the real CopyNumArray, its description."""

    def __init__(self, wordlist, chroms=("chr1", "chr2"), index="default", cols="dw", layout="gapped", rot=0, low=(), rename=None):
        self.words = [tuple(w) for w in wordlist]
        self.index, self.cols, self.layout, self.rot, self.low = index, cols, layout, rot, tuple(low)
        gene_order = GENES1 + GENES2
        bins = []
        for chrom, word in zip(chroms, self.words):
            for i, g in enumerate(word):
                k = len(bins)
                if layout == "gapped":
                    s, e = 1000 * (i + 1) + 100, 1000 * (i + 1) + 900
                else:
                    s, e = 1000 * (i + 1), 1000 * (i + 2)
                level = GENE_LEVELS[(gene_order.index(g) + rot) % 3] if g in gene_order else NONGENE_LEVEL
                log2 = level + 0.01 * (i + 1)
                depth = 10.0 + 3.0 * k
                weight = (1.0, 0.5, 1.0, 0.0, 0.5)[k % 5]  # a zero-weight bin every fifth bin
                if k in self.low:
                    log2, depth = LOW, 0.0
                name = rename.get(g, g) if rename else g
                bins.append((chrom, s, e, name, log2, depth if "d" in cols else None, weight if "w" in cols else None))
        self.bins = bins
        self.columns = BASE_COLS + [c for c in ("depth", "weight") if c[0] in cols]
        self.rows = [self._trim(b) for b in bins]
        self.cna = self._build()
        self.segcache = {}

    def _trim(self, b):
        return tuple(b[:5]) + tuple(v for v in b[5:] if v is not None)

    def _build(self):
        if self.index == "default":
            return CNA.from_rows(self.rows, columns=self.columns)
        rows, keep = [], []
        for k, b in enumerate(self.bins):
            if self.index == "gapped" or k == 0:
                pad = (b[0], b[1] - 60, b[1] - 40, X, -30.0, 0.0 if b[5] is not None else None, 1.0 if b[6] is not None else None)
                rows.append(self._trim(pad))
                keep.append(False)
            rows.append(self._trim(b))
            keep.append(True)
        full = CNA.from_rows(rows, columns=self.columns)
        return full[np.array(keep)]

    def describe(self):
        d = {"words": [" ".join(w) for w in self.words], "index": self.index}
        if self.cols != "dw":
            d["columns"] = self.cols
        if self.layout != "gapped":
            d["layout"] = self.layout
        if self.rot:
            d["rot"] = self.rot
        if self.low:
            d["low_bins"] = list(self.low)
        return d

    def shifted(self, shift):
        """Model bins with chrX log2 shifted."""
        return [b[:4] + (b[4] + shift,) + b[5:] if b[0] == "chrX" else b for b in self.bins]


def features(ctx, t):
    """Count the structural strata the alphabet is built to reach."""
    ctx.stratum("index-" + t.index)
    for chrom, idxs in M.chrom_runs(t.bins):
        names = [t.bins[i][3] for i in idxs]
        gene = [n not in M.NONGENES for n in names]
        if not any(gene):
            ctx.stratum("chromosome-without-genes")
            continue
        if gene[-1]:
            ctx.stratum("gene-at-chromosome-end")
        if gene[0]:
            ctx.stratum("gene-at-chromosome-start")
        if not gene[-1] and (len(gene) == 1 or gene[-2]):
            ctx.stratum("single-trailing-non-gene-bin")
        if not gene[-1] and len(gene) > 1 and not gene[-2]:
            ctx.stratum("trailing-non-gene-stretch")
        if not gene[0]:
            ctx.stratum("leading-non-gene-stretch")
        for g, gi in M.gene_groups([t.bins[i] for i in idxs]):
            if any(names[j] != g for j in gi):
                ctx.stratum("gene-interrupted-by-non-gene-bins")
                if any(names[j] in M.IGNORED for j in gi):
                    ctx.stratum("ignored-name-inside-gene")
            if len(gi) == 1:
                ctx.stratum("single-bin-gene")
        if any(n in M.IGNORED for n in names):
            ctx.stratum("ignored-name-bins")
    if len(t.words) > 1:
        ctx.stratum("two-chromosomes")


def index_class(index):
    return "default-index" if index == "default" else "filtered-index"


# --------------------------------------------------------------------------------------------
# by_gene


def observe_groups(cna, ignore=None):
    it = cna.by_gene() if ignore is None else cna.by_gene(ignore)
    return [(str(name), rows_of(sub)) for name, sub in it]


def compact(groups):
    return [[name, [f"{r[0]}:{r[1]}" for r in rows]] for name, rows in groups]


def check_by_gene(ctx, t, ignore=None, sub=None):
    """by_gene yields, in genomic order, each gene's first..last bins and the Antitarget stretches, each bin once."""
    nong = M.NONGENES if ignore is None else M.ANTITARGET_ALIASES + tuple(ignore)
    want = [(g, [t.rows[i] for i in idxs]) for g, idxs in M.groups(t.bins, nong)]
    got = ctx.call(observe_groups, t.cna, ignore)
    sub = {**t.describe(), **({"ignore": list(ignore)} if ignore is not None else {}), **(sub or {})}
    ic = index_class(t.index)
    if isinstance(got, Exc):
        ctx.violation("iterating bins by gene yields the groups (no exception)", f"by_gene/raises/{got.key}/{ic}", expected=compact(want), observed=got, sub=sub)
        return False
    ctx.trace()
    ctx.outcome(compact(got))
    ok = True
    times = {}
    for _name, rows in got:
        for r in rows:
            times[r] = times.get(r, 0) + 1
    twice = [f"{r[0]}:{r[1]}" for r in t.rows if times.get(r, 0) > 1]
    lost = [f"{r[0]}:{r[1]}" for r in t.rows if times.get(r, 0) == 0]
    if twice:
        ok = False
        ctx.violation("every bin is yielded exactly once and none twice", f"by_gene/bin-yielded-twice/{ic}", expected=compact(want), observed=compact(got), sub=sub, detail={"twice": twice})
    if lost:
        ok = False
        ctx.violation("every bin is yielded exactly once", f"by_gene/bin-never-yielded/{ic}", expected=compact(want), observed=compact(got), sub=sub, detail={"lost": lost})
    if got != want:
        ok = False
        ctx.violation(
            "by_gene yields, in genomic order, for each gene exactly the bins from its first to its last bin and, labelled Antitarget, exactly the stretches between, before and after genes",
            f"by_gene/groups/{ic}",
            expected=compact(want),
            observed=compact(got),
            sub=sub,
        )
    return ok


def grouping_ok(t, masks=None):
    """Lazy classifier for downstream failures: does by_gene itself group this table (or these sub-tables) right?"""
    try:
        if masks is None:
            return observe_groups(t.cna) == [(g, [t.rows[i] for i in idxs]) for g, idxs in M.groups(t.bins)]
        for mask in masks:
            sel = [i for i, m in enumerate(mask) if m]
            subbins = [t.bins[i] for i in sel]
            want = [(g, [t.rows[sel[i]] for i in idxs]) for g, idxs in M.groups(subbins)]
            if observe_groups(t.cna[np.array(mask)]) != want:
                return False
        return True
    except Exception:  # noqa: BLE001 - classification only
        return False


# --------------------------------------------------------------------------------------------
# squash_genes


def check_squash(ctx, t, squash_antitarget, sub=None):
    want = sorted(M.squash_coords(t.bins))
    sub = {**t.describe(), "squash_antitarget": squash_antitarget, **(sub or {})}
    res = ctx.call(lambda: rows_of(t.cna.squash_genes(squash_antitarget=squash_antitarget)))
    if isinstance(res, Exc):
        ctx.violation("squash_genes returns one row per gene", f"squash_genes/raises/{res.key}", expected=want, observed=res, sub=sub)
        return
    ctx.trace()
    got = sorted((r[3], r[0], r[1], r[2]) for r in res if r[3] not in M.NONGENES)
    ctx.outcome(got)
    if got != want:
        via = "grouping-ok" if grouping_ok(t) else "via-by_gene"
        kind = "row-count" if len(got) != len(want) else "coordinates"
        ctx.violation(
            "squash_genes returns one row per gene with the gene's true chromosome, start and end",
            f"squash_genes/{kind if via == 'grouping-ok' else 'rows'}/{via}",
            expected=want,
            observed=got,
            sub=sub,
        )


# --------------------------------------------------------------------------------------------
# genemetrics

GM_FIELDS = ("gene", "chromosome", "start", "end", "log2", "probes", "weight", "depth")


def _py(x):
    return x.item() if isinstance(x, np.generic) else x


def same(a, b):
    if isinstance(a, str) or isinstance(b, str):
        return a == b
    if a is None or b is None:
        return a is b
    try:
        return math.isclose(a, b, rel_tol=1e-9, abs_tol=1e-9)
    except TypeError:
        return False


def observe_gm(table):
    out = []
    for rec in table.to_dict("records"):
        out.append({k: _py(rec[k]) for k in GM_FIELDS if k in rec})
    return out


def rowkey(r):
    def num(v):
        return int(v) if isinstance(v, (int, float)) and not isinstance(v, bool) and math.isfinite(v) and float(v).is_integer() else v

    return (r.get("gene"), r.get("chromosome"), num(r.get("start")), num(r.get("end")))


def match_rows(obs, exp):
    """None when the observed rows are exactly the expected ones (order free; open rows optional), else the kind of mismatch."""
    em = {rowkey(row): (row, req) for row, req in exp}
    seen = set()
    for o in obs:
        k = rowkey(o)
        if k in seen:
            return "duplicate-row"
        seen.add(k)
        if k not in em:
            genes = {kk[0] for kk in em}
            return "wrong-coordinates" if k[0] in genes else "unexpected-gene"
        for f, v in em[k][0].items():
            if v is None:
                continue
            if f not in o or not same(o[f], v):
                return "field-" + f
    for k, (_row, req) in em.items():
        if req and k not in seen:
            return "wrong-coordinates" if k[0] in {kk[0] for kk in seen} else "missing-gene"
    return None


def judge(obs, alternatives):
    """First alternative is the primary reading; accept any.  Returns None or the primary mismatch kind."""
    kinds = [match_rows(obs, alt) for alt in alternatives]
    if any(k is None for k in kinds):
        return None
    return kinds[0]


def show(exp):
    return [{**{k: (round(v, 6) if isinstance(v, float) else v) for k, v in row.items()}, **({} if req else {"open": True})} for row, req in exp]


def sex_shift(female, haploid):
    if female and haploid:
        return -1.0
    if not female and not haploid:
        return 1.0
    return 0.0


def check_gm(ctx, t, thr, minp, skip_low=False, female=True, haploid=False, parx=None, sub=None):
    bins = t.shifted(sex_shift(female, haploid))
    alts = [M.genemetrics_by_gene(bins, thr, minp, skip_low, "all")]
    if skip_low:
        alt = M.genemetrics_by_gene(bins, thr, minp, skip_low, "surviving")
        if alt != alts[0]:
            alts.append(alt)
            ctx.stratum("gm-readings-differ(skip_low counts)")
    sub = {**t.describe(), "threshold": thr, "min_probes": minp, "skip_low": skip_low, "is_sample_female": female, "is_haploid_x_reference": haploid, "diploid_parx_genome": parx, **(sub or {})}
    res = ctx.call(
        lambda: observe_gm(
            reports.do_genemetrics(t.cna, None, threshold=thr, min_probes=minp, skip_low=skip_low, is_haploid_x_reference=haploid, is_sample_female=female, diploid_parx_genome=parx)
        )
    )
    clause = "genemetrics reports exactly the genes whose weighted mean log2 reaches the threshold with >= min_probes bins: mean, true start, end, bin count, summed weight, weight-averaged depth"
    if isinstance(res, Exc):
        ctx.violation(clause, f"genemetrics/raises/{res.key}", expected=show(alts[0]), observed=res, sub=sub)
        return alts[0]
    ctx.trace()
    ctx.outcome(show([(r, True) for r in res]))
    kind = judge(res, alts)
    if kind:
        via = "grouping-ok" if grouping_ok(t) else "via-by_gene"
        ctx.violation(clause, f"genemetrics/{kind if via == 'grouping-ok' else 'rows'}/{via}", expected=show(alts[0]), observed=show([(r, True) for r in res]), sub=sub, detail={"mismatch": kind})
    # strata
    ngenes = len(M.gene_groups(bins))
    ctx.stratum("gm-gene-reported", len(alts[0]))
    if len(alts[0]) < ngenes:
        ctx.stratum("gm-gene-not-reported")
    if any(req is None for _r, req in alts[0]):
        ctx.stratum("gm-threshold-tie-left-open")
    return alts[0]


def make_segments(t, cutspec, srot, with_probes, shift=0.0):
    """cutspec: per chromosome, the tuple of cut positions.  Returns (model segments, real segment table, per-segment bin masks)."""
    key = (cutspec, srot, with_probes, shift)
    if key in t.segcache:
        return t.segcache[key]
    msegs, rows, masks = [], [], []
    j = 0
    for (chrom, idxs), cuts in zip(M.chrom_runs(t.bins), cutspec):
        bounds = [0, *cuts, len(idxs)]
        for a, b in zip(bounds, bounds[1:]):
            s, e = t.bins[idxs[a]][1], t.bins[idxs[b - 1]][2]
            log2 = SEG_LEVELS[(j + srot) % 3]
            j += 1
            msegs.append((chrom, s, e, log2 + (shift if chrom == "chrX" else 0.0)))
            rows.append((chrom, s, e, "-", log2) + ((b - a,) if with_probes else ()))
            masks.append([idxs[a] <= i <= idxs[b - 1] for i in range(len(t.bins))])
    segarr = CNA.from_rows(rows, columns=BASE_COLS + (["probes"] if with_probes else []))
    t.segcache = {key: (msegs, segarr, masks)}  # one entry: consecutive calls with the same cut reuse the segment table
    return msegs, segarr, masks


def check_gm_seg(ctx, t, cutspec, srot, thr, minp, with_probes, female=True, haploid=False, sub=None):
    shift = sex_shift(female, haploid)
    bins = t.shifted(shift)
    msegs, segarr, masks = make_segments(t, cutspec, srot, with_probes, shift)
    alts = []
    for part, mp in itertools.product(("named", "span"), ("part", "segment")):
        alt = M.genemetrics_by_segment(bins, msegs, thr, minp, part, mp)
        if alt not in alts:
            alts.append(alt)
    if len(alts) > 1:
        ctx.stratum("gm-seg-readings-differ")
    sub = {
        **t.describe(),
        "segments": [[c, s, e, round(l, 3)] for c, s, e, l in msegs],
        "segment_probes_column": with_probes,
        "threshold": thr,
        "min_probes": minp,
        "is_sample_female": female,
        "is_haploid_x_reference": haploid,
        **(sub or {}),
    }
    res = ctx.call(lambda: observe_gm(reports.do_genemetrics(t.cna, segarr, threshold=thr, min_probes=minp, is_haploid_x_reference=haploid, is_sample_female=female)))
    clause = "given segments, genemetrics reports for each segment reaching the threshold the part of every gene inside it with the segment's log2"
    if isinstance(res, Exc):
        ctx.violation(clause, f"genemetrics-segments/raises/{res.key}", expected=show(alts[0]), observed=res, sub=sub)
        return
    ctx.trace()
    ctx.outcome(show([(r, True) for r in res]))
    kind = judge(res, alts)
    if kind:
        via = "grouping-ok" if grouping_ok(t, masks) else "via-by_gene"
        ctx.violation(clause, f"genemetrics-segments/{kind if via == 'grouping-ok' else 'rows'}/{via}", expected=show(alts[0]), observed=show([(r, True) for r in res]), sub=sub, detail={"mismatch": kind})
    ctx.stratum("gm-seg-gene-part-reported", len(alts[0]))
    if any(abs(s[3]) < thr for s in msegs):
        ctx.stratum("gm-seg-segment-below-threshold")
    if any(abs(s[3]) == thr for s in msegs):
        ctx.stratum("gm-seg-segment-exactly-at-threshold")
    spans = M.gene_groups(bins)
    for m in masks:
        for _g, idxs in spans:
            inside = sum(1 for i in idxs if m[i])
            if 0 < inside < len(idxs):
                ctx.stratum("segment-boundary-inside-gene")
                break


# --------------------------------------------------------------------------------------------
# breaks


def check_breaks(ctx, t, cutspec, minp, sub=None):
    msegs, segarr, _masks = make_segments(t, cutspec, 0, True)
    alts = []
    for count in ("named", "span"):
        alt = sorted(M.breaks(t.bins, msegs, minp, count), key=lambda r: (r[1], r[2], r[0]))
        if alt not in alts:
            alts.append(alt)
    if len(alts) > 1:
        ctx.stratum("breaks-readings-differ")
    sub = {**t.describe(), "segments": [[c, s, e] for c, s, e, _l in msegs], "min_probes": minp, **(sub or {})}

    def observe():
        tab = reports.do_breaks(t.cna, segarr, minp)
        return sorted(((str(r.gene), str(r.chromosome), _py(r.location), _py(r.probes_left), _py(r.probes_right)) for r in tab.itertuples(index=False)), key=lambda r: (r[1], r[2], r[0]))

    res = ctx.call(observe)
    clause = "breaks lists exactly the genes having at least min_probes bins on each side of a boundary between two segments"
    want0 = [list(r) for r in alts[0]]
    if isinstance(res, Exc):
        ctx.violation(clause, f"breaks/raises/{res.key}", expected=want0, observed=res, sub=sub)
        return
    ctx.trace()
    ctx.outcome(res)

    def mismatch(alt):
        if len(res) != len(alt):
            return "gene-missing" if len(res) < len(alt) else "gene-unexpected"
        for o, w in zip(res, alt):
            if (o[0], o[1]) != (w[0], w[1]) or not (w[2] <= o[2] <= w[3]):
                return "gene-or-location"
            if (o[3], o[4]) != (w[4], w[5]):
                return "bin-counts"
        return None

    kinds = [mismatch(a) for a in alts]
    if all(kinds):
        ctx.violation(clause, f"breaks/{kinds[0]}", expected=want0, observed=[list(r) for r in res], sub=sub)
    ctx.stratum("breaks-gene-listed", len(alts[0]))
    if len(M.breaks(t.bins, msegs, 1, "span")) > len(alts[-1]):
        ctx.stratum("breaks-excluded-by-min_probes")
    if any(a[0] != b[0] for a, b in zip(msegs, msegs[1:])):
        ctx.stratum("breaks-chromosome-change-is-not-a-boundary")


# --------------------------------------------------------------------------------------------
# runners


def nontrivial(t):
    gs = M.groups(t.bins)
    return len(gs) >= 2 and any(g != X for g, _ in gs)


def run_groups(case, ctx):
    w = tuple(case["w"])
    for index in INDEXES:
        t = Table([w], index=index)
        features(ctx, t)
        check_by_gene(ctx, t)
        ctx.state(("groups", w, index), nontrivial=nontrivial(t))
        if case.get("squash"):
            for sq in (False, True):
                check_squash(ctx, t, sq)
                ctx.state(("squash", w, index, sq), nontrivial=nontrivial(t))
        if case.get("ignore"):
            # a caller-supplied ignore tuple (fresh each call): B is then a non-gene name too
            if "B" in w:
                check_by_gene(ctx, t, ignore=M.IGNORED + ("B",))
                ctx.stratum("custom-ignore-tuple")
                ctx.state(("groups-ignoreB", w, index), nontrivial=True)
    if case.get("ignore") and X in w:
        # the other non-gene spellings: Background (alias of Antitarget) and '.'
        for alias in ("Background", "."):
            t = Table([w], index="dropfirst", rename={X: alias})
            check_by_gene(ctx, t)
            ctx.stratum("non-gene-name-" + alias)
            ctx.state(("groups-alias", w, alias), nontrivial=nontrivial(t))
    ctx.sample("groups", {"word": " ".join(w), "expected": [[g, idxs] for g, idxs in M.groups(t.bins)]})


def pair_tables(w, slice2=SLICE2):
    """(words, position of w) for word w with every slice word as the other chromosome, both orders."""
    for s in slice2:
        yield [w, s], 0
        yield [s, w], 1


def run_groups2(case, ctx):
    w = tuple(case["w"])
    for ws, _which in pair_tables(w):
        for index in INDEXES:
            t = Table(ws, index=index)
            features(ctx, t)
            check_by_gene(ctx, t)
            ctx.state(("groups", ws, index), nontrivial=nontrivial(t))
            if index == "default":
                check_squash(ctx, t, False)
                ctx.state(("squash", ws, index, False), nontrivial=nontrivial(t))
    ctx.sample("groups2", {"words": [" ".join(w), " ".join(SLICE2[6])]})


GM_CONFIGS = ((0.2, 1), (0.5, 1), (0.2, 3), (0.5, 3))


def gm_state(ctx, key, exp, t):
    ngenes = len(M.gene_groups(t.bins))
    ctx.state(key, nontrivial=0 < len(exp) < ngenes or (len(exp) > 0 and any(b[3] in M.NONGENES for b in t.bins)))


def run_genemetrics(case, ctx):
    w = tuple(case["w"])
    for index in case["indexes"]:
        for rot in case["rots"]:
            if index == "gapped" and rot:
                continue  # the every-other-row index with rotation 0 only
            t = Table([w], index=index, rot=rot)
            for thr, minp in GM_CONFIGS:
                exp = check_gm(ctx, t, thr, minp)
                gm_state(ctx, ("gm", w, index, rot, thr, minp), exp, t)
    ctx.sample("genemetrics", {"word": " ".join(w), "rot": t.rot, "threshold": 0.2, "min_probes": 1, "expected": show(M.genemetrics_by_gene(t.bins, 0.2, 1))})


def run_genemetrics2(case, ctx):
    w = tuple(case["w"])
    for ws, _which in pair_tables(w):
        for index in ("default", "dropfirst"):
            t = Table(ws, index=index)
            for thr, minp in ((0.2, 1), (0.2, 3)):
                exp = check_gm(ctx, t, thr, minp)
                gm_state(ctx, ("gm", ws, index, 0, thr, minp), exp, t)
            ctx.stratum("gm-two-chromosomes")


def run_gm_low(case, ctx):
    """A very-low-coverage bin (log2 -25, depth 0) at every position, with and without skip_low."""
    w = tuple(case["w"])
    for pos in range(len(w)):
        lows = [(pos,)] + ([(pos, pos + 1)] if pos + 1 < len(w) else [])
        for low in lows:
            for cols in ("dw", "w") if len(low) == 1 else ("dw",):
                t = Table([w], low=low, cols=cols, rot=2 if len(low) == 1 else 0)
                for thr, minp, skip in ((0.2, 1, True), (0.2, 1, False), (0.2, 2, True)) if cols == "dw" else ((0.2, 1, True),):
                    exp = check_gm(ctx, t, thr, minp, skip_low=skip)
                    gm_state(ctx, ("gm-low", w, low, cols, thr, minp, skip), exp, t)
                    if skip:
                        for g, idxs in M.gene_groups(t.bins):
                            nlow = sum(1 for i in idxs if i in low)
                            if nlow == len(idxs):
                                ctx.stratum("skip_low-drops-every-bin-of-a-gene")
                            elif nlow:
                                ctx.stratum("skip_low-drops-some-bins-of-a-gene")
    # filtered index once per word (drop_low_coverage masks by label)
    if len(w) >= 2:
        t = Table([w], low=(1,), index="dropfirst")
        exp = check_gm(ctx, t, 0.2, 1, skip_low=True)
        gm_state(ctx, ("gm-low", w, (1,), "dropfirst"), exp, t)
    ctx.sample("gm_low", {"word": " ".join(w), "low_bin": 0, "skip_low": True})


def run_columns(case, ctx):
    """Tables without depth and/or weight columns; abutting bins."""
    w = tuple(case["w"])
    for cols in ("", "w", "d"):
        for index in ("default", "dropfirst"):
            t = Table([w], index=index, cols=cols, rot=1)
            check_by_gene(ctx, t)
            check_squash(ctx, t, False)
            for thr, minp in ((0.2, 1), (0.5, 2)):
                exp = check_gm(ctx, t, thr, minp)
                gm_state(ctx, ("gm-cols", w, index, cols, thr, minp), exp, t)
            ctx.stratum("columns-" + (cols or "none"))
    t = Table([w], layout="abutting")
    check_by_gene(ctx, t)
    exp = check_gm(ctx, t, 0.2, 1)
    gm_state(ctx, ("gm-abutting", w), exp, t)
    ctx.stratum("layout-abutting")


def run_gm_sex(case, ctx):
    w = tuple(case["w"])
    # no chrX: the options must not matter (is_sample_female=None asks the code to guess; nothing to shift)
    t = Table([w, SLICE2[6]])
    for female, haploid, parx in itertools.product((None, True, False), (False, True), (None, "grch37")):
        exp = check_gm(ctx, t, 0.2, 1, female=female if female is not None else None, haploid=haploid, parx=parx)
        gm_state(ctx, ("gm-sex-auto", w, female, haploid, parx), exp, t)
        ctx.stratum("sex-options-without-chrX")
    # chrX as the second chromosome, sex given
    for s in X_SLICE:
        for index in ("default", "dropfirst"):
            t = Table([w, s], chroms=("chr1", "chrX"), index=index)
            for female, haploid in itertools.product((True, False), (False, True)):
                shift = sex_shift(female, haploid)
                exp = check_gm(ctx, t, 0.2, 1, female=female, haploid=haploid, parx="grch37" if haploid else None)
                gm_state(ctx, ("gm-sex-x", w, s, index, female, haploid), exp, t)
                ctx.stratum("chrX-shift%+d" % shift)
                if index == "default":
                    n1, n2 = len(w), len(s)
                    for cutspec in (((), ()), ((), tuple(range(1, n2))[:1])):
                        check_gm_seg(ctx, t, cutspec, 1, 0.2, 1, True, female=female, haploid=haploid)
                        ctx.state(("gm-seg-sex", w, s, cutspec, female, haploid), nontrivial=True)
                        ctx.stratum("chrX-segments-shift%+d" % shift)


def chrom_cuts(n, kmax):
    return M.cuts(n, kmax)


# (segment-level rotation, threshold, min_probes, segments carry a probes column)
# threshold 0.5 meets the segment level 0.5 exactly: a given (not computed) value equal to the threshold reaches it
SEG_CONFIGS = ((0, 0.2, 1, True), (1, 0.2, 2, False), (2, 0.2, 3, True), (1, 0.5, 1, True))


def run_gm_seg(case, ctx):
    w = tuple(case["w"])
    n = len(w)
    for index in case["indexes"]:
        t = Table([w], index=index)
        for cuts in chrom_cuts(n, 3):
            for srot, thr, minp, with_probes in SEG_CONFIGS if index == "default" else SEG_CONFIGS[:2]:
                check_gm_seg(ctx, t, (cuts,), srot, thr, minp, with_probes)
                ctx.state(("gm-seg", w, index, cuts, srot, thr, minp), nontrivial=nontrivial(t) and len(cuts) > 0)
    if n <= 4:
        t = Table([w], layout="abutting")
        for cuts in chrom_cuts(n, 3):
            check_gm_seg(ctx, t, (cuts,), 0, 0.2, 1, True)
            ctx.state(("gm-seg-abutting", w, cuts), nontrivial=nontrivial(t))
            ctx.stratum("layout-abutting-segments")
    ctx.sample("gm_seg", {"word": " ".join(w), "cuts": [list(c) for c in chrom_cuts(n, 3)][:6]})


def pair_cutspecs(ws, which):
    """Every cut of the enumerated word's chromosome into <= 2 segments x the slice chromosome whole or cut after its first bin."""
    other = 1 - which
    for cw in chrom_cuts(len(ws[which]), 2):
        for co in ((), (1,)) if len(ws[other]) >= 2 else ((),):
            spec = [None, None]
            spec[which], spec[other] = cw, co
            yield tuple(spec)


def run_gm_seg2(case, ctx):
    w = tuple(case["w"])
    for ws, which in pair_tables(w, SLICE2[::2]):
        t = Table(ws)
        for cutspec in pair_cutspecs(ws, which):
            check_gm_seg(ctx, t, cutspec, 0, 0.2, 1, True)
            if not cutspec[1 - which]:
                # second configuration only with the slice chromosome left whole
                check_gm_seg(ctx, t, cutspec, 1, 0.2, 2, False)
            ctx.state(("gm-seg2", ws, cutspec), nontrivial=True)
            ctx.stratum("gm-seg-two-chromosomes")


def run_breaks(case, ctx):
    w = tuple(case["w"])
    n = len(w)
    for index in case["indexes"]:
        for layout in ("gapped", "abutting") if (index == "default" and n <= 4) else ("gapped",):
            t = Table([w], index=index, layout=layout)
            for cuts in chrom_cuts(n, case["kmax"]):
                for minp in (1, 2, 3):
                    check_breaks(ctx, t, (cuts,), minp)
                    ctx.state(("breaks", w, index, layout, cuts, minp), nontrivial=len(cuts) > 0 and nontrivial(t))
    ctx.sample("breaks", {"word": " ".join(w)})


def run_breaks2(case, ctx):
    w = tuple(case["w"])
    for ws, which in pair_tables(w, SLICE2[::2]):
        t = Table(ws)
        for cutspec in pair_cutspecs(ws, which):
            for minp in (1, 2):
                check_breaks(ctx, t, cutspec, minp)
                ctx.state(("breaks2", ws, cutspec, minp), nontrivial=True)


RUNNERS = {
    "groups": run_groups,
    "groups2": run_groups2,
    "genemetrics": run_genemetrics,
    "genemetrics2": run_genemetrics2,
    "gm_low": run_gm_low,
    "columns": run_columns,
    "gm_sex": run_gm_sex,
    "gm_seg": run_gm_seg,
    "gm_seg2": run_gm_seg2,
    "breaks": run_breaks,
    "breaks2": run_breaks2,
}


MANIFEST = {
    "text": "Bounded-exhaustive exploration of the real gene-grouping code: every bin table whose per-chromosome gene-name word "
    "satisfies the precondition (genes consecutive up to interleaved Antitarget/'-'/'CGH' bins) up to a stated length, on one "
    "or two chromosomes, under a default and two filtered row indexes, through CopyNumArray.by_gene (groups compared bin for "
    "bin, each bin exactly once), squash_genes, do_genemetrics (threshold x min_probes x skip_low with a low bin at every "
    "position x sex options x column sets; and with every cut of the chromosome into <=3 segments) and do_breaks (same cuts x "
    "min_probes), each result compared with a plain-Python scan model. Exhaustive inside the bound, nothing sampled.",
    "note": "Trusted: pandas/numpy, CopyNumArray.from_rows and boolean-mask row selection as table builders, the scan model "
    "(two formulations cross-checked in selftest/genes.py). Where the statement is open (skip_low counts, the part of an "
    "interrupted gene inside a segment, which count min_probes applies to with segments, named vs span bins in breaks) "
    "every reading is accepted. Not covered: comma-separated multi-gene names, tables beyond the bound, sex inference "
    "(C15), caller-owned ignore lists (C10).",
    "technique": "exhaustive enumeration of gene-name words x index variants x configurations on the real code against a scan-model oracle",
}

"""C08 - every format is read to 0-based half-open, sorted; write-then-read is lossless; auto-detection.

E1 (reader side): every abstract region table of the bound, in every input order, is rendered by the
*model's own writers* (models/formats.py) in BED3/4/6 (+track line), interval list (+@ header),
chr:start-end text (+label), GFF3, GTF, SEG (1..4 samples), Picard HS, CNVkit tab and VCF (sites /
with a sample / SNVs) according to each format's own coordinate convention, read by the real
tabio.read / cnvlib.read and by read_auto, and compared with the abstract table: coordinates, sort
order, and the columns the format carries.
E1 (writer side): every sorted table is written by the real tabio.write as tab (.cnn/.cnr/.cns kinds
and plain region tables), bed3, bed4, bed, interval, text and through `export seg` + `import-seg`,
read back, compared row for row, written again, bytes compared.
E2: breadth-first search over the tables reachable by chains of write->read through different formats;
the coordinates (and the names while every step carried them) must never change.
"""
import atexit
import itertools
import os
import shutil
import tempfile

import numpy as np
import pandas as pd

from checks.common import GA
from mc.engine import Exc
from models import formats as F

import cnvlib  # noqa: E402  (bound by checks.common)
from cnvlib import commands  # noqa: E402
from cnvlib.cnary import CopyNumArray as CNA  # noqa: E402
from skgenome import tabio  # noqa: E402

ID = "C08"
BUDGET = {"quick": 900, "thorough": 5400}
CASE_TIMEOUT = 600

# ------------------------------------------------------------------------------------------------
# alphabets (simplest first)
PLAIN = ["1", "2", "10", "X", "Y", "M"]
CHR = ["chr" + c for c in PLAIN]
ALT = ["chr2", "chrM", "chrUn_gl000220", "chr1_KI270706v1_random", "scaffold_7"]
DOT = ["1", "X", "GL000192.1"]
MIXED = ["1", "chr2", "10", "chrX", "Y", "chrM", "GL000192.1", "scaffold_7"]  # thorough: mixed styles, ranks distinct
STYLES = {"plain": PLAIN, "chr": CHR, "alt": ALT, "dot": DOT}
ALL_NAMES = CHR + PLAIN + ["chrUn_gl000220", "chr1_KI270706v1_random", "GL000192.1", "scaffold_7"]
COORDS = [0, 1, 2, 10, 99, 100, 299999999, 300000000]
PAIRS = [(s, e) for s in COORDS for e in COORDS if s < e]
LABELS = ["A", "-", "A,B", "x.y", "a-b", "."]  # "." alone is a legal label too (a dot), distinct from "-"
FLOATS = [0.0, 1e-7, 0.1234567891, -20.0, 123456.789, 1e10, 2.5e-310]
INTS = [0, 1, 7, -3, 300000000, 2**40]
IVS = [(0, 1), (0, 10), (1, 2), (1, 10), (2, 10), (10, 100)]
IVS4 = [(0, 10), (0, 2), (1, 2), (2, 10)]
SEG_IDS = ["s0", "N_2", "T-3.x", "s4"]

KIND_COLS = {  # in-memory column order = the class's own canonical order (required columns, then the rest sorted)
    "ga3": ["chromosome", "start", "end"],
    "ga4": ["chromosome", "start", "end", "gene"],
    "cnn": ["chromosome", "start", "end", "gene", "log2", "depth"],
    "cnr": ["chromosome", "start", "end", "gene", "log2", "depth", "weight"],
    "cns": ["chromosome", "start", "end", "gene", "log2", "cn", "depth", "probes", "weight"],
}
INT_COLS = ("probes", "cn")
FLOAT_COLS = ("log2", "depth", "weight", "gc", "ratio")
CARRIES_GENE = {"tab", "bed4", "bed", "interval"}


def describe(tier):
    t = tier == "thorough"
    return {
        "rule": "reader side: every table of the bound in every input order x every format variant written by the model's own "
        "writers -> tabio.read / cnvlib.read (+ read_auto where claimed) vs the abstract table (coordinates, sort order, carried "
        "columns). writer side: every sorted table x kinds x {tab, bed3, bed4, bed, interval, text, export seg -> import-seg}: "
        "write, read back, compare row for row, write again, compare bytes. chains: BFS over write->read sequences through "
        "different formats. state = canonical (input-ordered table, value offsets[, kind]); non-trivial = the input is "
        "unsorted, spans several chromosomes, or touches a boundary coordinate (0 or 3e8)",
        "bound": {
            "rows": "1..4 rows" if t else "1..3 rows",
            "one_row": "full product name x (start,end) x label" if t else "one field and every pair of fields varied against the base row (chr1,10,100,A)",
            "two_rows": "every ordered pair of names of each naming style x 3 coordinate assignments; every ordered pair of intervals on one chromosome; identical rows",
            "three_rows": "every permutation of every 3-subset of each style (coordinates descending along the natural order); every ordered triple of 4 intervals"
            + (" (6 intervals in thorough)" if t else "")
            + "; two-chromosome tables in every order",
            "four_rows": "every permutation of every 4-subset of each style and of the mixed-style list (also its 3-subsets); every ordered quadruple of 4 intervals; "
            "two rows: every ordered pair of names of the whole alphabet"
            if t
            else "not in quick",
            "values": "every float of the alphabet in every float column, every int in every int column (offsets cycle with the row index)",
            "seg_samples": "reader side: 1 and 2 samples for every table, 4 for " + ("every table" if t else "every 8th table") + "; export/import: 1..4 samples cycling over the tables",
            "chain_depth": 4 if t else 2,
        },
        "alphabet": {
            "names": ALL_NAMES,
            "coordinates": COORDS,
            "labels": LABELS,
            "floats": [repr(x) for x in FLOATS],
            "ints": INTS,
            "reader_variants": [v for v in READ_VARIANTS],
            "writer_formats": ["tab", "bed3", "bed4", "bed", "interval", "text", "seg(export+import)"],
            "kinds": list(KIND_COLS),
        },
        "assumptions": [
            "the in-memory tables of the writer side are built with the GenomicArray / CopyNumArray constructors from a DataFrame",
            "writer-side tables are sorted and hold at most one non-canonical contig (the order among such contigs is left open)",
            "no table holds the same chromosome under two spellings (chr1 and 1)",
            "VCF: start = POS-1 always; the end is compared only where INFO END states it and only for the plain-text readers "
            "(pysam hides END from INFO; without END the statement fixes no end)",
            "auto-detection only for names made of letters, digits and underscores; BED5 is not enumerated (a 5-column BED "
            "whose name is '-' is a well-formed interval-list line)",
            "names in formats that do not carry names, column order and dtypes are not compared; numbers to 6 significant digits",
            "export seg / import-seg are driven through the argparse entry points with default options",
        ],
    }


# ------------------------------------------------------------------------------------------------
# table enumeration


def lab(i):
    return LABELS[i % len(LABELS)]


def one_row_tables(full):
    base = ["chr1", 10, 100, "A"]
    seen, out = set(), []

    def add(c, p, g):
        k = (c, p, g)
        if k not in seen:
            seen.add(k)
            out.append([[c, p[0], p[1], g]])

    add(base[0], (10, 100), "A")
    for c in ALL_NAMES:
        add(c, (10, 100), "A")
    for p in PAIRS:
        add("chr1", p, "A")
    for g in LABELS:
        add("chr1", (10, 100), g)
    for c in ALL_NAMES:
        for p in PAIRS:
            add(c, p, "A")
    for c in ALL_NAMES:
        for g in LABELS:
            add(c, (10, 100), g)
    for p in PAIRS:
        for g in LABELS:
            add("chr1", p, g)
    if full:
        for c in ALL_NAMES:
            for p in PAIRS:
                for g in LABELS:
                    add(c, p, g)
    return out


def two_row_tables():
    out = []
    for c in ("chr1", "1"):
        for i in IVS[:3]:
            out.append([[c, i[0], i[1], "A"], [c, i[0], i[1], "A"]])  # identical rows
            out.append([[c, i[0], i[1], "A"], [c, i[0], i[1], "x.y"]])  # same coordinates, two names
    for c in ("chr1", "1"):
        for i1, i2 in itertools.product(IVS, repeat=2):
            out.append([[c, i1[0], i1[1], "A"], [c, i2[0], i2[1], "A,B"]])
    for names in STYLES.values():
        for c1, c2 in itertools.permutations(names, 2):
            out.append([[c1, 10, 100, "A"], [c2, 10, 100, "-"]])
            out.append([[c1, 10, 100, "A"], [c2, 0, 2, "-"]])
            out.append([[c1, 0, 2, "A"], [c2, 10, 100, "-"]])
    return out


def three_row_tables(full):
    out = []
    for ca, cb in (("chr2", "chr10"), ("2", "10"), ("chrX", "chrM"), ("chrY", "chrUn_gl000220")):
        for base in ([(ca, 0, 10), (ca, 1, 2), (cb, 0, 2)], [(ca, 1, 2), (cb, 0, 10), (cb, 0, 2)]):
            for perm in itertools.permutations(base):
                out.append([[r[0], r[1], r[2], lab(i)] for i, r in enumerate(perm)])
    ivs = IVS if full else IVS4
    for trip in itertools.product(ivs, repeat=3):
        out.append([["chr1", iv[0], iv[1], lab(i)] for i, iv in enumerate(trip)])
    desc = [(10, 100), (2, 10), (0, 1)]  # the chromosome that sorts first has the largest start
    for names in STYLES.values():
        for comb in itertools.combinations(names, 3):
            rows = [(c, desc[k][0], desc[k][1]) for k, c in enumerate(comb)]
            for perm in itertools.permutations(rows):
                out.append([[r[0], r[1], r[2], lab(i)] for i, r in enumerate(perm)])
    return out


def four_row_tables():
    out = []
    for quad in itertools.product(IVS4, repeat=4):
        out.append([["chr1", iv[0], iv[1], lab(i)] for i, iv in enumerate(quad)])
    desc = [(99, 100), (10, 100), (2, 10), (0, 1)]
    for names in (PLAIN, CHR, ALT):
        for comb in itertools.combinations(names, 4):
            rows = [(c, desc[k][0], desc[k][1]) for k, c in enumerate(comb)]
            for perm in itertools.permutations(rows):
                out.append([[r[0], r[1], r[2], lab(i)] for i, r in enumerate(perm)])
    for n in (3, 4):
        for comb in itertools.combinations(MIXED, n):
            rows = [(c, desc[k][0], desc[k][1]) for k, c in enumerate(comb)]
            for perm in itertools.permutations(rows):
                out.append([[r[0], r[1], r[2], lab(i)] for i, r in enumerate(perm)])
    return out


def cross_style_pairs():
    """thorough: every ordered pair of names of the whole alphabet (never one chromosome under two spellings)."""
    out = []
    for c1, c2 in itertools.permutations(ALL_NAMES, 2):
        if F.is_canonical(c1) and F.chrom_rank(c1) == F.chrom_rank(c2):
            continue
        out.append([[c1, 10, 100, "A"], [c2, 10, 100, "-"]])
        out.append([[c1, 10, 100, "A"], [c2, 0, 2, "-"]])
        out.append([[c1, 0, 2, "A"], [c2, 10, 100, "-"]])
    return out


SIBLING_CONTIGS = [
    ("chrUn_gl000220", "chrUn_gl000221"),
    ("chr1_gl000191_random", "chr1_gl000192_random"),
    ("GL000192.1", "GL000193.1"),
    ("scaffold_7", "scaffold_17"),
]


def sibling_contig_tables():
    """Two unplaced contigs whose names differ only in their digits, with interleaved coordinates: each contig's rows
    still have to come out as one block (sorted by start inside it)."""
    out = []
    for a, b in SIBLING_CONTIGS:
        out.append([[a, 0, 10, "A"], [b, 5, 8, "-"], [a, 20, 30, "A,B"]])
        out.append([[b, 20, 30, "A"], [a, 5, 8, "-"], [b, 0, 10, "x.y"], [a, 30, 40, "a-b"]])
        out.append([["chr1", 0, 10, "A"], [b, 0, 10, "-"], [a, 5, 8, "A"], [b, 10, 20, "-"]])
    return out


def tables(tier):
    t = tier == "thorough"
    out = one_row_tables(t) + two_row_tables() + sibling_contig_tables() + three_row_tables(t)
    if t:
        out += cross_style_pairs() + four_row_tables()
    return out


def sorted_case_rows(rows):
    return sorted(rows, key=lambda r: (F.chrom_rank(r[0]), r[1], r[2]))


def writer_tables(tier):
    """The distinct sorted tables of the bound that hold at most one non-canonical contig."""
    seen, out = set(), []
    for rows in tables(tier):
        if len({r[0] for r in rows if not F.is_canonical(r[0])}) > 1:
            continue
        s = sorted_case_rows(rows)
        if len(s) >= 3:  # labels were dealt by input position: deal them by sorted position instead
            s = [[r[0], r[1], r[2], lab(i)] for i, r in enumerate(s)]
        k = repr(s)
        if k not in seen:
            seen.add(k)
            out.append(s)
    return out


CHAIN_ROOTS = [
    [["chr1", 10, 100, "A"]],
    [["1", 0, 1, "A,B"]],
    [["chrX", 299999999, 300000000, "x.y"]],
    [["GL000192.1", 0, 300000000, "a-b"]],
    [["chr1", 0, 10, "A"], ["chr1", 0, 10, "-"]],
    [["chr2", 2, 10, "A"], ["chr10", 0, 1, "x.y"], ["chrM", 1, 2, "-"]],
    [["1", 0, 2, "A"], ["1", 0, 10, "a-b"], ["X", 0, 1, "A,B"], ["scaffold_7", 99, 100, "-"]],
]


def cases(tier):
    t = tier == "thorough"
    # values first on a tiny table: every float / int of the alphabet in every column
    base2 = [["chr1", 0, 10, "A"], ["chr1", 10, 100, "-"]]
    for voff in range(len(FLOATS)):
        for ioff in range(len(INTS)):
            yield {"check": "read", "rows": base2, "voff": voff, "ioff": ioff, "seg_k": 2, "scope": "values"}
    for voff in range(len(FLOATS)):
        for ioff in range(len(INTS)):
            for kind in ("cns", "cnr", "cnn"):
                for rows in (base2[:1], base2):
                    yield {"check": "roundtrip", "rows": rows, "kind": kind, "voff": voff, "ioff": ioff, "seg_k": 1, "scope": "values"}
    for i, rows in enumerate(CHAIN_ROOTS):
        yield {"check": "chain", "rows": rows, "depth": 4 if t else 2}
    tabs = tables(tier)
    wtabs = writer_tables(tier)
    # interleave reader-side and writer-side cases by table size so the smallest counterexample comes first
    bysize = {}
    for i, rows in enumerate(tabs):
        bysize.setdefault(len(rows), []).append(
            {"check": "read", "rows": rows, "voff": i % 7, "ioff": i % 6, "seg_k": 4 if (t or i % 8 == 0) else 2, "scope": "tables"}
        )
    for i, rows in enumerate(wtabs):
        kinds = ["cns", "ga4"] + (["ga3", "cnn", "cnr"] if (t or i % 8 == 0) else [])
        for kind in kinds:
            bysize.setdefault(len(rows), []).append(
                {"check": "roundtrip", "rows": rows, "kind": kind, "voff": i % 7, "ioff": i % 6, "seg_k": (1 + (i // 8) % 4) if i % 8 == 0 else (1 + i % 4 if t else 1 + i % 2), "scope": "tables"}
            )
    for n in sorted(bysize):
        for c in bysize[n]:
            yield c
    if t:
        for rows in wtabs[:: 7]:
            if len(rows) >= 2:
                yield {"check": "chain", "rows": rows, "depth": 3}


def run(case, ctx):
    kind = case["check"]
    if kind == "read":
        run_read(case, ctx)
    elif kind == "roundtrip":
        run_roundtrip(case, ctx)
    elif kind == "chain":
        run_chain(case, ctx)
    else:
        raise ValueError(kind)


# ------------------------------------------------------------------------------------------------
# helpers

_TMP = None


def tmpdir():
    global _TMP
    if _TMP is None or not os.path.isdir(_TMP):
        _TMP = tempfile.mkdtemp(prefix="c08_run_", dir="/tmp")
        atexit.register(shutil.rmtree, _TMP, True)
    return _TMP


def put(name, text):
    path = os.path.join(tmpdir(), name)
    with open(path, "w") as f:
        f.write(text)
    return path


def slurp(path):
    with open(path) as f:
        return f.read()


def build(case_rows, voff=0, ioff=0):
    """Row dicts in the given order; the numeric columns cycle through the value alphabets.  A row that repeats an earlier
    row (same chromosome, start, end, label) also repeats its numbers: a true duplicate row."""
    nf, ni = len(FLOATS), len(INTS)
    rows = []
    first_seen = {}
    for i, (c, s, e, g) in enumerate(case_rows):
        i = first_seen.setdefault((c, s, e, g), i)
        rows.append(
            {
                "chromosome": c,
                "start": s,
                "end": e,
                "gene": g,
                "log2": FLOATS[(voff + i) % nf],
                "depth": FLOATS[(voff + 2 * i + 3) % nf],
                "weight": FLOATS[(voff + 3 * i + 5) % nf],
                "gc": FLOATS[(voff + i + 2) % nf],
                "ratio": FLOATS[(voff + i + 4) % nf],
                "probes": INTS[(ioff + i) % ni],
                "cn": INTS[(ioff + 2 * i + 1) % ni],
            }
        )
    return rows


def _py(x):
    if isinstance(x, np.generic):
        x = x.item()
    return x


def table_of(res):
    df = res.data if hasattr(res, "data") else res
    cols = [str(c) for c in df.columns]
    return cols, [dict(zip(cols, (_py(v) for v in tup))) for tup in df.itertuples(index=False, name=None)]


def frozen(res):
    """Whole-table fingerprint (columns and every cell; NaN made comparable)."""
    cols, rows = table_of(res)
    return cols, [[("NaN" if isinstance(r[c], float) and r[c] != r[c] else r[c]) for c in cols] for r in rows]


def coords(rows):
    return [(r["chromosome"], r["start"], r["end"]) for r in rows]


def coord_delta(exp, obs, use_end=True):
    """Classify how observed coordinates differ from the expected ones (as multisets)."""
    if len(exp) != len(obs):
        return "row-count"
    e, o = sorted(exp), sorted(obs)
    if [x[0] for x in e] != [x[0] for x in o]:
        return "chromosome-names"
    ds = {b[1] - a[1] for a, b in zip(e, o)}
    de = {b[2] - a[2] for a, b in zip(e, o)} if use_end else {0}
    if len(ds) == 1 and len(de) == 1:
        d_s, d_e = ds.pop(), de.pop()
        parts = (["start%+d" % d_s] if d_s else []) + (["end%+d" % d_e] if d_e else [])
        return "+".join(parts) if parts else "same"
    return "rows-differ"


def style_of(rows):
    names = {r["chromosome"] for r in rows}
    alt = any(not F.is_canonical(n) for n in names)
    pre = {n[:3].lower() == "chr" for n in names}
    return ("chr" if pre == {True} else "plain" if pre == {False} else "mixed") + ("+contig" if alt else "")


def carried_key(r, cols):
    return tuple(r.get(c) for c in cols)


def value_fault(want, got, cols):
    """First carried column whose value differs (names and ints exactly, floats to 6 digits), or None."""
    for c in cols:
        w, g = want[c], got.get(c)
        if c in FLOAT_COLS:
            if not isinstance(g, (int, float)) or isinstance(g, bool) or not F.same_6_digits(w, g):
                return c
        elif c in INT_COLS:
            if isinstance(g, bool) or not isinstance(g, (int, float)) or g != w:
                return c
        else:
            if g != w:
                return c
    return None


def compare_read(ctx, where, res, want_rows, carried, sub, has_end=True):
    """Reader clause: same coordinates (as a multiset), a sort order the statement allows, and the carried
    columns attached to the right rows.  `where` = '<variant>/<fmt>'.  Returns True if it held."""
    if isinstance(res, Exc):
        ctx.violation("the format is read into a table", f"read/{where}/raises/{res.key}", observed=res, sub=sub)
        return False
    ctx.trace()
    cols, obs = table_of(res)
    if not all(c in cols for c in ("chromosome", "start", "end")):
        ctx.violation("the table read has chromosome, start, end", f"read/{where}/columns", observed=cols, sub=sub)
        return False
    oc = coords(obs)
    ctx.outcome(("read", where.split("/")[-1], tuple(oc)))
    if has_end:
        ec = coords(want_rows)
        same = sorted(ec) == sorted(oc)
    else:
        ec = [(r["chromosome"], r["start"], None) for r in want_rows]
        same = sorted(x[:2] for x in ec) == sorted(x[:2] for x in oc)
    if not same:
        delta = coord_delta([(c, s, e or 0) for c, s, e in ec], oc, use_end=has_end)
        ctx.violation(
            "each row is read into 0-based half-open coordinates by the format's own convention",
            f"read/{where}/coords/{delta}",
            expected=sorted(ec, key=repr),
            observed=oc,
            sub=sub,
        )
        return False
    fault = F.order_fault(oc)
    if fault:
        ctx.violation(
            "rows are sorted by natural chromosome order (1, 2, 10, X, Y, M, then other contigs), then start, then end",
            f"read/order/{fault}/{style_of(want_rows)}",  # sorting is one shared step: the format is in `sub`, not in the key
            expected=coords(F.sorted_rows(want_rows)) if has_end else None,
            observed=oc,
            sub=sub,
        )
        return False
    if carried:
        # a leading '?' marks a column whose *name* is the package's own choice (Picard's %gc -> gc, SEG's
        # num.mark -> probes): compared when present under that name, not demanded
        ccols = [c.lstrip("?") for c in carried if not (c.startswith("?") and c[1:] not in cols)]
        missing = [c for c in ccols if c not in cols]
        if missing:
            ctx.violation("the columns the format carries are read", f"read/{where}/missing-column/{missing[0]}", observed=cols, sub=sub)
            return False
        # rows with equal coordinates may come in either order: match them as multisets
        groups = {}
        for r in want_rows:
            groups.setdefault((r["chromosome"], r["start"], r["end"]), []).append(r)
        ogroups = {}
        for r in obs:
            ogroups.setdefault((r["chromosome"], r["start"], r["end"]), []).append(r)
        for k in groups:
            ws = sorted(groups[k], key=lambda r: repr(carried_key(r, ccols)))
            gs = list(ogroups[k])
            for w in ws:
                hit = None
                for j, g in enumerate(gs):
                    if value_fault(w, g, ccols) is None:
                        hit = j
                        break
                if hit is None:
                    col = value_fault(w, gs[0], ccols)
                    kindc = "names" if col == "gene" else f"values/{col}"
                    ctx.violation(
                        "the columns a format carries stay with their rows (names and integers exactly, numbers to 6 significant digits)",
                        f"read/{where}/{kindc}",
                        expected={c: w[c] for c in ccols},
                        observed=[{c: g.get(c) for c in ccols} for g in gs],
                        sub={**sub, "row": list(k)},
                    )
                    return False
                gs.pop(hit)
    return True


def compare_auto(ctx, variant, fmt, explicit, path, sub):
    """Auto-detection clause: read_auto returns the very table the format's own parser returns."""
    # every auto-detected read goes through one and the same path, whose content changes format from read to read
    # (detection has to look at the file that is there now, not at what the path held before)
    shared = os.path.join(tmpdir(), "auto-detect-input")
    shutil.copyfile(path, shared)
    got = ctx.call(tabio.read_auto, shared)
    if isinstance(explicit, Exc):
        return
    if isinstance(got, Exc):
        ctx.violation(
            "format auto-detection selects the parser that yields the same table", f"auto/{variant}/raises/{got.key}", expected=f"as read(fmt={fmt!r})", observed=got, sub=sub
        )
        return
    ctx.trace()
    a, b = frozen(got), frozen(explicit)
    if a != b:
        d = coord_delta(coords(table_of(explicit)[1]), coords(table_of(got)[1])) if a[0][:3] == b[0][:3] else "columns"
        ctx.violation(
            "format auto-detection selects the parser that yields the same table",
            f"auto/{variant}/differs-from-{fmt}-parser/{d}",
            expected=b,
            observed=a,
            sub=sub,
        )
    ctx.stratum("auto-detected:" + variant)


# ------------------------------------------------------------------------------------------------
# reader side

READ_VARIANTS = [
    "bed3",
    "bed4",
    "bed6",
    "bed4+track",
    "interval",
    "interval+header",
    "interval+strands",
    "text",
    "text+label",
    "text+label-space",
    "gff3",
    "gtf",
    "tab",
    "picardhs",
    "seg-1-sample",
    "seg-k-samples",
    "seg-k-samples-interleaved",
    "vcf-sites",
    "vcf-sample",
    "vcf-snv",
]


def run_read(case, ctx):
    rows = build(case["rows"], case.get("voff", 0), case.get("ioff", 0))
    names = {r["chromosome"] for r in rows}
    auto_ok = all(n.replace("_", "a").isalnum() and n.isascii() for n in names)
    sub0 = {}
    srt = coords(rows) == coords(F.sorted_rows(rows))
    nontrivial = (not srt) or len(names) > 1 or any(r["start"] == 0 or r["end"] == 300000000 for r in rows)
    ctx.state(("read", case["rows"], case.get("voff", 0), case.get("ioff", 0), case.get("seg_k", 2)), nontrivial=nontrivial)
    ctx.stratum("read:input-" + ("sorted" if srt else "unsorted"))
    ctx.stratum("read:rows=%d" % len(rows))
    if any(not F.is_canonical(n) for n in names):
        ctx.stratum("read:non-canonical-contig")
    if not auto_ok:
        ctx.stratum("read:dotted-name(auto-detection not claimed)")
    if any(r["start"] == 0 for r in rows):
        ctx.stratum("read:start=0")
    if any(r["end"] == 300000000 for r in rows):
        ctx.stratum("read:end=3e8")
    if len(set(coords(rows))) < len(rows):
        ctx.stratum("read:duplicate-coordinates")
    if any(r["gene"] == "-" for r in rows):
        ctx.stratum("read:label-dash")

    def explicit(variant, path, fmt, carried, want=rows, has_end=True, reader=None, **kw):
        res = ctx.call(reader or tabio.read, path, fmt, **kw) if reader is None else ctx.call(reader, path)
        compare_read(ctx, f"{variant}/{fmt if reader is None else 'cnvlib.read'}", res, want, carried, {**sub0, "variant": variant, "fmt": fmt, **kw}, has_end)
        ctx.stratum("read-variant:" + variant)
        return res

    def auto(variant, fmt, res, path):
        if auto_ok:
            compare_auto(ctx, variant, fmt, res, path, {"variant": variant})

    # BED
    p = put("m3.bed", F.write_bed(rows, 3))
    explicit("bed3", p, "bed3", [])
    r = explicit("bed3", p, "bed", [])
    auto("bed3", "bed", r, p)
    p = put("m4.bed", F.write_bed(rows, 4))
    explicit("bed4", p, "bed4", ["gene"])
    r = explicit("bed4", p, "bed", ["gene"])
    auto("bed4", "bed", r, p)
    p = put("m6.bed", F.write_bed(rows, 6))
    explicit("bed6", p, "bed4", ["gene"])
    r = explicit("bed6", p, "bed", ["gene"])
    auto("bed6", "bed", r, p)
    p = put("m4t.bed", F.write_bed(rows, 4, track=True))
    r = explicit("bed4+track", p, "bed", ["gene"])
    auto("bed4+track", "bed", r, p)
    # interval list
    p = put("m.interval_list", F.write_interval(rows))
    r = explicit("interval", p, "interval", ["gene"])
    auto("interval", "interval", r, p)
    p = put("mh.interval_list", F.write_interval(rows, header=True))
    r = explicit("interval+header", p, "interval", ["gene"])
    auto("interval+header", "interval", r, p)
    # strands as tabio's own writer emits them for a table read from BED: '.', then '-', '+' (labels are never numeric,
    # so such a line is not a well-formed BED5 line)
    p = put("ms.interval_list", F.write_interval([dict(x, strand=".-+"[i % 3]) for i, x in enumerate(rows)]))
    r = explicit("interval+strands", p, "interval", ["gene"])
    auto("interval+strands", "interval", r, p)
    # chr:start-end text
    p = put("m.txt", F.write_text(rows))
    r = explicit("text", p, "text", [])
    auto("text", "text", r, p)
    p = put("ml.txt", F.write_text(rows, "tab"))
    r = explicit("text+label", p, "text", ["gene"])
    auto("text+label", "text", r, p)
    p = put("ms.txt", F.write_text(rows, "space"))
    r = explicit("text+label-space", p, "text", ["gene"])
    auto("text+label-space", "text", r, p)
    # GFF3 / GTF
    p = put("m.gff3", F.write_gff(rows, "gff3"))
    r = explicit("gff3", p, "gff", ["gene"])
    auto("gff3", "gff", r, p)
    p = put("m.gtf", F.write_gff(rows, "gtf"))
    r = explicit("gtf", p, "gff", ["gene"])
    auto("gtf", "gff", r, p)
    # CNVkit tab
    tcols = ["chromosome", "start", "end", "gene", "depth", "log2", "probes"]
    p = put("m.cnn", F.write_tab(rows, tcols))
    r = explicit("tab", p, "tab", ["gene", "depth", "log2", "probes"])
    auto("tab", "tab", r, p)
    explicit("tab", p, "tab", ["gene", "depth", "log2", "probes"], reader=cnvlib.read)
    # Picard per-target coverage
    p = put("m.hs.txt", F.write_picard_hs(rows))
    explicit("picardhs", p, "picardhs", ["gene", "?gc", "?depth", "?ratio"])
    # SEG
    p = put("m1.seg", F.write_seg([(SEG_IDS[0], rows)], probes=False))
    explicit("seg-1-sample", p, "seg", ["log2"])
    explicit("seg-1-sample", p, "seg", ["log2"], sample_id=SEG_IDS[0])
    explicit("seg-1-sample", p, "seg", ["log2"], sample_id=0)
    k = case.get("seg_k", 2)
    samples = []
    for j in range(k):
        rot = case["rows"][j % len(rows) :] + case["rows"][: j % len(rows)]
        samples.append((SEG_IDS[j], build(rot, case.get("voff", 0) + j + 1, case.get("ioff", 0) + j)))
    p = put("mk.seg", F.write_seg(samples, probes=True))
    explicit("seg-k-samples", p, "seg", ["log2", "?probes"], want=samples[0][1])
    for j, (sid, srows) in enumerate(samples):
        explicit("seg-k-samples", p, "seg", ["log2", "?probes"], want=srows, sample_id=sid)
        explicit("seg-k-samples", p, "seg", ["log2", "?probes"], want=srows, sample_id=j)
    ctx.stratum("read:seg-samples=%d" % k)
    if k > 1 and len(rows) > 1:
        # the same samples, their rows taking turns in the file (e.g. a SEG file sorted by position across samples)
        p = put("mki.seg", F.write_seg(samples, probes=True, interleave=True))
        explicit("seg-k-samples-interleaved", p, "seg", ["log2", "?probes"], want=samples[0][1])
        for j, (sid, srows) in enumerate(samples):
            explicit("seg-k-samples-interleaved", p, "seg", ["log2", "?probes"], want=srows, sample_id=sid)
            explicit("seg-k-samples-interleaved", p, "seg", ["log2", "?probes"], want=srows, sample_id=j)
        ctx.stratum("read:seg-samples-interleaved=%d" % k)
    # VCF
    p = put("m.sites.vcf", F.write_vcf(rows, "sv", sample=False))
    explicit("vcf-sites", p, "vcf-sites", [])
    r = explicit("vcf-sites", p, "vcf", [], has_end=False)
    auto("vcf-sites", "vcf", r, p)
    p = put("m.sample.vcf", F.write_vcf(rows, "sv", sample=True))
    explicit("vcf-sample", p, "vcf-simple", [])
    explicit("vcf-sample", p, "vcf", [], has_end=False)
    p = put("m.snv.vcf", F.write_vcf(rows, "snv", sample=True))
    explicit("vcf-snv", p, "vcf-simple", [], has_end=False)
    explicit("vcf-snv", p, "vcf-sites", [], has_end=False)
    r = explicit("vcf-snv", p, "vcf", [], has_end=False)
    auto("vcf-snv", "vcf", r, p)
    ctx.sample("read:" + case.get("scope", ""), {"rows": case["rows"], "bed4": F.write_bed(rows, 4), "text": F.write_text(rows), "sorted": coords(F.sorted_rows(rows))})


# ------------------------------------------------------------------------------------------------
# writer side


def make_array(rows, kind, sample_id="smp"):
    cols = KIND_COLS[kind]
    df = pd.DataFrame({c: [r[c] for r in rows] for c in cols})
    cls = GA if kind.startswith("ga") else CNA
    return cls(df, {"sample_id": sample_id})


def compare_back(ctx, fmt, res, want_rows, carried, sub, kind):
    """Round-trip clause: the table read back is the table written, row for row."""
    if isinstance(res, Exc):
        ctx.violation("a written table can be read back", f"roundtrip/{fmt}/read-raises/{res.key}", observed=res, sub=sub)
        return False
    ctx.trace()
    cols, obs = table_of(res)
    oc, ec = coords(obs), coords(want_rows)
    ctx.outcome(("back", fmt, tuple(oc)))
    if oc != ec:
        if sorted(oc) == sorted(ec):
            key = f"roundtrip/row-order/{style_of(want_rows)}"
        else:
            key = f"roundtrip/{fmt}/coords/{coord_delta(ec, oc)}"
        ctx.violation("writing a table and reading it back returns identical coordinates", key, expected=ec, observed=oc, sub=sub)
        return False
    for w, g in zip(want_rows, obs):
        col = value_fault(w, g, carried)
        if col:
            what = "names" if col == "gene" else ("integer-column/" + col if col in INT_COLS else "float-column/" + col)
            ctx.violation(
                "writing a table and reading it back returns identical names and integer columns and numbers equal to 6 significant digits",
                f"roundtrip/{fmt}/{what}",
                expected={c: w[c] for c in carried},
                observed={c: g.get(c) for c in carried},
                sub={**sub, "row": [w["chromosome"], w["start"], w["end"]]},
            )
            return False
    return True


def round_trip(ctx, arr, rows, kind, wfmt, reader, rlabel, carried, sub):
    sub = {**sub, "write": wfmt, "read": rlabel}
    ext = {"tab": "." + (kind if kind.startswith("cn") else "tsv")}.get(wfmt, "." + wfmt)
    p1 = os.path.join(tmpdir(), "w1" + ext)
    got = ctx.call(tabio.write, arr, p1, wfmt)
    if isinstance(got, Exc):
        ctx.violation("a table can be written", f"roundtrip/{wfmt}/write-raises/{got.key}", observed=got, sub=sub)
        return None
    b1 = slurp(p1)
    back = ctx.call(reader, p1)
    ctx.stratum(f"roundtrip:{wfmt}")
    if not compare_back(ctx, wfmt, back, rows, carried, {**sub, "written": b1[:300]}, kind):
        return None
    p2 = os.path.join(tmpdir(), "w2" + ext)
    got = ctx.call(tabio.write, back, p2, wfmt)
    if isinstance(got, Exc):
        ctx.violation("the table read back can be written again", f"roundtrip/{wfmt}/rewrite-raises/{got.key}", observed=got, sub=sub)
        return None
    b2 = slurp(p2)
    ctx.trace()
    if b2 != b1:
        ctx.violation("writing the table read back produces identical bytes", f"roundtrip/{wfmt}/rewrite-bytes/{kind}", expected=b1[:400], observed=b2[:400], sub=sub)
        return None
    return back


def rd(fmt):
    return lambda path: tabio.read(path, fmt)


def seg_round_trip(ctx, case, kind, k, sub):
    """cnvkit.py export seg s0.cns .. -o all.seg ; cnvkit.py import-seg all.seg -d imp ; read imp/<id>.cns."""
    d = os.path.join(tmpdir(), "segrt")
    shutil.rmtree(d, True)
    os.mkdir(d)
    has_probes = "probes" in KIND_COLS[kind]
    samples, fnames = [], []
    for j in range(k):
        rows = build(case["rows"], case.get("voff", 0) + j, case.get("ioff", 0) + j)
        arr = make_array(rows, kind, SEG_IDS[j])
        fn = os.path.join(d, SEG_IDS[j] + "." + kind)
        got = ctx.call(tabio.write, arr, fn)
        if isinstance(got, Exc):
            return  # reported by the tab round trip
        samples.append((SEG_IDS[j], rows))
        fnames.append(fn)
    sub = {**sub, "write": "export seg", "read": "import-seg", "samples": k}

    def export(fns, out):
        return ctx.call(lambda: (lambda a: a.func(a))(commands.parse_args(["export", "seg", *fns, "-o", out])))

    seg1 = os.path.join(d, "all.seg")
    got = export(fnames, seg1)
    if isinstance(got, Exc):
        ctx.violation("segments can be exported as SEG", f"roundtrip/seg/export-raises/{got.key}", observed=got, sub=sub)
        return
    b1 = slurp(seg1)
    imp = os.path.join(d, "imp")
    got = ctx.call(lambda: (lambda a: a.func(a))(commands.parse_args(["import-seg", seg1, "-d", imp])))
    if isinstance(got, Exc):
        ctx.violation("an exported SEG file can be imported", f"roundtrip/seg/import-raises/{got.key}", observed=got, sub={**sub, "written": b1[:300]})
        return
    ctx.stratum("roundtrip:seg-samples=%d" % k)
    back_files = []
    carried = ["log2"] + (["probes"] if has_probes else [])
    for sid, rows in samples:
        fn = os.path.join(imp, sid + ".cns")
        back = ctx.call(cnvlib.read, fn)
        if not compare_back(ctx, "seg", back, rows, carried, {**sub, "sample": sid, "written": b1[:300]}, kind):
            return
        back_files.append(fn)
    seg2 = os.path.join(d, "again.seg")
    got = export(back_files, seg2)
    if isinstance(got, Exc):
        ctx.violation("the imported segments can be exported again", f"roundtrip/seg/re-export-raises/{got.key}", observed=got, sub=sub)
        return
    ctx.trace()
    b2 = slurp(seg2)
    if b2 != b1:
        ctx.violation("exporting the imported segments again produces identical bytes", f"roundtrip/seg/rewrite-bytes/{kind}", expected=b1[:400], observed=b2[:400], sub=sub)


def run_roundtrip(case, ctx):
    kind = case["kind"]
    rows = build(case["rows"], case.get("voff", 0), case.get("ioff", 0))
    arr = make_array(rows, kind)
    cols = KIND_COLS[kind]
    has_gene = "gene" in cols
    names = {r["chromosome"] for r in rows}
    nontrivial = len(names) > 1 or any(r["start"] == 0 or r["end"] == 300000000 for r in rows)
    ctx.state(("roundtrip", case["rows"], kind, case.get("voff", 0), case.get("ioff", 0), case.get("seg_k", 1)), nontrivial=nontrivial)
    ctx.stratum("roundtrip:kind=" + kind)
    ctx.stratum("roundtrip:rows=%d" % len(rows))
    if any(r["start"] == 0 for r in rows):
        ctx.stratum("roundtrip:start=0")
    if any(r["end"] == 300000000 for r in rows):
        ctx.stratum("roundtrip:end=3e8")
    if any(not F.is_canonical(n) for n in names):
        ctx.stratum("roundtrip:non-canonical-contig")
    fl = [c for c in cols if c in FLOAT_COLS]
    if any(all(float(r[c]).is_integer() for r in rows) for c in fl):
        ctx.stratum("roundtrip:integer-valued-float-column")
    if any(r[c] == 2.5e-310 for r in rows for c in fl):
        ctx.stratum("roundtrip:subnormal-float")
    sub = {"kind": kind}
    extra = [c for c in cols[3:]]
    if kind.startswith("ga"):
        round_trip(ctx, arr, rows, kind, "tab", rd("tab"), "tabio.read(tab)", extra, sub)
        round_trip(ctx, arr, rows, kind, "bed", rd("bed4" if has_gene else "bed3"), "bed4" if has_gene else "bed3", ["gene"] if has_gene else [], sub)
    else:
        round_trip(ctx, arr, rows, kind, "tab", cnvlib.read, "cnvlib.read", extra, sub)
    round_trip(ctx, arr, rows, kind, "bed3", rd("bed3"), "bed3", [], sub)
    round_trip(ctx, arr, rows, kind, "bed4", rd("bed4"), "bed4", ["gene"] if has_gene else [], sub)
    round_trip(ctx, arr, rows, kind, "interval", rd("interval"), "interval", ["gene"] if has_gene else [], sub)
    round_trip(ctx, arr, rows, kind, "text", rd("text"), "text", [], sub)
    if not kind.startswith("ga"):
        seg_round_trip(ctx, case, kind, case.get("seg_k", 1), sub)
    ctx.sample("roundtrip:" + kind, {"rows": case["rows"], "kind": kind, "tab": slurp(os.path.join(tmpdir(), "w1." + (kind if kind.startswith("cn") else "tsv")))[:300]})


# ------------------------------------------------------------------------------------------------
# chains (E2)

CHAIN_FMTS = ["tab", "bed3", "bed4", "interval", "text"]
_SEEN = set()


def run_chain(case, ctx):
    rows = build(case["rows"])
    root = make_array(rows, "ga4")
    frontier = [(root, 0, [], True)]
    while frontier:
        nxt = []
        for arr, depth, hist, named in frontier:
            key = repr((frozen(arr), named, case["depth"] - depth))
            if key in _SEEN:
                ctx.stratum("chain:state-revisited")
                continue
            _SEEN.add(key)
            ctx.state(("chain", key), nontrivial=bool(hist))
            if depth >= case["depth"]:
                continue
            for fmt in CHAIN_FMTS:
                p = os.path.join(tmpdir(), "c." + fmt)
                sub = {"history": hist, "write": fmt, "read": fmt}
                got = ctx.call(tabio.write, arr, p, fmt)
                if isinstance(got, Exc):
                    ctx.violation("a table can be written", f"roundtrip/{fmt}/write-raises/{got.key}", observed=got, sub=sub)
                    continue
                back = ctx.call(tabio.read, p, fmt)
                carries = named and fmt in CARRIES_GENE and "gene" in arr.data.columns
                ctx.stratum("chain:step-" + fmt)
                if compare_back(ctx, fmt, back, rows, ["gene"] if carries else [], {**sub, "written": slurp(p)[:300]}, "ga4"):
                    nxt.append((back, depth + 1, hist + [fmt], carries))
        frontier = nxt
    ctx.sample("chain", {"root": case["rows"], "depth": case["depth"]})


MANIFEST = {
    "text": "Bounded-exhaustive exploration of the real table readers and writers. Reader side: every region table of the bound "
    "(1..3 rows quick / 1..4 thorough; 16 chromosome names with and without chr prefix incl. alt/random/Un contigs; boundary "
    "coordinates 0..3e8; labels with commas, dots, dashes; duplicate rows; every input order) is rendered by an independent "
    "model writer in BED3/4/6, interval list, chr:start-end text, GFF3, GTF, SEG (1..4 samples), Picard per-target, CNVkit tab "
    "and VCF, read by tabio.read / cnvlib.read and by read_auto, and compared with the abstract 0-based half-open table, its "
    "natural sort order and the carried columns. Writer side: every sorted table is written by tabio.write (tab for "
    ".cnn/.cnr/.cns and plain tables, bed3, bed4, bed, interval, text) and through export seg + import-seg, read back, "
    "compared row for row, written again and the bytes compared; plus breadth-first search over chains of write->read "
    "through different formats. Exhaustive inside the bound; nothing sampled.",
    "note": "Trusted: pandas/numpy, pysam, Python's own string formatting, the model writers/parsers (cross-checked against each "
    "other in selftest/formats.py). Not covered: tables beyond the bound, the VCF end without INFO END, BED5, gzip input, "
    "genePred/refFlat/dict formats, SEG chromosome renaming options, names with a dot under auto-detection.",
    "technique": "exhaustive enumeration of (table, input order, format) on the real readers/writers against independent format models; BFS over write/read chains",
}

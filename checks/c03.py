"""C03 - segments tile each chromosome and account for every surviving bin.

E1 (a) "words": every word over the bin-kind alphabet {o ordinary, l null coverage, z zero weight, w weight 0.3}
        on one chromosome x chromosome layouts x gene patterns x 5 methods x skip_low x min_weight;
   (b) "arms": chromosomes of 120 / 400 bins with and without a 1 Mb gap, <= 2 filtered bins among seven named
        positions, profiles, outlier factors, 1..6 chromosomes incl. X / Y;
E3 (c) "schedules": the per-arm fan-out of none / haar under the virtual executor, every schedule; "pools": real
        pools of 2 / 3 / 16 processes.
Every result (also every schedule's) is judged by models/segments.py; pooled results must also equal the serial one.
"""
import itertools
import math
import re

from checks.common import np, pd
from mc import tlcpool, vpool
from mc.engine import Exc, digest
from models import segments as M

from cnvlib import segmentation, smoothing  # noqa: E402
from cnvlib.cnary import CopyNumArray as CNA  # noqa: E402
from cnvlib.segmentation import hmm as _hmm  # noqa: F401,E402

ID = "C03"
BUDGET = {"quick": 900, "thorough": 5400}
CASE_TIMEOUT = 900

METHODS = ("none", "haar", "hmm", "hmm-tumor", "hmm-germline")
POOLED = ("none", "haar")
COLS = ["chromosome", "start", "end", "gene", "log2", "depth", "weight"]
KINDS = "olzw"
NEEDED = ("chromosome", "start", "end", "gene", "log2", "probes", "weight", "depth")

# ---------------------------------------------------------------------------------------------
# (a) words

# layout = (chromosomes before the word, chromosomes after it); the word sits on chr1 unless something is before it
LAYOUTS = {
    "next-oo": ([], [("chr2", "oo")]),  # default
    "alone": ([], []),
    "word-last": ([("chr1", "oo")], []),
    "next-olo": ([], [("chr2", "olo")]),
    "next-one-bin-X": ([], [("chrX", "o")]),
    "next-all-null": ([], [("chr2", "ll")]),
    "prev-all-null": ([("chr1", "ll")], []),
    "middle-of-four": ([("chr1", "oo")], [("chrX", "olo"), ("chrY", "o")]),
}
GENES = ("plain", "dup", "anti", "ignored")
LOG2_PATTERN = (0.0, 0.4, -0.3)
WEIGHT_PATTERN = (0.9, 0.5, 0.8)  # 0.5 = the non-default min_weight: a bin exactly at the cut-off survives


def gene_name(pattern, ci, i):
    if pattern == "plain":
        return "-"
    if pattern == "dup":  # A A B A B B: consecutive and non-consecutive repeats
        return f"c{ci}" + "AABABB"[i % 6]
    if pattern == "anti":  # G0 Antitarget G0 Antitarget G1 ...
        return f"c{ci}G{i // 4}" if i % 2 == 0 else "Antitarget"
    if pattern == "ignored":
        return ("CGH", f"c{ci}X", ".", "Background", f"c{ci}X", "-")[i % 6]
    raise ValueError(pattern)


def word_rows(chrom, ci, word, genes):
    rows = []
    for i, k in enumerate(word):
        start = 10000 + 2000 * i
        end = start + 1000 + 100 * (i % 3)
        log2 = LOG2_PATTERN[(i + ci) % 3]
        depth = 40.0 + 7 * i + 3 * ci
        weight = WEIGHT_PATTERN[(i + 2 * ci) % 3]
        if k == "l":
            log2, depth = -25.0, 0.0
        elif k == "z":
            weight = 0.0
        elif k == "w":
            weight = 0.3
        elif k != "o":
            raise ValueError(k)
        rows.append((chrom, start, end, gene_name(genes, ci, i), log2, depth, weight))
    return rows


def words_table(word, layout, genes):
    before, after = LAYOUTS[layout]
    chroms = list(before) + [("chr2" if before else "chr1", word)] + list(after)
    rows = []
    for ci, (chrom, w) in enumerate(chroms):
        rows += word_rows(chrom, ci, w, genes)
    return rows


FULL_CONFIG_LENGTH = 3


def word_configs(rows=None, full=True):
    """skip_low x min_weight (outlier filter at its default).  full: the whole product plus two runs with the outlier filter
    off.  Otherwise a configuration is run only if no simpler one leaves the same bins on this table: the filters reach the
    segmenters only through the surviving rows, and every (word, configuration) pair of the full product is run on the default
    variant of every word of length <= FULL_CONFIG_LENGTH."""
    cfgs = [{"skip_low": sl, "min_weight": mw, "skip_outliers": 10} for sl in (False, True) for mw in (0, 0.5)]
    if full:
        return cfgs + [{"skip_low": False, "min_weight": 0, "skip_outliers": 0}, {"skip_low": True, "min_weight": 0.5, "skip_outliers": 0}]
    out, seen = [], set()
    for cfg in cfgs:
        keep, _ = survivors(rows, "hmm", cfg)
        if tuple(keep) not in seen:
            seen.add(tuple(keep))
            out.append(cfg)
    return out


def words(n):
    return ["".join(w) for w in itertools.product(KINDS, repeat=n)]


# ---------------------------------------------------------------------------------------------
# (b) arms

POSITIONS = ("first", "second", "last", "last-but-one", "gap-left", "gap-right", "interior")
GAP_AT = {120: 60, 400: 170}
CONTEXTS = {
    "with-chr2": (["P", ("chr2", 60, "flat")], 0),
    "alone": (["P"], 0),
    "primary-last": ([("chr1", 60, "flat"), "P"], 1),
    "three-with-X": (["P", ("chr2", 60, "flat"), ("chrX", 60, "loss")], 0),
    "five": ([("chr1", 60, "flat"), "P", ("chr3", 120, "gap"), ("chrX", 60, "loss"), ("chrY", 30, "loss")], 1),
    "six-Y-null": (["P", ("chr2", 60, "flat"), ("chr3", 120, "gap"), ("chr4", 60, "edges-z"), ("chrX", 60, "loss"), ("chrY", 30, "null")], 0),
}


def noise(i, k=0):
    """Deterministic, RNG-free wiggle in [-1, 1]."""
    return math.sin(12.9898 * (i + 1) + 78.233 * (k + 1)) * 0.5 + math.sin(4.1 * i + k) * 0.5


def position_index(name, n, gap_at):
    return {"first": 0, "second": 1, "last": n - 1, "last-but-one": n - 2, "gap-left": gap_at - 1, "gap-right": gap_at, "interior": n // 2 + 17}[name]


def big_rows(chrom, ci, n, gap, profile, drops=(), kind="z", spike=None):
    """n bins 5 kb apart; `gap` puts 1 Mb before bin GAP_AT[n]; drops = named positions turned into `kind`."""
    gap_at = GAP_AT.get(n, n // 2)
    dropped = {position_index(p, n, gap_at) for p in drops}
    rows, pos = [], 100000
    for i in range(n):
        if gap and i == gap_at:
            pos += 1000000
        if gap == "two" and i == (gap_at + n) // 2:
            pos += 500000  # a second, smaller hole inside the q arm (haar splits an arm again where it finds one)
        start, end = pos, pos + 1000 + 100 * (i % 3)
        pos += 5000
        level = 0.0
        if profile == "step" and i >= n // 3:
            level = -1.0
        if profile == "loss":
            level = -1.0
        log2 = round(level + 0.05 * noise(i, ci), 6)
        if profile == "spike" and i == (n // 4 if spike is None else spike):
            log2 = 8.0
        depth = round(100 * 2**log2, 4)
        weight = round(0.6 + 0.3 * abs(noise(i, ci + 3)), 4)
        if profile == "null":
            log2, depth = -25.0, 0.0
        if profile == "edges-z" and i in (0, n - 1):
            weight = 0.0
        if i in dropped:
            if kind == "l":
                log2, depth = -25.0, 0.0
            elif kind == "z":
                weight = 0.0
            elif kind == "w":
                weight = 0.3
        gene = "Antitarget" if i % 4 == 3 else ("-" if i % 11 == 5 else f"c{ci}G{i // 8}")
        rows.append((chrom, start, end, gene, log2, depth, weight))
    return rows


def arms_table(spec):
    chroms, _ = CONTEXTS[spec["context"]]
    rows = []
    for ci, c in enumerate(chroms):
        if c == "P":
            name = "chr%d" % (ci + 1)
            rows += big_rows(name, ci, spec["n"], spec["gap"], spec["profile"], spec["drops"], spec["kind"], spec.get("spike"))
        else:
            name, n, prof = c
            rows += big_rows(name, ci, n, prof == "gap", "flat" if prof == "gap" else prof)
    return rows


def arms_config(spec):
    return {"skip_low": spec["kind"] == "l", "min_weight": 0.5 if spec["kind"] == "w" else 0, "skip_outliers": spec["outlier"]}


def drop_sets(k):
    out = [()]
    for r in range(1, k + 1):
        out += list(itertools.combinations(POSITIONS, r))
    return [list(d) for d in out]


EDGE_DROPS = [[], ["first"], ["last"], ["first", "last"], ["gap-left", "gap-right"]]


def arms_spec(n=120, gap=True, profile="flat", drops=(), kind="z", outlier=10, context="with-chr2", spike=None):
    s = {"n": n, "gap": gap, "profile": profile, "drops": list(drops), "kind": kind, "outlier": outlier, "context": context}
    if spike is not None:
        s["spike"] = spike
    return s


# ---------------------------------------------------------------------------------------------
def describe(tier):
    t = tier == "thorough"
    return {
        "rule": "E1 words: every word over {o,l,z,w} up to the stated length on one chromosome, embedded in each chromosome layout and "
        "gene pattern (deviation bound: layout and gene pattern deviate one at a time from the default), x 5 methods x skip_low x "
        "min_weight {0, 0.5}: the full product (+ 2 runs with the outlier filter off) for the default variant of every word of length <= 3; "
        "elsewhere only the configurations that leave distinct survivor sets on that table. E1 arms: (n, gap) x <=2 filtered positions x filter kind x "
        "5 methods, and profile x outlier factor, chromosome context as deviations. E3: every schedule of the virtual executor for the "
        "per-arm fan-out of none/haar (2, 3" + (", 4" if t else "") + " arm tasks; 1 and 2 workers), real pools of 2/3/16. Every result is "
        "judged clause by clause by models/segments.py. state = (table, method, options[, schedule]); non-trivial = at least one bin "
        "is filtered out or the schedule deviates from the default order",
        "bound": {
            "words": ("length <= 6 default variant, <= 5 with one deviation (8 layouts, 4 gene patterns), <= 3 full layout x gene product" if t else "length <= 4 default variant, <= 3 with one deviation (8 layouts, 4 gene patterns)"),
            "arms": "n in {120, 400} x gap {no, 1 Mb} x every <=2-subset of 7 named positions x kind "
            + ("{l, z, w} x profile {flat, step, spike} x outlier {10, 0, 3, 1}" if t else "{l, z}, flat, outlier 10; (step, outlier 10 / off), (spike, outlier 10 / 3 / 1) and 6 chromosome contexts on 5 edge patterns"),
            "schedules": "2 and 3 arm tasks x workers {1, 2}" + (", 4 arm tasks x 1 worker" if t else "") + ", all choice sequences",
            "pools": "processes 2, 3, 16 (and processes=16 passed to the HMM methods); tables of 17, 21, 24, 27" + (", 31, 40" if t else "") + " short chromosomes (as many arm tasks) with processes 2, 3, 4, 5, 16",
            "lineage": "400-bin two-chromosome table x gap {no, 1 Mb} x first method {none, haar, hmm} x derivation {same object, copy, 200 kb hole opened by a mask, p arm only, q arm only, drop_low_coverage} x 5 methods for the second call",
        },
        "alphabet": {"kinds": KINDS, "layouts": list(LAYOUTS), "genes": list(GENES), "positions": list(POSITIONS), "contexts": list(CONTEXTS), "methods": list(METHODS)},
        "assumptions": [
            "cbs/flasso need R and are outside",
            "the outlier filter cannot drop a bin from a group of <= 50 bins (model); above that the mask is taken from the implementation's "
            "smoothing.rolling_outlier_quantile on the same log2 values (DESIGN 4 rule 6; C19 covers the smoothers)",
            "filters act on the unit segmented together: a chromosome arm for none/haar, the whole table for the HMM methods",
            "bins are sorted, non-overlapping, carry gene/depth/weight columns; gene names contain no comma",
            "virtual executor contract as documented in mc/vpool.py",
            "weight/depth/gene are judged only when containment and overlap agree about which bins a segment spans",
        ],
    }


def cases(tier):
    t = tier == "thorough"
    max_default, max_dev, max_full = (6, 5, 3) if t else (4, 3, 0)
    for n in range(1, max_default + 1):
        for w in words(n):
            yield {"check": "words", "word": w, "layout": "next-oo", "genes": "plain"}
            if n <= max_dev:
                for layout in LAYOUTS:
                    if layout != "next-oo":
                        yield {"check": "words", "word": w, "layout": layout, "genes": "plain"}
                for g in GENES:
                    if g != "plain":
                        yield {"check": "words", "word": w, "layout": "next-oo", "genes": g}
            if n <= max_full:
                for layout in LAYOUTS:
                    for g in GENES:
                        if layout != "next-oo" and g != "plain":
                            yield {"check": "words", "word": w, "layout": layout, "genes": g}
    # arms
    kinds = ("l", "z", "w") if t else ("l", "z")
    for n, gap in ((120, False), (120, True), (400, False), (400, True)):
        for drops in drop_sets(2):
            for kind in kinds:
                if t:
                    for profile in ("flat", "step", "spike"):
                        for outlier in (10, 0, 3, 1):
                            yield {"check": "arms", **arms_spec(n, gap, profile, drops, kind, outlier)}
                else:
                    yield {"check": "arms", **arms_spec(n, gap, "flat", drops, kind, 10)}
    if not t:
        for n, gap in ((120, False), (120, True), (400, False), (400, True)):
            for profile, outlier in (("step", 10), ("step", 0), ("spike", 10), ("spike", 3), ("spike", 1)):
                for drops in EDGE_DROPS:
                    yield {"check": "arms", **arms_spec(n, gap, profile, drops, "l", outlier)}
    for n, gap in ((120, True), (400, True)):
        for spike in (0, n - 1, GAP_AT[n]):
            for outlier in (3, 1):
                yield {"check": "arms", **arms_spec(n, gap, "spike", [], "z", outlier, spike=spike)}
    for context in CONTEXTS:
        if context == "with-chr2":
            continue
        for drops in EDGE_DROPS:
            for kind in ("l", "z"):
                for n in (120, 400) if t else (120,):
                    yield {"check": "arms", **arms_spec(n, True, "flat", drops, kind, 10, context)}
    # a chromosome with two large holes: the arm split takes the larger one, haar finds the other inside the q arm
    for profile in ("flat", "step"):
        for drops in ([], ["first"], ["last"], ["gap-right"]):
            yield {"check": "arms", **arms_spec(400, "two", profile, drops, "z", 10)}
    # lineages: a table object is segmented, an object derived from it (or the object itself) is segmented again
    for gap in (False, True):
        for first in LINEAGE_FIRST:
            for derive in LINEAGE_DERIVATIONS:
                yield {"check": "lineage", "table": arms_spec(400, gap, "step", ["first", "interior"], "l", 10), "first": first, "derive": derive}
    # real pools
    for spec in pool_tables(t):
        yield {"check": "pools", "table": spec}
    # schedules
    for spec, tasks in schedule_tables(t):
        # (workers, number of parts the schedule tree is split into): 11 / 22 schedules for 2 tasks, 100 / 400 for 3
        plan = {2: ((1, 1), (2, 1)), 3: ((1, 1), (2, 4)), 4: ((1, 8),)}[tasks]
        for method in POOLED:
            for workers, parts in plan:
                if tasks == 3 and workers == 2 and not t and not spec.get("full"):
                    continue
                for j in range(parts):
                    yield {"check": "schedules", "table": {k: v for k, v in spec.items() if k != "full"}, "tasks": tasks, "method": method, "workers": workers, "part": [j, parts]}


def pool_tables(t):
    out = [
        {"type": "words", "word": "zoz", "layout": "middle-of-four", "genes": "dup", "skip_low": True},
        {"type": "words", "word": "lol", "layout": "next-all-null", "genes": "anti", "skip_low": True},
        {"type": "arms", **arms_spec(120, True, "step", ["first", "last"], "z")},
        {"type": "arms", **arms_spec(120, True, "flat", ["gap-left", "gap-right"], "l", context="five")},
        {"type": "arms", **arms_spec(400, True, "spike", ["first"], "l", 3, context="six-Y-null")},
    ]
    # many short chromosomes = many arm tasks (batching of tasks over the workers must not lose or reorder any)
    out += [{"type": "many", "chromosomes": k} for k in ((17, 21, 24, 27, 31, 40) if t else (17, 21, 24, 27))]
    if t:
        out += [
            {"type": "arms", **arms_spec(400, True, "step", ["last"], "w", context="three-with-X")},
            {"type": "arms", **arms_spec(120, False, "flat", ["first", "second"], "z", context="primary-last")},
            {"type": "words", "word": "wzolo", "layout": "word-last", "genes": "dup", "skip_low": True},
        ]
    return out


def schedule_tables(t):
    out = [
        ({"type": "arms", **arms_spec(120, True, "flat", ["first", "last"], "z", context="alone")}, 2),
        ({"type": "arms", **arms_spec(120, True, "step", ["gap-left", "gap-right"], "l", context="alone")}, 2),
        ({"type": "words", "word": "zoz", "layout": "next-olo", "genes": "dup", "skip_low": True}, 2),
        ({"type": "arms", **arms_spec(120, True, "flat", ["first", "last"], "z"), "full": True}, 3),
        ({"type": "arms", **arms_spec(120, True, "step", ["gap-left", "gap-right"], "l")}, 3),
        ({"type": "words", "word": "lo", "layout": "middle-of-four", "genes": "anti", "skip_low": True}, 4 if t else None),
        ({"type": "arms", **arms_spec(120, True, "flat", [], "z", context="primary-last")}, 3),
    ]
    if t:
        out += [
            ({"type": "arms", **arms_spec(120, True, "spike", ["first"], "l", 3, context="three-with-X")}, 4),
            ({"type": "arms", **arms_spec(400, True, "flat", ["last", "gap-right"], "z")}, 3),
        ]
    return [(s, k) for s, k in out if k]


def table_of(spec):
    """(rows, options) for a pool / schedule table spec."""
    if spec["type"] == "words":
        return words_table(spec["word"], spec["layout"], spec["genes"]), {"skip_low": spec.get("skip_low", False), "min_weight": 0, "skip_outliers": 10}
    if spec["type"] == "many":
        names = ["chr%d" % (i + 1) for i in range(22)] + ["chrX", "chrY"] + ["chrUn_%d" % i for i in range(1, 40)]
        rows = []
        for ci, name in enumerate(names[: spec["chromosomes"]]):
            rows += big_rows(name, ci, 3 + ci % 2, False, "flat")
        return rows, {"skip_low": False, "min_weight": 0, "skip_outliers": 10}
    return arms_table(spec), arms_config(spec)


# ---------------------------------------------------------------------------------------------
def run(case, ctx):
    k = case["check"]
    if k == "words":
        run_words(case, ctx)
    elif k == "arms":
        run_arms(case, ctx)
    elif k == "lineage":
        run_lineage(case, ctx)
    elif k == "pools":
        run_pools(case, ctx)
    elif k == "schedules":
        run_schedules(case, ctx)
    else:
        raise ValueError(k)


def make_cna(rows):
    return CNA.from_rows(rows, COLS, {"sample_id": "S"})


def _py(x):
    return x.item() if isinstance(x, np.generic) else x


def segments_of(res):
    """Reported segments as plain dicts, or a string naming what is missing."""
    data = getattr(res, "data", None)
    if not isinstance(data, pd.DataFrame):
        return f"result is {type(res).__name__}, not a table"
    missing = [c for c in NEEDED if c not in data.columns]
    if len(data) == 0:
        return []
    if missing:
        return "columns missing: " + ",".join(missing)
    cols = [data[c].tolist() for c in NEEDED]
    return [dict(zip(NEEDED, (_py(v) for v in vals))) for vals in zip(*cols)]


def outlier_mask(log2s, factor):
    return np.asarray(smoothing.rolling_outlier_quantile(pd.Series(log2s), M.OUTLIER_WIDTH, 0.95, factor), dtype=bool).tolist()


def survivors(rows, method, cfg):
    units = M.arm_units(rows) if method in M.ARM_METHODS else M.whole_table_unit(rows)
    return M.survivor_mask(rows, units, cfg["skip_low"], cfg["min_weight"], cfg["skip_outliers"], outlier_mask)


def table_feature(rows, keep):
    groups = M.chrom_groups(rows)
    alive = [any(keep[i] for i in idx) for _c, idx in groups]
    if not any(alive):
        return "no-surviving-bin-at-all"
    if not alive[0]:
        return "first-chromosome-has-no-surviving-bin"
    if not alive[-1]:
        return "last-chromosome-has-no-surviving-bin"
    if not all(alive):
        return "inner-chromosome-has-no-surviving-bin"
    return "every-chromosome-has-a-surviving-bin"


AUTOSOME = re.compile(r"(chr)?\d+$")


def exception_feature(rows, keep, method):
    """Input feature for an exception key.  The HMM methods fit their model to the surviving autosomal bins (all bins when no
    chromosome has an autosome-like name); one such bin has no spread to estimate."""
    if method.startswith("hmm"):
        alive = [r for r, k in zip(rows, keep) if k]
        auto = [r for r in alive if AUTOSOME.match(r[M.CHROM])]
        if len(auto or alive) == 1:
            return "one-surviving-bin-to-fit"
    return table_feature(rows, keep)


def strata_for(ctx, rows, keep, method, cfg, segs, asked):
    groups = M.chrom_groups(rows)
    ctx.stratum(f"method-{method}")
    feats = set()
    for _c, idx in groups:
        if not keep[idx[0]]:
            feats.add("input:first-bin-of-a-chromosome-filtered")
        if not keep[idx[-1]]:
            feats.add("input:last-bin-of-a-chromosome-filtered")
        if any(not keep[i] for i in idx[1:-1]):
            feats.add("input:interior-bin-filtered")
        if not any(keep[i] for i in idx):
            feats.add("input:chromosome-without-survivor")
        if len(idx) == 1:
            feats.add("input:one-bin-chromosome")
    feats.add("table:" + table_feature(rows, keep))
    if method in M.ARM_METHODS:
        arms = M.arm_units(rows)
        if len(arms) > len(groups):
            feats.add("input:chromosome-split-into-arms")
            for (c1, a), (c2, b) in zip(arms, arms[1:]):
                if c1 == c2 and (not keep[a[-1]] or not keep[b[0]]):
                    feats.add("input:bin-next-to-the-arm-gap-filtered")
    if asked:
        feats.add("oracle:outlier-mask-taken-from-implementation")
        low = {i for i, r in enumerate(rows) if cfg["skip_low"] and M.is_low(r)}
        wbad = {i for i, r in enumerate(rows) if (r[M.WEIGHT] < cfg["min_weight"] if cfg["min_weight"] else r[M.WEIGHT] == 0)}
        if any(not keep[i] and i not in low and i not in wbad for i in range(len(rows))):
            feats.add("input:bin-dropped-by-outlier-filter")
    if any(r[M.GENE] in M.IGNORED_NAMES[1:] for r in rows):
        feats.add("input:ignored-gene-names")
    if isinstance(segs, list):
        per = {}
        for s in segs:
            per[s["chromosome"]] = per.get(s["chromosome"], 0) + 1
        if any(v > 1 for v in per.values()):
            feats.add("output:several-segments-on-a-chromosome")
        if not segs:
            feats.add("output:no-segment")
    for f in feats:
        ctx.stratum(f)


def judge(ctx, rows, method, cfg, res, extra_sub=None):
    """Compare one result with the model.  Returns the canonical segment list (or None)."""
    sub = {"method": method, **cfg}
    if extra_sub:
        sub.update(extra_sub)
    keep, asked = survivors(rows, method, cfg)
    tfeat = table_feature(rows, keep)
    if isinstance(res, Exc):
        ctx.stratum("exception")
        strata_for(ctx, rows, keep, method, cfg, None, asked)
        ctx.violation(
            "segmentation returns the segments of an in-scope bin table",
            f"{method}/raises/{res.key}/{exception_feature(rows, keep, method)}",
            expected="a segment table",
            observed=res,
            sub=sub,
        )
        return None
    segs = segments_of(res)
    ctx.trace()
    if isinstance(segs, str):
        ctx.violation("segments carry chromosome, start, end, gene, log2, probes, weight, depth", f"{method}/shape/{tfeat}", observed=segs, sub=sub)
        return None
    strata_for(ctx, rows, keep, method, cfg, segs, asked)
    canon = [[s["chromosome"], s["start"], s["end"], s["gene"], round(float(s["log2"]), 9), float(s["probes"]), round(float(s["weight"]), 9), round(float(s["depth"]), 9)] for s in segs]
    ctx.outcome(digest([method, canon]))
    for p in M.check(rows, keep, segs, method):
        ctx.violation(
            p["clause"],
            f"{method}/{p['cid']}/{p['feature']}",
            expected=p["expected"],
            observed=p["observed"],
            sub={**sub, **p["where"]},
            detail={"segments": canon[:12], "survivors": sum(keep), "bins": len(rows), "table": tfeat},
        )
    return canon


def segment(ctx, rows, method, cfg, processes=1):
    cna = make_cna(rows)
    return ctx.call(segmentation.do_segmentation, cna, method, skip_low=cfg["skip_low"], skip_outliers=cfg["skip_outliers"], min_weight=cfg["min_weight"], processes=processes)


def run_words(case, ctx):
    rows = words_table(case["word"], case["layout"], case["genes"])
    full = case["layout"] == "next-oo" and case["genes"] == "plain" and len(case["word"]) <= FULL_CONFIG_LENGTH
    tdig = digest(rows)
    ctx.stratum("configs-full-product" if full else "configs-distinct-survivor-sets")
    for cfg in word_configs(rows, full):
        for method in METHODS:
            keep, _ = survivors(rows, method, cfg)
            ctx.state(("words", tdig, method, cfg["skip_low"], cfg["min_weight"], cfg["skip_outliers"]), nontrivial=not all(keep))
            res = segment(ctx, rows, method, cfg)
            canon = judge(ctx, rows, method, cfg, res)
            if canon is not None and not all(keep):
                ctx.sample("words", {"case": case, "method": method, "options": cfg, "bins": [list(r) for r in rows], "segments": canon})
    ctx.stratum(f"words-length-{len(case['word'])}")
    ctx.stratum(f"layout-{case['layout']}")
    ctx.stratum(f"genes-{case['genes']}")


def run_arms(case, ctx):
    rows = arms_table(case)
    cfg = arms_config(case)
    tdig = digest(rows)
    for method in METHODS:
        keep, _ = survivors(rows, method, cfg)
        ctx.state(("arms", tdig, method, cfg["skip_low"], cfg["min_weight"], cfg["skip_outliers"]), nontrivial=not all(keep))
        res = segment(ctx, rows, method, cfg)
        canon = judge(ctx, rows, method, cfg, res)
        if canon is not None and case["drops"]:
            ctx.sample("arms", {"case": case, "method": method, "options": cfg, "n_bins": len(rows), "segments": canon[:8]})
    ctx.stratum(f"arms-n{case['n']}-{'gap' if case['gap'] else 'nogap'}")
    ctx.stratum(f"context-{case['context']}")
    ctx.stratum(f"profile-{case['profile']}-outlier{case['outlier']}")


LINEAGE_FIRST = ("none", "haar", "hmm")
LINEAGE_DERIVATIONS = ("same-object", "copy", "hole", "p-arm", "q-arm", "drop_low_coverage")


def run_lineage(case, ctx):
    """Segment a table object with one method, then segment the object itself or an object derived from it (copy; a mask that opens
    a 200 kb hole inside an arm, keeps only the p arm or only the q arm of the two-arm chromosome; drop_low_coverage) with every
    method: the second answer is judged by the same clauses on the derived table's own bins."""
    rows = arms_table(case["table"])
    cfg = arms_config(case["table"])
    cna = make_cna(rows)
    first = ctx.call(segmentation.do_segmentation, cna, case["first"], skip_low=cfg["skip_low"], skip_outliers=cfg["skip_outliers"], min_weight=cfg["min_weight"])
    judge(ctx, rows, case["first"], cfg, first, {"lineage": "first call"})
    n, gap_at = case["table"]["n"], GAP_AT[case["table"]["n"]]
    pos = {}  # row number within the primary chromosome
    k = 0
    for i, r in enumerate(rows):
        if r[0] == rows[0][0]:
            pos[i] = k
            k += 1
    d = case["derive"]
    if d in ("same-object", "copy"):
        keep = [True] * len(rows)
    elif d == "hole":
        keep = [not (i in pos and 230 <= pos[i] < 270) for i in range(len(rows))]
    elif d == "p-arm":
        keep = [not (i in pos and pos[i] >= gap_at) for i in range(len(rows))]
    elif d == "q-arm":
        keep = [not (i in pos and pos[i] < gap_at) for i in range(len(rows))]
    else:
        keep = [not (r[4] < -15 or r[5] == 0) for r in rows]
    if d == "same-object":
        derived = cna
    elif d == "copy":
        derived = cna.copy()
    elif d == "drop_low_coverage":
        derived = cna.drop_low_coverage()
    else:
        derived = cna[np.asarray(keep)]
    drows = [r for r, kp in zip(rows, keep) if kp]
    if len(derived) != len(drows):
        raise AssertionError("harness: derived table has %d rows, expected %d" % (len(derived), len(drows)))
    for method in METHODS:
        obj = derived if d == "same-object" else derived.copy()  # each second call sees the lineage of the first call only
        res = ctx.call(segmentation.do_segmentation, obj, method, skip_low=cfg["skip_low"], skip_outliers=cfg["skip_outliers"], min_weight=cfg["min_weight"])
        judge(ctx, drows, method, cfg, res, {"lineage": f"after {case['first']} on the parent object, derived by {d}"})
        ctx.state(("lineage", case["table"]["gap"], case["first"], d, method), nontrivial=d != "copy")
    ctx.stratum(f"lineage-{d}")
    ctx.sample("lineage", {k: v for k, v in case.items() if k != "check"})


def run_pools(case, ctx):
    rows, cfg = table_of(case["table"])
    tdig = digest(rows)
    for method in METHODS:
        serial = judge(ctx, rows, method, cfg, segment(ctx, rows, method, cfg))
        many = case["table"]["type"] == "many"
        if many and method not in POOLED:
            continue
        for procs in ((2, 3, 4, 5, 16) if many else (2, 3, 16)) if method in POOLED else (16,):
            ctx.state(("pools", tdig, method, procs), nontrivial=True)
            res = segment(ctx, rows, method, cfg, processes=procs)
            canon = judge(ctx, rows, method, cfg, res, {"processes": procs})
            ctx.stratum(f"real-pool-p{procs}" if method in POOLED else "hmm-processes-16")
            if serial is not None and canon is not None and canon != serial:
                ctx.violation(
                    "the segments are the same for any number of processes",
                    f"{method}/real-pool/differs-from-serial",
                    expected=serial[:12],
                    observed=canon[:12],
                    sub={"method": method, **cfg, "processes": procs},
                )
    ctx.sample("pools", {"table": case["table"], "bins": len(rows)})


def run_schedules(case, ctx):
    rows, cfg = table_of(case["table"])
    method, workers = case["method"], case["workers"]
    n_arms = len(M.arm_units(rows))
    if n_arms != case["tasks"]:
        raise RuntimeError(f"harness: table has {n_arms} arm tasks, case says {case['tasks']}")
    serial = judge(ctx, rows, method, cfg, segment(ctx, rows, method, cfg))
    tdig = digest(rows)
    n = 0
    labels = []
    explored = set()

    def once(prefix):
        s = vpool.Scheduler(prefix)
        with vpool.patched_pool(s, workers=workers):
            res = segment(ctx, rows, method, cfg, processes=4)
        if isinstance(res, Exc) and isinstance(res.exc, vpool.ScheduleDivergence):
            raise res.exc
        return s.trace, (res, s.pools)

    for trace, (res, pools) in vpool.explore_part(once, tuple(case["part"]), 3):
        n += 1
        labels = [t[2] for t in trace]
        explored.add(tuple(labels))
        choices = [t[1] for t in trace]
        ctx.state(("schedule", tdig, method, workers, tuple(choices)), nontrivial=any(choices))
        if pools == 0:
            ctx.stratum("virtual-pool-bypassed")
        sub = {"schedule": labels, "choices": choices, "workers": workers}
        canon = judge(ctx, rows, method, cfg, res, sub)
        if serial is not None and canon is not None and canon != serial:
            ctx.violation(
                "the segments are the same for every worker schedule as for the serial run",
                f"{method}/schedule/differs-from-serial",
                expected=serial[:12],
                observed=canon[:12],
                sub={"method": method, **cfg, **sub},
            )
    if case["part"][1] == 1:
        # the whole schedule tree was explored in this case: it must be exactly the behaviour set TLC enumerates for the
        # TLA+ model of the executor contract (models/tla/PoolMap.tla) - every model trace replayed on the implementation
        model, stats = tlcpool.schedules(case["tasks"], workers)
        if model == explored:
            ctx.stratum("tlc-behaviours-replayed-on-implementation", len(model))
            ctx.sample(f"tlc-K{case['tasks']}-W{workers}", {"tlc": stats, "explored_schedules": len(explored), "sets_equal": True})
        else:
            ctx.caps.append(
                "TLC conformance not established for %s k=%d w=%d: %d behaviours only in the model, %d schedules only explored"
                % (method, case["tasks"], workers, len(model - explored), len(explored - model))
            )
            ctx.stratum("tlc-model-mismatch")
    ctx.stratum(f"schedules-{method}-k{case['tasks']}-w{workers}", n)
    ctx.sample(f"schedules-k{case['tasks']}", {"table": case["table"], "method": method, "workers": workers, "tasks": case["tasks"], "schedules_in_part": n, "last": labels})


MANIFEST = {
    "text": "Bounded-exhaustive exploration of the real do_segmentation (none, haar, hmm, hmm-tumor, hmm-germline): every word over the "
    "bin kinds {ordinary, null coverage, zero weight, low weight} up to the stated length on one chromosome, embedded in 8 "
    "chromosome layouts (alone, first, last, next to a one-bin / fully filtered chromosome, X / Y) and 5 gene-name patterns, under "
    "every combination of skip_low and min_weight; chromosomes of 120 / 400 bins with and without a centromere-sized gap with every "
    "choice of <= 2 filtered bins among first / second / last / last-but-one / both sides of the gap / interior, step and spike "
    "profiles, outlier factors, 1-6 chromosomes. Each result is judged clause by clause by a pure-Python model (survivor set, arm "
    "split, sorted / disjoint / within span, every survivor in exactly one segment, probes, arm endpoints, weight / depth / gene "
    "over all spanned input bins, log2 over survivors); the same clauses are applied to the second segmentation in every short lineage "
    "(a table object segmented, then the object or a copy / masked subset / drop_low_coverage of it segmented again). The per-arm fan-out of none / haar is model-checked: a virtual "
    "ProcessPoolExecutor enumerates every schedule for 2-4 arm tasks and every schedule's result must satisfy the same clauses and "
    "equal the serial table; real pools of 2 / 3 / 16 conform.",
    "note": "Trusted: the model in models/segments.py (cross-examined by selftest/segments.py); for groups of more than 50 bins the outlier "
    "mask is the implementation's own rolling_outlier_quantile (the statement speaks of bins that survived filtering); the virtual "
    "executor's contract (mc/vpool.py). Not covered: cbs / flasso (need R), chromosomes beyond 400 bins, VCF-driven re-segmentation, "
    "tables without a weight or depth column, gene names containing commas.",
    "technique": "exhaustive enumeration of bin tables x option combinations on the real code against a clause-wise reference model, the same clauses on every second segmentation of a short object lineage + "
    "stateless schedule enumeration (choice-sequence DFS over a virtual process pool), cross-validated against TLC's enumeration of a TLA+ model of the executor contract",
}

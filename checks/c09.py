"""C09 - coverage reports mean per-base depth of the counted reads in every bin.

E1: synthetic coordinate-sorted, indexed BAMs (written with pysam) x BED files x mapq cut-offs x both
algorithms, against a per-base depth-array model.  E3: the pileup path's chunk fan-out and the count path's
per-chromosome fan-out under a virtual ProcessPoolExecutor for every schedule, every chunk size, plus real
pools of 2/3/16 workers; all must give the serial table.
"""
import functools
import itertools
import os
import shutil
import tempfile

import pysam

from checks.common import np, pd
from mc import tlcpool, vpool
from mc.engine import Exc, digest, innermost_repo_frame
from mc.repo import repo_root
from models import bam as M

from cnvlib import coverage, parallel  # noqa: E402

ID = "C09"
BUDGET = {"quick": 1200, "thorough": 7200}
CASE_TIMEOUT = 3600

CONTIGS = {"c1": 400, "c2": 200}
P, U, R, S, Q, D = M.FLAG_PAIRED, M.FLAG_UNMAPPED, M.FLAG_REVERSE, M.FLAG_SECONDARY, M.FLAG_QCFAIL, M.FLAG_DUP


def read(contig="c1", start=100, length=50, clip5=0, clip3=0, flag=0, mapq=60):
    return {"contig": contig, "start": start, "len": length, "clip5": clip5, "clip3": clip3, "flag": flag, "mapq": mapq}


def read_alphabet(n):
    """Deviation-ordered read alphabet: the base read, then one dimension changed at a time, simplest first."""
    out = [read()]
    for s in (0, 20, 95, 99, 149, 150, 250, 350):  # around the bin edges of RICH_BED and the contig end
        out.append(read(start=s))
    out += [read(length=30), read(length=150), read(start=250, length=150)]  # the last ends exactly at the contig end
    out += [read(clip5=5), read(clip3=7), read(clip5=5, clip3=7)]
    for fl in (D, S, U, Q, R, P, P | R, D | S, D | R, S | P, U | Q, D | S | U | Q, Q | R | P):
        out.append(read(flag=fl))
    # flag bits that are NOT in the statement's exclusion list: such reads are counted (supplementary 0x800, mate unmapped
    # 0x8, proper pair 0x2, mate reverse 0x20, first / second in pair 0x40 / 0x80)
    for fl in (0x800, 0x800 | R, P | 0x2 | 0x20 | 0x40, P | 0x8 | 0x80):
        out.append(read(flag=fl))
    for mq in (0, 1, 29, 30):
        out.append(read(mapq=mq))
    out += [read(contig="c2", start=10), read(contig="c2", start=150, flag=D), read(contig="c2", start=0, length=30, mapq=1)]
    out += [read(start=120, mapq=30, flag=R), read(start=120, mapq=29, flag=P), read(start=60, length=150, clip5=5, mapq=1)]
    return out[:n]


# BED alphabets: (chrom, start, end[, name, score, strand])
RICH_BINS = [
    ("c1", 0, 100, "a"), ("c1", 100, 150, "b"), ("c1", 150, 200, "b"),  # tiling / abutting
    ("c1", 120, 170, "c,d"), ("c1", 130, 140, "e"),  # overlapping, nested
    ("c1", 170, 170, "zero"),  # zero-width
    ("c1", 200, 400, "f"), ("c1", 380, 450, "beyond"),  # to and beyond the contig end
    ("c2", 0, 50, "g"), ("c2", 40, 200, "h"),
]


def write_bam(path, reads, contigs=CONTIGS, index=True):
    header = {"HD": {"VN": "1.6", "SO": "coordinate"}, "SQ": [{"SN": c, "LN": n} for c, n in contigs.items()]}
    names = list(contigs)
    order = sorted(range(len(reads)), key=lambda i: (names.index(reads[i]["contig"]), reads[i]["start"], i))
    with pysam.AlignmentFile(path, "wb", header=header) as out:
        for i in order:
            r = reads[i]
            a = pysam.AlignedSegment(out.header)
            qlen = r["clip5"] + r["len"] + r["clip3"]
            a.query_name = f"r{i}"
            a.flag = r["flag"]
            a.reference_id = names.index(r["contig"])
            a.reference_start = r["start"]
            a.mapping_quality = r["mapq"]
            cig = []
            if r["clip5"]:
                cig.append((4, r["clip5"]))
            cig.append((0, r["len"]))
            if r["clip3"]:
                cig.append((4, r["clip3"]))
            a.cigar = cig
            a.query_sequence = "A" * qlen
            a.query_qualities = pysam.qualitystring_to_array("I" * qlen)
            a.next_reference_id = -1
            a.next_reference_start = -1
            out.write(a)
    if index:
        pysam.index(path)


def write_bed(path, bins, ncols=4, comment=False):
    with open(path, "w") as f:
        if comment:
            f.write("# a comment line\n")
        for b in bins:
            row = [b[0], str(b[1]), str(b[2])]
            if ncols >= 4:
                row.append(b[3] if len(b) > 3 else "-")
            if ncols >= 6:
                row += ["0", "+"]
            f.write("\t".join(row) + "\n")


def table_rows(cnarr):
    d = cnarr.data
    out = []
    for r in d[["chromosome", "start", "end", "gene", "depth", "log2"]].itertuples(index=False, name=None):
        out.append((r[0], int(r[1]), int(r[2]), r[3], float(r[4]), float(r[5])))
    return out


def close(a, b):
    return abs(a - b) <= 1e-9 * max(1.0, abs(a), abs(b))


def rows_equal(got, want):
    return len(got) == len(want) and all(g[:4] == w[:4] and close(g[4], w[4]) and close(g[5], w[5]) for g, w in zip(got, want))


def sortkey(r):
    return (r[0], r[1], r[2], r[3])


def describe(tier):
    t = tier == "thorough"
    return {
        "rule": "reads: every multiset of <=k reads from a deviation-ordered read alphabet (positions around bin edges and contig "
        "ends, lengths, soft clips, every exclusion flag alone and combined, MAPQ around each cut-off) x a rich BED (tiling, "
        "abutting, overlapping, nested, zero-width, beyond-contig-end bins, 2 contigs) x mapq {0,1,30} x {pileup,count}; BED "
        "shapes x fixed BAMs incl. piles; chunk sizes x processes; E3: every schedule of the chunk / chromosome fan-out under the "
        "virtual executor. state = canonical (reads, bed, options[, schedule]); non-trivial = some bin has depth > 0 and some read "
        "is excluded, or a schedule with a non-default choice",
        "bound": {
            "reads": f"multisets of <=2 from the first 40 reads of the {len(read_alphabet(99))}-read alphabet" if not t else f"multisets of <=2 from the full {len(read_alphabet(99))}-read alphabet and <=3 from its first 18",
            "piles": "50 / 500 reads tiling c1" + (" / 5000 tiling / 9000 at one position" if t else ""),
            "schedules": "pileup: 2 and 3 chunks (incl. a partial last chunk) x workers {1,2}; count: 2 contig tasks x workers {1,2}"
            + ("; pileup 4 chunks x 1 worker" if t else ""),
            "real_pools": [2, 3, 16],
            "chunk_sizes": [1, 2, 3, 5000],
        },
        "alphabet": {"contigs": CONTIGS, "rich_bed": RICH_BINS},
        "assumptions": [
            "reads have no indels (the statement's scope for algorithm agreement); BAMs written by pysam are valid, sorted, indexed",
            "row order: pileup keeps BED file order, count sorts by coordinate; compared with the model as sorted row lists and "
            "between serial and parallel runs exactly",
            "chunk size is varied by swapping cnvlib.coverage.to_chunks for the same function with another chunk_size",
        ],
    }


def cases(tier):
    t = tier == "thorough"
    alpha = read_alphabet(99 if t else 40)
    n = len(alpha)
    # scope A: read multisets (batched by first read index)
    yield {"check": "reads", "first": None, "n": n}
    for i in range(n):
        yield {"check": "reads", "first": i, "n": n}
    if t:
        for i in range(18):
            for j in range(i, 18):
                yield {"check": "reads3", "first": [i, j], "n": 18}
    # scope B: BED shapes x fixed BAMs
    for bam in ("empty", "pair", "pile50", "pile500") + (("pile5000", "stack9000") if t else ()):
        yield {"check": "beds", "bam": bam}
    # scope C: chunk sizes x real processes
    for algo in ("pileup", "count"):
        for procs in (2, 3, 16):
            yield {"check": "pools", "algo": algo, "procs": procs}
    # scope D: schedules
    for workers, parts in ((1, 1), (2, 4)):
        for j in range(parts):
            yield {"check": "schedules", "algo": "pileup", "bins": 2, "chunk": 1, "workers": workers, "part": [j, parts]}
    for workers, parts in ((1, 2), (2, 8)):
        for j in range(parts):
            yield {"check": "schedules", "algo": "pileup", "bins": 3, "chunk": 1, "workers": workers, "part": [j, parts]}
            yield {"check": "schedules", "algo": "pileup", "bins": 5, "chunk": 2, "workers": workers, "part": [j, parts]}
    for workers, parts in ((1, 1), (2, 4)):
        for j in range(parts):
            yield {"check": "schedules", "algo": "count", "bins": 4, "chunk": 0, "workers": workers, "part": [j, parts]}
    if t:
        for j in range(16):
            yield {"check": "schedules", "algo": "pileup", "bins": 4, "chunk": 1, "workers": 1, "part": [j, 16]}
    # scope F: one path, several BAMs in turn (no index, or an index older than the file): every call sees the file that is there
    for algo in ("pileup", "count"):
        yield {"check": "rewritten", "algo": algo}
    # scope E: the executor contract as a TLA+ model; every behaviour TLC enumerates is replayed on the real code
    for algo, bins, chunk, workers in (("pileup", 2, 1, 2), ("pileup", 3, 1, 1), ("count", 4, 0, 2), ("pileup", 3, 1, 2)) + (
        (("pileup", 5, 2, 2), ("pileup", 4, 1, 1), ("pileup", 3, 1, 3)) if t else ()
    ):
        yield {"check": "tlc", "algo": algo, "bins": bins, "chunk": chunk, "workers": workers}


def run(case, ctx):
    tmp = tempfile.mkdtemp(prefix="c09-", dir="/dev/shm" if os.path.isdir("/dev/shm") else None)
    # private temp dir: chunk files (mkstemp) and pysam's capture files land here, not in the shared /tmp
    old_tmp, old_env = tempfile.tempdir, os.environ.get("TMPDIR")
    scratch = os.path.join(tmp, "tmp")
    os.mkdir(scratch)
    tempfile.tempdir = scratch
    os.environ["TMPDIR"] = scratch
    try:
        k = case["check"]
        if k == "reads":
            run_reads(case, ctx, tmp)
        elif k == "reads3":
            run_reads3(case, ctx, tmp)
        elif k == "beds":
            run_beds(case, ctx, tmp)
        elif k == "pools":
            run_pools(case, ctx, tmp)
        elif k == "schedules":
            run_schedules(case, ctx, tmp)
        elif k == "rewritten":
            run_rewritten(case, ctx, tmp)
        elif k == "tlc":
            run_schedules(dict(case, part=[0, 1]), ctx, tmp, tlc=True)
        else:
            raise ValueError(k)
    finally:
        tempfile.tempdir = old_tmp
        if old_env is None:
            os.environ.pop("TMPDIR", None)
        else:
            os.environ["TMPDIR"] = old_env
        shutil.rmtree(tmp, ignore_errors=True)


# ---------------------------------------------------------------------------------------------
def check_cov(ctx, bed, bam, reads, bins, by_count, min_mapq, sub, processes=1, contigs=CONTIGS, feature=""):
    got = ctx.call(coverage.do_coverage, bed, bam, by_count, min_mapq, processes)
    algo = "count" if by_count else "pileup"
    if isinstance(got, Exc):
        feats = []
        if any(b[2] <= b[1] for b in bins):
            feats.append("zero-width-bin")
        if not reads:
            feats.append("no-reads")
        ctx.violation(
            "coverage reports a depth and log2 for every bin of the regions file",
            f"{algo}/raises/{got.key}/{'+'.join(feats) or 'plain'}{feature}",
            observed=got,
            sub=sub,
        )
        return None
    ctx.trace()
    rows = table_rows(got)
    ctx.outcome(hash(tuple((r[:4], round(r[4], 9)) for r in rows)))
    want = M.expected_rows(contigs, reads, [(b[0], b[1], b[2], b[3] if len(b) > 3 else "-") for b in bins], min_mapq)
    if not rows_equal(sorted(rows, key=sortkey), sorted(want, key=sortkey)):
        bad = [(g, w) for g, w in zip(sorted(rows, key=sortkey), sorted(want, key=sortkey)) if not (g[:4] == w[:4] and close(g[4], w[4]) and close(g[5], w[5]))]
        kind = "rows" if len(rows) != len(want) or any(g[:4] != w[:4] for g, w in bad) else ("depth" if any(not close(g[4], w[4]) for g, w in bad) else "log2")
        ctx.violation(
            "depth = aligned bases of counted reads inside the bin / bin length, log2 = log2(depth) or -20; each row keeps its bin's coordinates and name",
            f"{algo}/{kind}-differ-from-model{feature}",
            expected=[w for _, w in bad][:4] or want[:4],
            observed=[g for g, _ in bad][:4] or rows[:4],
            sub=sub,
        )
    return rows


def run_reads_sets(ctx, tmp, sets, alpha, label):
    bed4 = os.path.join(tmp, "rich.bed")
    write_bed(bed4, RICH_BINS, 4)
    bam = os.path.join(tmp, "x.bam")
    for idxs in sets:
        reads = [alpha[i] for i in idxs]
        write_bam(bam, reads)
        excluded = any(not M.counted(r, 0) for r in reads)
        anydepth = False
        per_algo = {}
        for min_mapq in (0, 1, 30):
            for by_count in (False, True):
                sub = {"reads": reads, "min_mapq": min_mapq, "by_count": by_count, "bed": "rich"}
                rows = check_cov(ctx, bed4, bam, reads, RICH_BINS, by_count, min_mapq, sub)
                if rows is not None:
                    per_algo[(min_mapq, by_count)] = sorted(rows, key=sortkey)
                    anydepth = anydepth or any(r[4] > 0 for r in rows)
            a, b = per_algo.get((min_mapq, False)), per_algo.get((min_mapq, True))
            if a is not None and b is not None and not rows_equal(a, b):
                ctx.violation(
                    "the pileup and --count algorithms give the same depths on reads without indels",
                    "algorithms-disagree",
                    expected=a[:6],
                    observed=b[:6],
                    sub={"reads": reads, "min_mapq": min_mapq},
                )
        ctx.state((label, idxs), nontrivial=anydepth and excluded)
        for r in reads:
            if r["flag"] & M.EXCLUDE:
                ctx.stratum("read-excluded-by-flag")
            if r["mapq"] < 30:
                ctx.stratum("read-below-mapq30")
            if r["clip5"] or r["clip3"]:
                ctx.stratum("read-soft-clipped")
        os.unlink(bam)
        os.unlink(bam + ".bai")


def run_reads(case, ctx, tmp):
    alpha = read_alphabet(case["n"])
    if case["first"] is None:
        sets = [()]
    else:
        i = case["first"]
        sets = [(i,)] + [(i, j) for j in range(i, case["n"])]
    run_reads_sets(ctx, tmp, sets, alpha, "reads")
    ctx.sample("reads", {"first": alpha[case["first"]] if case["first"] is not None else None, "sets": len(sets)})


def run_reads3(case, ctx, tmp):
    alpha = read_alphabet(case["n"])
    i, j = case["first"]
    sets = [(i, j, k) for k in range(j, case["n"])]
    run_reads_sets(ctx, tmp, sets, alpha, "reads3")
    ctx.sample("reads3", {"first": [alpha[i], alpha[j]], "sets": len(sets)})


def fixed_bam(name):
    if name == "empty":
        return []
    if name == "pair":
        return [read(start=90, mapq=30), read(start=110, flag=D), read(contig="c2", start=30, length=30)]
    if name.startswith("pile"):
        n = int(name[4:])
        step = 350.0 / n
        out = [read(start=int(i * step), length=50, mapq=[60, 30, 1, 0][i % 4], flag=[0, 0, 0, R, P, 0, D, 0][i % 8]) for i in range(n)]
        out += [read(contig="c2", start=(i * 7) % 150, length=30) for i in range(n // 10)]
        return out
    if name == "stack9000":
        return [read(start=100, length=50, flag=[0, 0, R, D][i % 4]) for i in range(9000)]
    raise ValueError(name)


BED_SHAPES = {
    "rich": RICH_BINS,
    "tiling": [("c1", i * 100, (i + 1) * 100, f"t{i}") for i in range(4)],
    "unsorted": [("c2", 0, 50, "u0"), ("c1", 300, 400, "u1"), ("c1", 0, 100, "u2"), ("c1", 100, 300, "u3")],
    "duplicate-bins": [("c1", 50, 150, "d"), ("c1", 50, 150, "d"), ("c1", 50, 150, "other")],
    "one-bin": [("c1", 90, 160, "only")],
    "only-c2": [("c2", 10, 190, "x")],
    "single-base-bins": [("c1", 99, 100, "p"), ("c1", 100, 101, "q"), ("c1", 149, 150, "r"), ("c1", 150, 151, "s")],
}


def run_beds(case, ctx, tmp):
    reads = fixed_bam(case["bam"])
    bam = os.path.join(tmp, "x.bam")
    write_bam(bam, reads)
    for shape, bins in BED_SHAPES.items():
        for ncols in (3, 4, 6):
            for comment in (False,):  # '#' comment lines are not in the quantifier (read_auto rejects them on the count path)
                bed = os.path.join(tmp, f"{shape}.{ncols}.bed")
                write_bed(bed, bins, ncols, comment)
                named = [(b[0], b[1], b[2], b[3] if ncols >= 4 else "-") for b in bins]
                for min_mapq in (0, 30):
                    for by_count in (False, True):
                        sub = {"bam": case["bam"], "bed": shape, "ncols": ncols, "comment": comment, "min_mapq": min_mapq, "by_count": by_count}
                        rows = check_cov(ctx, bed, bam, reads, named, by_count, min_mapq, sub, feature=f"/bed-{ncols}col")
                        if rows is not None and not by_count:
                            # pileup keeps the BED file's row order
                            if [r[:3] for r in rows] != [b[:3] for b in named]:
                                ctx.violation("each output row keeps its bin's coordinates (pileup: in file order)", "pileup/row-order", expected=named, observed=rows, sub=sub)
                        ctx.state(("beds", case["bam"], shape, ncols, comment, min_mapq, by_count), nontrivial=bool(reads))
                        ctx.stratum(f"bed-{shape}")
    ctx.sample("beds", {"bam": case["bam"], "reads": len(reads)})


# ---------------------------------------------------------------------------------------------
class chunk_size:
    """Swap cnvlib.coverage.to_chunks for the same function with another chunk size."""

    def __init__(self, k):
        self.k = k

    def __enter__(self):
        self.orig = coverage.to_chunks
        if self.k:
            coverage.to_chunks = functools.partial(parallel.to_chunks, chunk_size=self.k)

    def __exit__(self, *a):
        coverage.to_chunks = self.orig


POOL_BINS = [("c1", 0, 60, "p0"), ("c2", 0, 100, "p1"), ("c1", 60, 130, "p2"), ("c1", 100, 220, "p3"), ("c1", 220, 400, "p4"), ("c2", 100, 200, "p5"), ("c1", 10, 20, "p6"), ("c1", 150, 150, "p7")]  # p7: zero width, last in its chunk for chunk sizes 2 (position 1) and 1


def run_pools(case, ctx, tmp):
    reads = fixed_bam("pile500")
    bam = os.path.join(tmp, "x.bam")
    write_bam(bam, reads)
    bed = os.path.join(tmp, "pool.bed")
    write_bed(bed, POOL_BINS, 4)
    by_count = case["algo"] == "count"
    serial = ctx.call(coverage.do_coverage, bed, bam, by_count, 1, 1)
    if isinstance(serial, Exc):
        ctx.violation("coverage returns a table", f"{case['algo']}/serial-raises/{serial.key}", observed=serial)
        return
    serial = table_rows(serial)
    for ck in (1, 2, 3, 5000) if not by_count else (0,):
        with chunk_size(ck):
            sub = {"algo": case["algo"], "processes": case["procs"], "chunk_size": ck}
            rows = check_cov(ctx, bed, bam, reads, POOL_BINS, by_count, 1, sub, processes=case["procs"], feature="/real-pool")
        if rows is not None and not rows_equal(rows, serial):
            ctx.violation(
                "the table is the same for any number of worker processes and any split into chunks",
                f"{case['algo']}/real-pool-differs-from-serial",
                expected=serial,
                observed=rows,
                sub=sub,
            )
        ctx.state(("pools", case["algo"], case["procs"], ck), nontrivial=True)
        ctx.stratum(f"real-pool-p{case['procs']}")
    left = [f for f in os.listdir(tempfile.gettempdir()) if f.startswith("tmp.") and f.endswith(".bed")]
    ctx.sample("pools", {"algo": case["algo"], "procs": case["procs"], "chunk_files_left_in_tmp": len(left)})


def run_rewritten(case, ctx, tmp):
    """A BAM path whose file is replaced between calls in one process.  The first file comes without an index (the
    library builds it); the later ones are written over it and the index left behind is made older than the file."""
    bed4 = os.path.join(tmp, "rich.bed")
    write_bed(bed4, RICH_BINS, 4)
    bam = os.path.join(tmp, "same-path.bam")
    by_count = case["algo"] == "count"
    sequence = [fixed_bam("empty"), fixed_bam("pair"), fixed_bam("pile50"), fixed_bam("empty"), [read(start=95, length=150)]]
    for step, reads in enumerate(sequence):
        write_bam(bam, reads, index=False)
        for ext in (".bai",):
            if os.path.exists(bam + ext):
                st = os.stat(bam)
                os.utime(bam + ext, (st.st_atime - 100, st.st_mtime - 100))  # an index from before the file was replaced
        sub = {"step": step, "reads": reads if len(reads) <= 4 else f"{len(reads)} reads", "by_count": by_count, "history": "same path, file replaced %d time(s)" % step}
        check_cov(ctx, bed4, bam, reads, RICH_BINS, by_count, 1, sub, feature="/path-reused" if step else "/no-index-yet")
        ctx.state(("rewritten", case["algo"], step), nontrivial=step > 0)
        ctx.stratum("bam-path-reused" if step else "bam-without-index")
    ctx.sample("rewritten", {"algo": case["algo"], "steps": len(sequence)})


def _child_schedule(algo, bins, chunk, workers, prefix, tmp):
    """One execution of do_coverage under a fixed choice prefix (runs in a forked child)."""
    bam, bed = os.path.join(tmp, "x.bam"), os.path.join(tmp, "s.bed")
    s = vpool.Scheduler(prefix)
    log = []
    before = set(os.listdir(tempfile.gettempdir()))
    with vpool.patched_pool(s, workers=workers, log=log), chunk_size(chunk):
        try:
            res = ("ok", table_rows(coverage.do_coverage(bed, bam, algo == "count", 1, 4)))
        except vpool.ScheduleDivergence:
            raise
        except Exception as e:  # noqa: BLE001
            res = ("exc", f"{type(e).__name__}@{innermost_repo_frame(e.__traceback__, repo_root())}", str(e)[:300])
    left = sorted(set(os.listdir(tempfile.gettempdir())) - before)
    for f in left:
        try:
            os.unlink(os.path.join(tempfile.gettempdir(), f))
        except OSError:
            pass
    return {"result": res, "trace": s.trace, "pools": s.pools, "left": left}


def run_schedules(case, ctx, tmp, tlc=False):
    from checks.c10 import forked

    reads = fixed_bam("pile50")
    bam = os.path.join(tmp, "x.bam")
    write_bam(bam, reads)
    bed = os.path.join(tmp, "s.bed")
    bins = [POOL_BINS[i] for i in range(case["bins"])] if case["algo"] == "pileup" else POOL_BINS[:4] + [("c2", 100, 200, "p5")][: case["bins"] - 4]
    write_bed(bed, bins, 4)
    by_count = case["algo"] == "count"
    serial = ctx.call(coverage.do_coverage, bed, bam, by_count, 1, 1)
    if isinstance(serial, Exc):
        ctx.violation("coverage returns a table", f"{case['algo']}/serial-raises/{serial.key}", observed=serial)
        return
    serial = table_rows(serial)
    n = 0
    labels = []
    explored = set()

    def once(prefix):
        rep = forked(_child_schedule, case["algo"], case["bins"], case["chunk"], case["workers"], prefix, tmp)
        return rep["trace"], rep

    for trace, rep in vpool.explore_part(once, tuple(case["part"]), 5):
        n += 1
        ctx.transition()
        ctx.trace()
        labels = [t[2] for t in trace]
        explored.add(tuple(labels))
        sub = {"schedule": labels, "choices": [t[1] for t in trace]}
        ctx.state(("schedule", case["algo"], case["bins"], case["chunk"], case["workers"], tuple(t[1] for t in trace)), nontrivial=any(t[1] for t in trace))
        ctx.outcome(digest(rep["result"]))
        if rep["pools"] == 0:
            ctx.stratum("virtual-pool-bypassed")
        res = rep["result"]
        if res[0] != "ok":
            ctx.violation(
                "the table is the same for any number of worker processes and any split into chunks (every schedule)",
                f"schedule/{case['algo']}/raises/{res[1]}",
                observed=res,
                sub=sub,
            )
        elif not rows_equal(res[1], serial):
            ctx.violation(
                "the table is the same for any number of worker processes and any split into chunks (every schedule)",
                f"schedule/{case['algo']}/differs-from-serial",
                expected=serial,
                observed=res[1],
                sub=sub,
            )
    if tlc:
        # tasks the call fans out: chunks of the regions file (pileup) or contigs with bins (count)
        k_tasks = -(-case["bins"] // case["chunk"]) if case["algo"] == "pileup" else len({b[0] for b in bins})
        model, stats = tlcpool.schedules(k_tasks, case["workers"])
        if model != explored:
            # not a property verdict: this tree drives the executor in a way the TLA+ model does not describe (e.g. a
            # refactor to submit/as_completed).  The schedules were still explored and compared with the serial table
            # above; only the model-conformance statement is withdrawn, and the run is reported as not exhaustive.
            ctx.caps.append(
                "TLC conformance not established for %r: %d behaviours only in the model, %d schedules only explored"
                % (case, len(model - explored), len(explored - model))
            )
            ctx.stratum("tlc-model-mismatch")
            return
        ctx.stratum("tlc-behaviours-replayed-on-implementation", len(model))
        ctx.stratum(f"tlc-K{k_tasks}-W{case['workers']}-distinct-states", stats["tlc_distinct_states"])
        ctx.sample(f"tlc-K{k_tasks}-W{case['workers']}", {"case": case, "tlc": stats, "explored_schedules": len(explored), "sets_equal": True})
        return
    ctx.stratum(f"schedules-{case['algo']}-bins{case['bins']}-chunk{case['chunk']}-w{case['workers']}", n)
    ctx.sample(f"schedules-{case['algo']}", {"case": case, "schedules_in_part": n, "last": labels})


MANIFEST = {
    "text": "Bounded-exhaustive exploration of the real do_coverage on synthetic BAM/BED files written by the harness: every "
    "multiset of <=2 reads from a 40-read deviation alphabet (flags, MAPQ around each cut-off, soft clips, positions at bin "
    "edges and contig ends) x a BED with tiling/abutting/overlapping/nested/zero-width/off-end bins x mapq cut-offs x both "
    "algorithms, BED shape and column variants x fixed BAMs incl. piles, compared with a per-base depth-array model; the "
    "worker fan-out is model-checked: a virtual ProcessPoolExecutor enumerates every schedule (produce chunk / run task on "
    "worker / deliver+remove chunk file) for 2-3 chunks and 2 chromosome tasks and every result must equal the serial table; "
    "real pools of 2/3/16 x chunk sizes 1/2/3/5000 conform. The executor contract is also a TLA+ model (models/tla/PoolMap.tla): TLC "
    "enumerates its behaviours for K tasks x W workers and the set of terminal behaviours must equal the set of schedules "
    "the explorer replayed on the real code (every model trace validated against the implementation, none missed or invented).",
    "note": "Trusted: pysam/htslib as BAM writer and as the thing under the code (samtools bedcov); the depth-array model; the "
    "virtual executor's contract (mc/vpool.py). Not covered: reads with indels/skips, CRAM, >9000 reads, OS-level races "
    "inside htslib.",
    "technique": "exhaustive input enumeration against a depth-array model + stateless schedule enumeration (choice-sequence DFS over a virtual process pool), cross-validated against TLC's explicit-state enumeration of a TLA+ model of the executor contract",
}

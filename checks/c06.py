"""C06 - interval arithmetic (merge/flatten/subtract/intersection-trim/subdivide/resize) is base-exact.

E1: every ordered pair of multisets of intervals on a small grid x chromosome layouts x column
sets, every unary op over its argument grid, composed motif tables at three coordinate scales.
E2: breadth-first search over tables reachable by chains of operations; the invariant (agreement
with the base-set model) is evaluated for every operation on every reached table.
"""
import itertools

from checks.common import GA, coords_of, intervals, make_ga, multisets, rows_of, sort_rows
from mc.engine import Exc
from models import intervals as M

ID = "C06"
BUDGET = {"quick": 900, "thorough": 5400}
CASE_TIMEOUT = 1800

LAYOUTS = {
    "single": ([], []),
    "a+chr2": ([("2", 1, 3)], []),
    "b+chr2": ([], [("2", 2, 4)]),
    "both+chr2": ([("2", 1, 3)], [("2", 2, 4)]),
    # two separated rows on the later chromosome, starting below the first chromosome's largest end
    "both+chr2pair": ([("2", 0, 1), ("2", 2, 4)], [("2", 0, 3), ("2", 3, 4)]),
}

MOTIFS = {  # laid out left to right; (relative intervals, width) in units
    "single": ([(0, 2)], 3),
    "dup": ([(0, 2), (0, 2)], 3),
    "abut": ([(0, 2), (2, 3)], 4),
    "overlap": ([(0, 3), (2, 5)], 6),
    "nested": ([(0, 5), (1, 3)], 6),
    "nested3": ([(0, 7), (1, 6), (2, 4)], 8),
    "chain3": ([(0, 3), (2, 5), (4, 7)], 8),
    "far": ([(0, 1), (9, 10)], 11),
}
MOTIF_NAMES = list(MOTIFS)


def describe(tier):
    thorough = tier == "thorough"
    return {
        "rule": "E1: every ordered pair (a, b) of multisets of intervals on the grid x layouts x column sets through "
        "subtract and intersection(trim); every table through merge(bp), flatten, total_range_size, resize(bp, sizes), "
        "subdivide(avg, min); subdivide on every (length, avg, min) of its grid; composed motif tables at 3 scales. "
        "E2: BFS over tables reachable by op chains, all ops checked on every reached table. "
        "state = canonical (table[, table], layout, columns); non-trivial = the operation changed its input "
        "(something subtracted / intersected / merged / cut / dropped)",
        "bound": {
            "pairs": "<=2 x <=2 intervals over 0..4, 5 layouts with gene+value columns, 2 layouts bare"
            + ("; plus <=2 x <=3 over 0..6, layouts single/both+chr2" if thorough else ""),
            "unary": "merge bp -2..2; resize bp -3..3 x sizes {none,4,6}; subdivide avg 1..3 x min 0..3 on every table; plus every (table on chr1) x (table on chr2), <=2 intervals over 0..4 each" + ("" if thorough else " with the reduced option set (merge 0, resize +-1, subdivide 2/0)"),
            "subdivide_grid": "length 1..40 x avg 1..12 x min 0..6" if not thorough else "length 1..120 x avg 1..16 x min 0..8",
            "composed": "a: <=2 motifs at scale 1, 1 motif at scales 1000/250000; b: <=1 motif x shift {0,1,3}"
            if not thorough
            else "a: <=3 motifs, b: <=2 motifs (<=1 for 3-motif a at scales 1000/250000) x shift {0,1,3}, scales 1/1000/250000",
            "chain_depth": 3 if thorough else 2,
        },
        "alphabet": {"motifs": MOTIF_NAMES, "chain_ops": [o[0] for o in chain_ops()]},
        "assumptions": [
            "GenomicArray.from_rows builds the table under test; inputs are sorted as GenomicArray.sort sorts",
            "merge with bp != 0 follows the docstring (rows chain while the gap to the running max end is <= -bp)",
            "resize is claimed for intervals that lie inside [0, chromosome size] to begin with",
            "an exact .5 tie in length/avg may round either way",
        ],
    }


# --------------------------------------------------------------------------------------------
def cases(tier):
    thorough = tier == "thorough"
    tabs4 = multisets(intervals(4), 2)
    for cols in ("gv", ""):
        for layout in ("single", "a+chr2"):
            for a in tabs4:
                yield {"check": "unary", "a": a, "layout": layout, "cols": cols}
    # a full product over two chromosomes: every table on chr1 x every table on chr2 (state carried across the boundary shows)
    for a in tabs4:
        for a2 in tabs4:
            if a and a2:
                yield {"check": "unary", "a": a, "a2": a2, "layout": "two-chromosomes", "cols": "gv", "light": not thorough}
    for length in range(1, 121 if thorough else 41):
        yield {"check": "subdivide-grid", "length": length, "avgmax": 16 if thorough else 12, "minmax": 8 if thorough else 6}
    for cols, layouts in (("gv", list(LAYOUTS)), ("", ["single", "both+chr2"])):
        for layout in layouts:
            for a in tabs4:
                yield {"check": "pairs", "n": 4, "kb": 2, "a": a, "layout": layout, "cols": cols}
    # composed motif tables
    seqs = []
    for k in (1, 2, 3):
        seqs += list(itertools.product(MOTIF_NAMES, repeat=k))
    for scale in (1, 1000, 250000):
        for a in seqs:
            if thorough:
                if len(a) <= 2 or scale == 1:
                    yield {"check": "composed", "a": a, "scale": scale, "bmax": 2}
                else:
                    yield {"check": "composed", "a": a, "scale": scale, "bmax": 1}
            elif len(a) <= (2 if scale == 1 else 1):
                yield {"check": "composed", "a": a, "scale": scale, "bmax": 1}
    # chains
    depth = 3 if thorough else 2
    for layout in ("single", "a+chr2"):
        for a in tabs4:
            if a:
                yield {"check": "chain", "a": a, "layout": layout, "depth": depth}
    if thorough:
        tabs6a = multisets(intervals(6), 2)
        for layout in ("single", "both+chr2"):
            for a in tabs6a:
                yield {"check": "pairs", "n": 6, "kb": 3, "a": a, "layout": layout, "cols": "gv"}


def run(case, ctx):
    kind = case["check"]
    if kind == "unary":
        run_unary(case, ctx)
    elif kind == "pairs":
        run_pairs(case, ctx)
    elif kind == "subdivide-grid":
        run_subdivide_grid(case, ctx)
    elif kind == "composed":
        run_composed(case, ctx)
    elif kind == "chain":
        run_chain(case, ctx)
    else:
        raise ValueError(kind)


# --------------------------------------------------------------------------------------------
def shape_of(rows):
    """nested / overlapping / abutting / disjoint (strongest relation among rows of one chromosome)."""
    best = "disjoint"
    rank = {"disjoint": 0, "abutting": 1, "overlapping": 2, "nested": 3}
    rows = [r for r in rows if r[2] > r[1]]
    for i, r in enumerate(rows):
        for q in rows[i + 1 :]:
            if r[0] != q[0]:
                continue
            if (r[1] <= q[1] and q[2] <= r[2]) or (q[1] <= r[1] and r[2] <= q[2]):
                rel = "nested"
            elif r[1] < q[2] and q[1] < r[2]:
                rel = "overlapping"
            elif r[2] == q[1] or q[2] == r[1]:
                rel = "abutting"
            else:
                rel = "disjoint"
            if rank[rel] > rank[best]:
                best = rel
    return best


def check_positive(ctx, op, rows, sub):
    bad = [r for r in rows if not r[2] > r[1]]
    if bad:
        ctx.violation(f"{op}: every output interval is non-empty", f"{op}/empty-or-negative-interval", observed=bad, sub=sub)
        return False
    return True


def check_subtract(ctx, a, a_full, b, b_rows, sub):
    got = ctx.call(a.subtract, b)
    bshape = shape_of(b_rows)
    if isinstance(got, Exc):
        ctx.violation("a.subtract(b) returns a table", f"subtract/raises/{got.key}/other-{bshape}", observed=got, sub=sub)
        return
    ctx.trace()
    out = rows_of(got)
    ctx.outcome(hash(("sub", tuple(out))))
    check_positive(ctx, "subtract", out, sub)
    ca, cb = M.cover(a_full), M.cover(b_rows)
    want = M.cover_subtract(ca, cb)
    have = M.cover(out)
    if have != want:
        ctx.violation(
            "a.subtract(b) covers exactly the bases of a that are not in b",
            f"subtract/base-set/other-{bshape}",
            expected=want,
            observed=have,
            sub=sub,
        )
        return have != ca
    ncols = len(a_full[0]) if a_full else 3
    if ncols > 3:
        # every piece carries the other fields of the row it came from: per distinct field tuple,
        # the pieces carrying it cover exactly (rows carrying it) - b
        by_key, src = {}, {}
        for r in out:
            by_key.setdefault((r[0],) + tuple(r[3:]), []).append(r)
        for r in a_full:
            src.setdefault((r[0],) + tuple(r[3:]), []).append(r)
        for k in sorted(set(by_key) | set(src), key=repr):
            pieces, rows = by_key.get(k, []), src.get(k, [])
            wantp = M.iv_subtract(M.norm([(r[1], r[2]) for r in rows]), cb.get(k[0], []))
            havep = M.norm([(p[1], p[2]) for p in pieces])
            dbl = len(rows) == 1 and sum(p[2] - p[1] for p in pieces) != sum(e - s for s, e in wantp)
            if havep != wantp or dbl:
                ctx.violation(
                    "each piece of a.subtract(b) carries the other fields of the row it came from",
                    f"subtract/fields/other-{bshape}",
                    expected=[(k[0], s, e) + tuple(k[1:]) for s, e in wantp],
                    observed=pieces,
                    sub=sub,
                )
    return have != ca


def check_intersection(ctx, a, a_full, b, b_rows, sub):
    got = ctx.call(a.intersection, b, mode="trim")
    ca, cb = M.cover(a_full), M.cover(b_rows)
    want = M.cover_intersect(ca, cb)
    if isinstance(got, Exc):
        ctx.violation(
            "a.intersection(b, mode='trim') returns a table",
            f"intersection-trim/raises/{got.key}/{'empty-result' if not want else 'nonempty-result'}",
            observed=got,
            sub=sub,
        )
        return bool(want)
    ctx.trace()
    out = rows_of(got)
    ctx.outcome(hash(("int", tuple(out))))
    check_positive(ctx, "intersection-trim", out, sub)
    have = M.cover(out)
    if have != want:
        ctx.violation(
            "intersection(mode=trim) covers exactly a AND b",
            f"intersection-trim/base-set/a-{shape_of(a_full)}/b-{shape_of(b_rows)}",
            expected=want,
            observed=have,
            sub=sub,
        )
    return bool(want)


def run_pairs(case, ctx):
    n, kb, layout, cols = case["n"], case["kb"], case["layout"], case["cols"]
    ea, eb = LAYOUTS[layout]
    a_rows = [("1", s, e) for s, e in case["a"]] + ea
    a, a_full = make_ga(a_rows, cols)
    for bt in multisets(intervals(n), kb):
        b_rows = sort_rows([("1", s, e) for s, e in bt] + eb)
        b, _ = make_ga(b_rows, "")
        sub = {"b": b_rows}
        nt = False
        r = check_subtract(ctx, a, a_full, b, b_rows, sub)
        nt = nt or bool(r)
        if b_rows:
            r = check_intersection(ctx, a, a_full, b, b_rows, sub)
            nt = nt or bool(r)
        ctx.state(("pair", case["a"], bt, layout, cols, n), nontrivial=nt)
        ctx.stratum("b-" + shape_of(b_rows))
        if len({r[0] for r in a_rows}) == 1 and {r[0] for r in a_rows} == {r[0] for r in b_rows}:
            ctx.stratum("single-chromosome-shortcut")
    ctx.sample("pairs", {"a": a_rows, "b_last": b_rows, "layout": layout, "cols": cols})


# --------------------------------------------------------------------------------------------
def check_unary_ops(ctx, a, a_full, sub=None, resize_sizes=(None, 4, 6), light=False):
    """All unary operations on one table; returns True if any changed the table."""
    a3 = [r[:3] for r in a_full]
    changed = False
    ca = M.cover(a3)
    # merge
    for bp in ((0,) if light else (-2, -1, 0, 1, 2)):
        got = ctx.call(a.merge, bp=bp)
        s = {"op": "merge", "bp": bp, **(sub or {})}
        if isinstance(got, Exc):
            ctx.violation("merge returns a table", f"merge/raises/{got.key}", observed=got, sub=s)
            continue
        ctx.trace()
        out = coords_of(got)
        ctx.outcome(hash(("merge", bp, tuple(out))))
        want = M.merge_rows(a3, bp)
        if out != want:
            ctx.violation(
                "merge returns the sorted minimal list of disjoint, non-abutting intervals covering exactly the union"
                if bp == 0
                else "merge(bp) chains rows whose gap to the running maximum end is <= -bp",
                f"merge/rows/bp{'0' if bp == 0 else ('+' if bp > 0 else '-')}/{shape_of(a3)}",
                expected=want,
                observed=out,
                sub=s,
            )
        changed = changed or out != a3
    # flatten
    got = ctx.call(a.flatten)
    s = {"op": "flatten", **(sub or {})}
    if isinstance(got, Exc):
        ctx.violation("flatten returns a table", f"flatten/raises/{got.key}/{'gene-column' if a_full and len(a_full[0]) > 3 else 'bare'}", observed=got, sub=s)
    else:
        ctx.trace()
        out = coords_of(got)
        ctx.outcome(hash(("flatten", tuple(out))))
        want = M.flatten_rows(a3)
        shape = shape_of(a3)
        if shape in ("disjoint", "abutting"):
            want = a3  # nothing overlaps: pieces are the rows themselves
        if out != want:
            ctx.violation(
                "flatten returns disjoint pieces covering exactly the union, cut at every input boundary",
                f"flatten/rows/{shape}",
                expected=want,
                observed=out,
                sub=s,
            )
        changed = changed or out != a3
    # total_range_size
    got = ctx.call(a.total_range_size)
    if isinstance(got, Exc):
        ctx.violation("total_range_size returns a number", f"total_range_size/raises/{got.key}", observed=got, sub=sub)
    else:
        ctx.trace()
        if int(got) != M.cover_size(ca):
            ctx.violation("total_range_size = number of bases in the union", "total_range_size/value", expected=M.cover_size(ca), observed=int(got), sub=sub)
    # resize
    maxend = max([r[2] for r in a3], default=0)
    chroms = sorted({r[0] for r in a3}) or ["1"]
    for bp in ((-1, 1) if light else range(-3, 4)):
        for size in resize_sizes:
            if size is not None and size < maxend:
                continue
            # a different size per chromosome, so a size looked up for the wrong row shows
            sizes = {c: size + 2 * i for i, c in enumerate(chroms)} if size is not None else None
            got = ctx.call(a.resize_ranges, bp, sizes)
            s = {"op": "resize", "bp": bp, "size": size, **(sub or {})}
            if isinstance(got, Exc):
                ctx.violation("resize_ranges returns a table", f"resize/raises/{got.key}", observed=got, sub=s)
                continue
            ctx.trace()
            out = rows_of(got)
            ctx.outcome(hash(("resize", bp, size, tuple(out))))
            want = M.resize_rows(a_full, bp, sizes)
            if out != want:
                ctx.violation(
                    "resize_ranges moves both ends by bp, clipped to [0, chromosome size], dropping emptied intervals",
                    f"resize/rows/{'shrink' if bp < 0 else 'grow'}/{'sized' if size else 'unsized'}",
                    expected=want,
                    observed=out,
                    sub=s,
                )
            changed = changed or out != a_full
    # subdivide
    for avg in ((2,) if light else (1, 2, 3)):
        for mn in ((0,) if light else (0, 1, 2, 3)):
            changed = check_subdivide(ctx, a, a3, avg, mn, sub) or changed
    return changed


def check_subdivide(ctx, a, a3, avg, mn, sub=None):
    got = ctx.call(a.subdivide, avg, mn)
    s = {"op": "subdivide", "avg": avg, "min": mn, **(sub or {})}
    if isinstance(got, Exc):
        ctx.violation("subdivide returns a table", f"subdivide/raises/{got.key}", observed=got, sub=s)
        return False
    ctx.trace()
    out = coords_of(got)
    ctx.outcome(hash(("subdiv", avg, mn, tuple(out))))
    regions = M.merge_rows(a3, 0)
    pos = 0
    ok = True
    for chrom, rs, re_ in regions:
        length = re_ - rs
        if length < mn:
            continue
        counts = M.subdivide_counts(length, avg)
        # consume bins tiling [rs, re_)
        bins = []
        cur = rs
        while pos < len(out) and out[pos][0] == chrom and out[pos][1] == cur and out[pos][2] <= re_ and out[pos][2] > cur:
            bins.append(out[pos])
            cur = out[pos][2]
            pos += 1
            if cur == re_:
                break
        sizes = [b[2] - b[1] for b in bins]
        if cur != re_ or len(bins) not in counts or (max(sizes) - min(sizes) > 1):
            ok = False
            break
    if ok and pos != len(out):
        ok = False
    if not ok:
        ctx.violation(
            "subdivide cuts each merged region of at least min size into max(1, round(length/avg)) consecutive equal (+-1) bins covering it exactly",
            f"subdivide/bins/{shape_of(a3)}",
            expected={"regions": regions, "avg": avg, "min": mn},
            observed=out,
            sub=s,
        )
    return out != a3


def run_unary(case, ctx):
    if "a2" in case:
        ea = [("2", s, e) for s, e in case["a2"]]
    else:
        ea, _ = LAYOUTS[case["layout"]]
    a_rows = [("1", s, e) for s, e in case["a"]] + ea
    a, a_full = make_ga(a_rows, case["cols"])
    changed = check_unary_ops(ctx, a, a_full, light=bool(case.get("light")))
    ctx.state(("unary", case["a"], case.get("a2"), case["layout"], case["cols"]), nontrivial=changed)
    if "a2" in case:
        ctx.stratum("two-chromosomes: " + shape_of([r for r in a_full if r[0] == "1"]) + " | " + shape_of([r for r in a_full if r[0] == "2"]))
    ctx.stratum("a-" + shape_of(a_full))
    ctx.sample("unary", {"a": a_rows, "cols": case["cols"]})


def run_subdivide_grid(case, ctx):
    length = case["length"]
    for start in (0, 7):
        a, a_full = make_ga([("1", start, start + length)], "g")
        for avg in range(1, case["avgmax"] + 1):
            for mn in range(0, case["minmax"] + 1):
                nt = check_subdivide(ctx, a, [r[:3] for r in a_full], avg, mn, {"start": start})
                ctx.state(("subdiv", start, length, avg, mn), nontrivial=nt)
                if 2 * (length % avg) == avg:
                    ctx.stratum("subdivide-tie")
    ctx.sample("subdivide-grid", {"length": length})


# --------------------------------------------------------------------------------------------
def lay_out(names, scale, shift=0):
    rows, off = [], shift
    for nm in names:
        ivs, width = MOTIFS[nm]
        rows += [("1", (off + s) * scale, (off + e) * scale) for s, e in ivs]
        off += width
    return rows


def run_composed(case, ctx):
    scale = case["scale"]
    a_rows = lay_out(case["a"], scale)
    a, a_full = make_ga(a_rows, "gv")
    light = scale != 1
    changed = check_unary_ops(ctx, a, a_full, resize_sizes=(None,), light=light)
    ctx.state(("composed-unary", case["a"], scale), nontrivial=changed)
    bseqs = [()]
    for k in range(1, case["bmax"] + 1):
        bseqs += list(itertools.product(MOTIF_NAMES, repeat=k))
    for bn in bseqs:
        for shift in (0, 1, 3):
            if not bn and shift:
                continue
            b_rows = sort_rows(lay_out(bn, scale, shift))
            b, _ = make_ga(b_rows, "")
            sub = {"b": b_rows}
            nt = bool(check_subtract(ctx, a, a_full, b, b_rows, sub))
            if b_rows:
                nt = bool(check_intersection(ctx, a, a_full, b, b_rows, sub)) or nt
            ctx.state(("composed", case["a"], bn, shift, scale), nontrivial=nt)
            ctx.stratum("composed-b-" + shape_of(b_rows))
    ctx.sample("composed", {"a": a_rows, "scale": scale})


# --------------------------------------------------------------------------------------------
CHAIN_B = [
    [("1", 1, 3)],
    [("1", 0, 4), ("1", 1, 2)],  # nested
    [("1", 0, 2), ("1", 1, 3)],  # overlapping
    [("1", 2, 3), ("2", 0, 2)],
]


def chain_ops():
    ops = [("merge", lambda a: a.merge()), ("flatten", lambda a: a.flatten(combine={"gene": _join}))]
    for i, b in enumerate(CHAIN_B):
        ops.append((f"subtract-b{i}", lambda a, b=b: a.subtract(make_ga(b, "")[0])))
        ops.append((f"intersect-b{i}", lambda a, b=b: a.intersection(make_ga(b, "")[0], mode="trim")))
    ops.append(("resize+1", lambda a: a.resize_ranges(1)))
    ops.append(("resize-1", lambda a: a.resize_ranges(-1)))
    ops.append(("subdivide2", lambda a: a.subdivide(2)))
    return ops


def _join(elems):
    return ",".join(dict.fromkeys(elems))


_SEEN = set()


def run_chain(case, ctx):
    """BFS over tables reachable from the root by op chains; every op is checked on every state."""
    ea, _ = LAYOUTS[case["layout"]]
    root_rows = [("1", s, e) for s, e in case["a"]] + ea
    root, _ = make_ga(root_rows, "g")
    ops = chain_ops()
    frontier = [(root, 0, [])]
    while frontier:
        nxt = []
        for arr, depth, hist in frontier:
            full = rows_of(arr)
            key = hash((tuple(full), tuple(arr.data.index)))
            if key in _SEEN:
                ctx.stratum("chain-state-revisited")
                continue
            _SEEN.add(key)
            ctx.state(("chain", key), nontrivial=bool(hist))
            sub = {"history": hist, "table": full}
            if not _chain_sorted(full):
                ctx.stratum("chain-state-unsorted")
                continue  # operations are specified on sorted tables only
            # chain states carry whatever row index the previous operations left behind (subsets, permutations)
            check_unary_ops(ctx, arr, full, sub=sub, resize_sizes=(None, 6), light=True)
            for i, b in enumerate(CHAIN_B):
                bga, _ = make_ga(b, "")
                check_subtract(ctx, arr, full, bga, sort_rows(b), {**sub, "b": b})
                if M.cover_intersect(M.cover(full), M.cover(b)):
                    check_intersection(ctx, arr, full, bga, sort_rows(b), {**sub, "b": b})
            if depth >= case["depth"]:
                continue
            for name, op in ops:
                if name.startswith("intersect") and not M.cover_intersect(M.cover(full), M.cover(CHAIN_B[int(name[-1])])):
                    continue  # empty intersections are decided in the pair scope
                got = ctx.call(op, arr)
                if isinstance(got, Exc):
                    ctx.stratum("chain-op-raised")
                    continue  # reported by the per-state checks above
                if len(got):
                    nxt.append((got, depth + 1, hist + [name]))
        frontier = nxt
    ctx.sample("chain", {"root": root_rows, "depth": case["depth"]})


def _chain_sorted(rows):
    order = []
    for r in rows:
        if r[0] not in order:
            order.append(r[0])
    k = [(order.index(r[0]), r[1], r[2]) for r in rows]
    return k == sorted(k)

MANIFEST = {
    "text": "Bounded-exhaustive exploration of the real GenomicArray operations: every ordered pair of interval multisets on a "
    "small grid (and composed motif tables at three coordinate scales) through subtract/intersection, every table through "
    "merge/flatten/resize/subdivide/total_range_size over their argument grids, plus breadth-first search over the tables "
    "reachable by chaining operations; each result is compared with a base-set reference model. Exhaustive inside the "
    "stated bound, nothing sampled; the statement's 'random tables up to 40 rows' are replaced by the composed-motif scope.",
    "note": "Trusted: pandas/numpy, GenomicArray.from_rows as table builder, the reference model (two formulations cross-checked "
    "in selftest/). Not covered: tables beyond the bound, unsorted inputs, stranded merge.",
    "technique": "explicit-state enumeration of input pairs and BFS over operation chains on the real code, base-set reference model as oracle",
}

"""C20 - exports state exactly the calls they were given (export bed / vcf / seg / nexus-basic / jtv / cdt).

E1, five sub-spaces, each exhaustive inside its bound:

rows    one wide segment table per (configuration, rotation): every site (autosomes starting at 0 / 1 / 100, X and Y
        outside the PARs, the first / interior / last 100 bp inside and the 100 bp touching from outside every PAR of
        GRCh37 and GRCh38 on X and Y) x every value (cn 0..7, or 16 log2 values without a cn column), through
        export_bed x {all, ploidy, variant} and export_vcf, for the full product ploidy 1..6 x reference sex x sample sex
        x naming x PAR genome {none, grch37, grch38};
tables  every table of <= 3 (quick) / <= 4 (thorough) rows over class {autosome, X, PAR-X, Y} x 4 copy-number states,
        under every configuration within 2 (thorough: 1, quick: 0 for the longest tables) deviations of the default in ploidy, sexes, naming,
        genome, first start {0, 1, 100}, row index (default / shifted), cn column present / absent, --cnr bins given;
cli     the same wide tables written to .cns files and exported through `cnvkit.py export bed|vcf` argument parsing,
        every configuration; plus every spelling of the sample sex, -i / --label-genes, two input files, --cnr;
seg     1..3 (quick) / 1..5 (thorough) sample files with different breakpoints, every assignment of sample IDs
        including duplicates, with and without chromosome renumbering, through export_seg and `export seg`;
bins    1..3 / 1..5 .cnr files through merge_samples + fmt_cdt / fmt_jtv and `export cdt|jtv`, equal bins or one
        file deviating (row dropped / added, a start, end or chromosome changed in the first / a middle / the last
        row, gene renamed, rows permuted), every sample-ID assignment incl. duplicates; nexus-basic on every bin table.

Oracle: models/exports.py (built on models/calling.py for r and x).
"""
import atexit
import itertools
import math
import os
import shutil
import tempfile

from checks.common import np, pd  # noqa: F401  (binds the tree under test before cnvlib is imported)
from cnvlib import commands as CMD
from cnvlib import export as EXP
from cnvlib.cmdutil import read_cna
from cnvlib.cnary import CopyNumArray as CNA
from mc.engine import Exc
from models import calling as K
from models import exports as M

ID = "C20"
BUDGET = {"quick": 900, "thorough": 5400}
CASE_TIMEOUT = 900

# Set to False to drop the one clause that is an interpretation rather than the letter of the statement:
# "with --enumerate-chroms, different chromosomes stay different in the SEG output".
CLAIM_ENUMERATED_CHROMS_DISTINCT = False

PLOIDIES = [2, 1, 3, 4, 5, 6]  # the default first
GENOMES = [None, "grch37", "grch38"]
NAMINGS = ["plain", "chr"]
WIDE_CN = list(range(8))
WIDE_Q = [1.0, 0.5, 1.5, 2.0, 0.75, 1.25, 0.25, 0.01, 0.4, 0.6, 0.9, 1.1, 1.3, 1.75, 2.5, 3.0]  # 2^log2
LOG2_FILL = [-1.0, 0.0, 0.585]
COLS = ["chromosome", "start", "end", "gene", "log2", "probes"]
REL_6G = 1e-5  # anything printed through %.6g

_TMP = None


def tmpdir():
    global _TMP
    if _TMP is None:
        _TMP = tempfile.mkdtemp(prefix="c20_", dir="/tmp")
        atexit.register(shutil.rmtree, _TMP, True)
    return _TMP


# ---------------------------------------------------------------------------------------------
# configurations


def cfg_key(c):
    return [c["ploidy"], c["male_ref"], c["female"], c["naming"], c["genome"]]


def all_configs():
    out = []
    for ploidy in PLOIDIES:
        for genome in GENOMES:
            for naming in NAMINGS:
                for female in (True, False):
                    for male_ref in (False, True):
                        out.append({"ploidy": ploidy, "male_ref": male_ref, "female": female, "naming": naming, "genome": genome})
    return out


T_BASE = {"ploidy": 2, "male_ref": False, "female": True, "naming": "plain", "genome": None, "start": 100, "index": "default", "has_cn": True, "cnr": False}
T_DEV = {
    "ploidy": [4, 1, 3, 5, 6],
    "male_ref": [True],
    "female": [False],
    "naming": ["chr"],
    "genome": ["grch38", "grch37"],
    "start": [0, 1],
    "index": ["shifted"],
    "has_cn": [False],
    "cnr": [True],
}


def deviations(d):
    """All configurations differing from T_BASE in <= d dimensions, fewest deviations first."""
    dims = list(T_DEV)
    out = [dict(T_BASE)]
    for n in range(1, d + 1):
        for which in itertools.combinations(dims, n):
            for vals in itertools.product(*(T_DEV[w] for w in which)):
                c = dict(T_BASE)
                c.update(dict(zip(which, vals)))
                out.append(c)
    return out


def model_cfg(c):
    return M.Cfg(c["ploidy"], c["male_ref"], c["female"], c["genome"])


def chrom(base, naming):
    return ("chr" + base) if naming == "chr" else base


# ---------------------------------------------------------------------------------------------
# wide tables


def par_sites(kind, straddle):
    """Sorted, non-overlapping (start, end) sites on X or Y around the PARs of both genome builds."""
    sites = set()
    for genome in ("grch37", "grch38"):
        (s1, e1), (s2, e2) = K.PAR[genome][kind]
        mid1, mid2, gap = (s1 + e1) // 2, (s2 + e2) // 2, (e1 + s2) // 2
        if straddle:
            sites |= {(s1 - 50, s1 + 50), (mid1, mid1 + 100), (e1 - 1, e1 + 99), (gap, gap + 100), (s2 - 99, s2 + 1), (e2 - 50, e2 + 50)}
        else:
            sites |= {
                (s1 - 100, s1), (s1, s1 + 100), (mid1, mid1 + 100), (e1 - 100, e1), (e1, e1 + 100), (gap, gap + 100),
                (s2 - 100, s2), (s2, s2 + 100), (mid2, mid2 + 100), (e2 - 100, e2), (e2, e2 + 100),
            }  # fmt: skip
    out = sorted(sites)
    keep = []
    for s, e in out:  # the two builds' sites may touch or overlap: keep the first of any overlapping pair
        if keep and s < keep[-1][1]:
            continue
        keep.append((s, e))
    return keep


_SITES = {}


def wide_sites(straddle):
    if straddle not in _SITES:
        sites = [("1", 0, 1000), ("2", 1, 1000), ("3", 100, 1000)]
        for kind, base in (("x", "X"), ("y", "Y")):
            sites.append((base, 0, 500))
            sites += [(base, s, e) for s, e in par_sites(kind, straddle)]
        _SITES[straddle] = sites
    return _SITES[straddle]


def wide_segments(naming, has_cn, rot, straddle=False):
    segs = []
    values = WIDE_CN if has_cn else WIDE_Q
    for i, (base, s, e) in enumerate(wide_sites(straddle)):
        v = values[(i + rot) % len(values)]
        seg = {"chrom": chrom(base, naming), "start": s, "end": e, "gene": "g%d" % i, "probes": 11 + i}
        if has_cn:
            seg["cn"] = v
            seg["log2"] = LOG2_FILL[(i + rot) % 3]  # deliberately unrelated to cn: the call given is cn
        else:
            seg["log2"] = math.log2(v)
        segs.append(seg)
    return segs


# (cn column?, rotations): blocks of 8 rotations so that every case costs the same (even shard load)
ROT_BLOCKS = ((True, list(range(8))), (False, list(range(8))), (False, list(range(8, 16))))


# ---------------------------------------------------------------------------------------------
# small tables

T_CLASSES = ["auto", "x", "parx", "y"]  # genomic order of the rows they produce


def table_values(ploidy):
    vals = [0, ploidy // 2, ploidy, ploidy + 1]
    out = []
    for v in vals:
        if v not in out:
            out.append(v)
    while len(out) < 4:
        out.append(out[-1] + 1)
    return out


def table_segments(classes, assign, c):
    """Rows in genomic order; row j sits at j*1000 (+ the PAR1-X interior offset for parx rows); the first row starts at c['start']."""
    vals = table_values(c["ploidy"])
    g = c["genome"] or "grch38"
    (p1s, p1e), _ = K.PAR[g]["x"]
    par_base = (p1s + p1e) // 2
    segs = []
    for j, (cls, a) in enumerate(zip(classes, assign)):
        base = {"auto": "1", "x": "X", "parx": "X", "y": "Y"}[cls]
        off = par_base if cls == "parx" else 0
        start = off + j * 1000 + (c["start"] if j == 0 else 0)
        end = off + j * 1000 + 900
        v = vals[a]
        seg = {"chrom": chrom(base, c["naming"]), "start": start, "end": end, "gene": "g%d" % j, "probes": 11 + j}
        if c["has_cn"]:
            seg["cn"] = v
            w = vals[(a + 1) % 4]
            seg["log2"] = math.log2(w / c["ploidy"]) if w else -10.0
        else:
            seg["log2"] = math.log2(v / c["ploidy"]) if v else -10.0
        segs.append(seg)
    return segs


def cnr_bins(segs):
    """Two bins per segment (halves): the --cnr table used for CIPOS / CIEND."""
    rows = []
    for s in segs:
        mid = (s["start"] + s["end"]) // 2
        rows.append((s["chrom"], s["start"], mid, s["gene"], s["log2"], 1))
        rows.append((s["chrom"], mid, s["end"], s["gene"], s["log2"], 1))
    return rows


def seg_rows(segs):
    """(column names, rows) of a .cns file for these segments."""
    has_cn = bool(segs) and "cn" in segs[0]
    cols = COLS + (["cn"] if has_cn else [])
    return cols, [tuple(s["chrom"] if k == "chromosome" else s[k] for k in cols) for s in segs]


def build_cna(segs, has_cn, index="default", sample_id="S"):
    cols = COLS + (["cn"] if has_cn else [])
    rows = [tuple(s["chrom"] if k == "chromosome" else s[k] for k in cols) for s in segs]
    if index == "default" or not rows:
        return CNA.from_rows(rows, columns=cols, meta_dict={"sample_id": sample_id})
    pad = tuple({"chromosome": rows[0][0], "start": 0, "end": 1, "gene": "pad", "log2": 0.0, "probes": 1, "cn": 2}[k] for k in cols)
    full = CNA.from_rows([pad] + rows, columns=cols, meta_dict={"sample_id": sample_id})
    return full.as_dataframe(full.data.iloc[1:])


def write_table(path, cols, rows):
    os.makedirs(os.path.dirname(path), exist_ok=True)
    with open(path, "w") as f:
        f.write("\t".join(cols) + "\n")
        for r in rows:
            f.write("\t".join(repr(x) if isinstance(x, float) else str(x) for x in r) + "\n")


# ---------------------------------------------------------------------------------------------
# describe / cases


def describe(tier):
    t = tier == "thorough"
    return {
        "rule": "rows: every (site, value) of the wide table (rotations) x every configuration ploidy 1..6 x reference sex x sample sex x "
        "naming x PAR genome, through export_bed x 3 listings and export_vcf; tables: every table of <= k rows over 4 classes x 4 "
        "copy-number states x every configuration within d deviations of the default; cli: the wide tables through the command line for "
        "every configuration; seg / bins: every sequence of <= n sample files x every sample-ID assignment (set partitions) x "
        "{renumbering on/off} resp. x {equal bins, one deviating file of every kind at every position}. state = (sub-space, "
        "configuration, table | file sequence); non-trivial = the listing both keeps and drops a segment / a record is emitted / "
        "a multi-file export with a duplicate ID or a deviating file",
        "bound": {
            "rows": "%d sites (3 autosomal starts 0/1/100, X and Y at 0, 11 PAR-edge sites per build and sex chromosome, coinciding ones once)" % len(wide_sites(False)) + " x cn 0..7 (8 rotations) "
            "or 16 values of 2^log2 in 0.01..3 (16 rotations) x 144 configurations" + ("; plus the PAR-straddling site set" if t else ""),
            "tables": ("<= 3 rows x <= 2 deviations, 4 rows x <= 1 deviation" if t else "<= 2 rows x <= 2 deviations, 3 rows x the default configuration")
            + " of 9 dimensions (ploidy 1..6, reference sex, sample sex, naming, genome, first start, index, cn column, cnr)",
            "cli": "144 configurations x cn column present/absent x " + ("all rotations" if t else "rotation 0") + "; 1 extras case",
            "seg": ("<= 4 files over 6 segment tables, 5 files over 3 tables" if t else "<= 3 files over 6 segment tables") + " x all ID partitions x renumbering x {api, cli}",
            "bins": ("<= 5" if t else "<= 3") + " files x 3 bin tables x (equal | 1 deviating file x 11 kinds x position) x all ID partitions x {cdt, jtv} x {api, cli}",
        },
        "alphabet": {
            "show": list(M.SHOWS),
            "genomes": ["none", "grch37", "grch38"],
            "naming": NAMINGS,
            "deviation_kinds": DEV_KINDS,
            "segment_tables": list(SEG_TABLES),
            "bin_tables": list(BIN_TABLES),
        },
        "assumptions": [
            "copy number of a segment = its cn column, else nearest integer to r*2^log2 with r from models/calling.py (exact .5 ties: either neighbour)",
            "expected copies x from models/calling.py; Y in a female sample is 0 for every ploidy; 'half of the ploidy' for odd ploidy is undefined: "
            "such sex-chromosome segments may or may not be listed (their coordinates and cn are still checked)",
            "inside a PAR, without a cn column, the statement does not say whether r follows the PAR option (the no-purity calling path takes none, "
            "property C01): both r are admitted, so export bed (pure r) and export vcf (PAR-aware r) may disagree there without a violation",
            "bins straddling a PAR edge are unclassified (thorough tier only; coordinates and cn membership still checked)",
            "segment tables carry a probes column (a .cns always does); chromosome naming is uniform inside a table; tables are in genomic order",
            "output rows are matched to segments by (chromosome, start, end) resp. (chromosome, END); row order is not demanded",
            "BED: first three columns + the copy-number column (named ncopies, else the last); SEG columns by their standard names "
            "(ID, chrom, loc.start, loc.end, num.mark, seg.mean); a sample without a probes column has no count to write (open)",
            "CDT/JTV/Nexus: the label text is open but must name chromosome, start (0- or 1-based) and end of exactly one bin; CDT rows AID / EWEIGHT are format rows",
            "bins differ = the (chromosome, start, end) sets differ; a file with the same bins in another row order or other gene names may be refused or merged correctly",
            "duplicate sample IDs: refusal, or both columns / both segment blocks present",
            "with --enumerate-chroms the chromosome ids are not compared (the statement does not speak of them; CLAIM_ENUMERATED_CHROMS_DISTINCT = False)",
            "the command line is always given the sample sex (-x); guessing it is property C15",
            "values printed through %.6g are compared to 6 significant digits, everything else to 1e-9",
        ],
    }


def class_multisets(k):
    return list(itertools.combinations_with_replacement(T_CLASSES, k))


# sample IDs by block of the partition: in ascending order of first use, and in an order that is neither ascending by
# code point nor ascending ignoring case (file order must decide the column order, not the spelling of the names)
ID_NAMINGS = {"ascending": ["S1", "S2", "S3", "S4", "S5"], "unordered": ["t9", "r5", "a1", "N7", "B3"]}


def id_assignments(k):
    """Every set partition of the k positions x every naming of the blocks (one naming when k = 1)."""
    for part in partitions(k):
        for naming, names in ID_NAMINGS.items():
            if naming != "ascending" and k == 1:
                continue
            yield part, [names[b] for b in part]


def partitions(k):
    """Set partitions of k positions as restricted-growth strings, all-distinct first."""
    out = []

    def rec(prefix, mx):
        if len(prefix) == k:
            out.append(tuple(prefix))
            return
        for v in range(mx + 2):
            rec(prefix + [v], max(mx, v))

    rec([], -1)
    return sorted(out, key=lambda p: (-len(set(p)), p))


def cases(tier):
    t = tier == "thorough"
    configs = all_configs()
    # 1. small tables, few deviations (the smallest counterexamples live here)
    kmax2 = 3 if t else 2
    for d in (0, 1, 2):
        devs = [c for c in deviations(d) if sum(1 for k in T_BASE if c[k] != T_BASE[k]) == d]
        for k in range(0, kmax2 + 1):
            for classes in class_multisets(k):
                for c in devs:
                    yield {"check": "tables", "classes": list(classes), "cfg": c}
    # 2. wide tables: the full configuration product
    for c in configs:
        for has_cn, rots in ROT_BLOCKS:
            yield {"check": "rows", "cfg": c, "has_cn": has_cn, "rots": rots, "straddle": False}
    # 3. multi-sample formats
    names = list(SEG_TABLES)
    for k in range(1, (4 if t else 3) + 1):
        for seq in itertools.product(names, repeat=k):
            yield {"check": "seg", "tables": list(seq)}
    if t:
        for seq in itertools.product(names[:3], repeat=5):
            yield {"check": "seg", "tables": list(seq)}
    for bt in BIN_TABLES:
        yield {"check": "nexus", "bins": bt}
        for k in range(1, (5 if t else 3) + 1):
            yield {"check": "bins", "bins": bt, "k": k, "dev": None}
            for pos in range(k):
                for kind in DEV_KINDS:
                    yield {"check": "bins", "bins": bt, "k": k, "dev": [pos, kind]}
    # 4. command line
    yield {"check": "cli-extras"}
    for c in configs:
        for has_cn, rots in ROT_BLOCKS if t else ((True, [0]), (False, [0])):
            yield {"check": "cli", "cfg": c, "has_cn": has_cn, "rots": rots}
    # 5. longest tables: default configuration only (quick) / <= 1 deviation (thorough)
    for c in deviations(1 if t else 0):
        for classes in class_multisets(kmax2 + 1):
            yield {"check": "tables", "classes": list(classes), "cfg": c}
    if t:
        for c in configs:
            for has_cn, rots in ROT_BLOCKS:
                yield {"check": "rows", "cfg": c, "has_cn": has_cn, "rots": rots, "straddle": True}


def run(case, ctx):
    {
        "tables": run_tables,
        "rows": run_rows,
        "cli": run_cli,
        "cli-extras": run_cli_extras,
        "seg": run_seg,
        "bins": run_bins,
        "nexus": run_nexus,
    }[case["check"]](case, ctx)


# ---------------------------------------------------------------------------------------------
# BED / VCF through the API


def report(ctx, op, problems, sub):
    for clause, feat, want, got in problems:
        ctx.violation(clause, f"{op}/{feat}", expected=want, observed=got, sub=sub)


def bed_rows_of(df):
    cols = list(df.columns)
    ci = cols.index("ncopies") if "ncopies" in cols else len(cols) - 1
    out = []
    for r in df.itertuples(index=False, name=None):
        vals = [x.item() if isinstance(x, np.generic) else x for x in r]
        out.append((vals[0], vals[1], vals[2], vals[ci]))
    return out


def strata_for(ctx, segs, mc, prefix):
    any_in = any_out = False
    for seg, cls, cands, exp in M.annotate(segs, mc):
        if cands is None:
            ctx.stratum(f"{prefix}:open-copy-number({cls})")
            continue
        if len(cands) > 1:
            ctx.stratum(f"{prefix}:open-tie-or-par-r")
        if exp is None:
            ctx.stratum(f"{prefix}:open-expected-odd-ploidy-or-straddle")
            continue
        rel = {("loss" if c < exp else "gain" if c > exp else "neutral") for c in cands}
        if len(rel) == 1:
            r = next(iter(rel))
            ctx.stratum(f"{prefix}:{cls}-{r}")
            any_in = any_in or r != "neutral"
            any_out = any_out or r == "neutral"
            if r != "neutral" and seg["start"] == 0:
                ctx.stratum(f"{prefix}:variant-starting-at-0")
    return any_in, any_out


def api_exports(ctx, cna, segs, c, sub, cnr=None, op_suffix="@api"):
    """export_bed x 3 listings and export_vcf on one table object; returns True when a VCF record was emitted."""
    mc = model_cfg(c)
    for show in M.SHOWS:
        got = ctx.call(lambda: bed_rows_of(EXP.export_bed(cna, c["ploidy"], c["male_ref"], c["genome"], c["female"], "lab", show)))
        op = f"bed.{show}{op_suffix}"
        if isinstance(got, Exc):
            ctx.violation("export bed returns the listing", f"{op}/raises/{got.key}", observed=got, sub={**sub, "show": show})
            continue
        ctx.trace()
        ctx.outcome(("bed", show, got))
        report(ctx, op, M.check_bed(got, segs, mc, show), {**sub, "show": show})
    got = ctx.call(lambda: EXP.export_vcf(cna, c["ploidy"], c["male_ref"], c["genome"], c["female"], None, cnr))
    op = "vcf" + op_suffix
    # the same table object once more after the four exports above: the listing must still be the one the model expects
    again = ctx.call(lambda: bed_rows_of(EXP.export_bed(cna, c["ploidy"], c["male_ref"], c["genome"], c["female"], "lab", "variant")))
    if isinstance(again, Exc):
        ctx.violation("export bed returns the listing", f"bed.variant{op_suffix}/again/raises/{again.key}", observed=again, sub={**sub, "show": "variant", "history": "bed x3, vcf, bed"})
    else:
        ctx.trace()
        report(ctx, f"bed.variant{op_suffix}/again", M.check_bed(again, segs, mc, "variant"), {**sub, "show": "variant", "history": "bed x3, vcf, bed"})
    if isinstance(got, Exc):
        ctx.violation("export vcf returns the records", f"{op}/raises/{got.key}", observed=got, sub=sub)
        return False
    return vcf_text(ctx, op, got[0] + got[1], segs, mc, sub)


def vcf_text(ctx, op, text, segs, mc, sub):
    try:
        names, records = M.parse_vcf(text)
    except ValueError as e:
        ctx.violation("export vcf writes VCF records", f"{op}/malformed", observed=str(e)[:300], sub=sub)
        return False
    ctx.trace()
    ctx.outcome(("vcf", [r["line"] for r in records]))
    report(ctx, op, M.check_vcf(records, segs, mc), sub)
    for r in records:
        ctx.stratum("vcf-record:" + str(r["info"].get("SVTYPE")))
        if r["pos"] == "1":
            ctx.stratum("vcf-record:POS=1")
    return bool(records)


def run_rows(case, ctx):
    c, has_cn = case["cfg"], case["has_cn"]
    mc = model_cfg(c)
    for rot in case["rots"]:
        segs = wide_segments(c["naming"], has_cn, rot, case["straddle"])
        cna = build_cna(segs, has_cn)
        sub = {"rotation": rot, "segments": compact(segs)}
        any_in, any_out = strata_for(ctx, segs, mc, "rows")
        api_exports(ctx, cna, segs, c, sub)
        ctx.state(("rows", cfg_key(c), has_cn, rot, case["straddle"]), nontrivial=any_in and any_out)
    ctx.stratum("rows:" + ("cn-column" if has_cn else "from-log2") + ("/genome" if c["genome"] else "/no-genome"))
    ctx.sample("rows", {"cfg": c, "first_rows": compact(segs)[:4]})


def compact(segs):
    return [[s["chrom"], s["start"], s["end"], s.get("cn", "-"), round(s["log2"], 6), s["probes"]] for s in segs]


def run_tables(case, ctx):
    c, classes = case["cfg"], case["classes"]
    mc = model_cfg(c)
    k = len(classes)
    for assign in itertools.product(range(4), repeat=k):
        segs = table_segments(classes, assign, c)
        cna = build_cna(segs, c["has_cn"], c["index"])
        cnr = CNA.from_rows(cnr_bins(segs), columns=COLS, meta_dict={"sample_id": "S"}) if c["cnr"] and segs else None
        sub = {"segments": compact(segs)}
        any_in, any_out = strata_for(ctx, segs, mc, "tables")
        api_exports(ctx, cna, segs, c, sub, cnr=cnr)
        ctx.state(("tables", classes, assign, [c[x] for x in T_BASE]), nontrivial=any_in and any_out)
    if k == 0:
        ctx.stratum("tables:empty-table")
    if c["index"] != "default":
        ctx.stratum("tables:shifted-index")
    if c["cnr"]:
        ctx.stratum("tables:with-cnr-bins")
    ctx.sample("tables", {"cfg": c, "classes": classes, "last": compact(segs)})


# ---------------------------------------------------------------------------------------------
# command line


class CliExit(Exception):
    pass


def cli(argv):
    try:
        args = CMD.parse_args(argv)
        args.func(args)
    except SystemExit as e:  # argparse refusing the arguments
        raise CliExit(str(e.code)) from e


def read_out(path):
    with open(path) as f:
        return f.read()


def cli_args(c, sex=None):
    a = ["--ploidy", str(c["ploidy"]), "-x", sex or ("female" if c["female"] else "male")]
    if c["male_ref"]:
        a.append("-y")
    if c["genome"]:
        a += ["--diploid-parx-genome", c["genome"]]
    return a


def cli_bed(ctx, files, segs, c, show, sub, extra=(), sex=None, op="bed"):
    out = os.path.join(tmpdir(), "out.bed")
    if os.path.exists(out):
        os.remove(out)
    argv = ["export", "bed"] + list(files) + ["--show", show] + cli_args(c, sex) + list(extra) + ["-o", out]
    got = ctx.call(lambda: (cli(argv), read_out(out))[1])
    opk = f"{op}.{show}@cli"
    sub = {**sub, "argv": argv[2:-2]}
    if isinstance(got, Exc):
        ctx.violation("export bed writes the listing", f"{opk}/raises/{got.key}", observed=got, sub=sub)
        return None
    rows = []
    for line in got.split("\n"):
        if not line:
            continue
        f = line.split("\t")
        if len(f) < 5 or not f[1].isdigit() or not f[2].isdigit():
            ctx.violation("export bed writes BED lines", f"{opk}/malformed", observed=line, sub=sub)
            return None
        rows.append((f[0], int(f[1]), int(f[2]), f[-1], f[3]))
    ctx.trace()
    ctx.outcome(("bed-cli", show, rows))
    report(ctx, opk, M.check_bed([r[:4] for r in rows], segs, model_cfg(c), show), sub)
    return rows


def cli_vcf(ctx, path, segs, c, sub, extra=(), sex=None):
    out = os.path.join(tmpdir(), "out.vcf")
    if os.path.exists(out):
        os.remove(out)
    argv = ["export", "vcf", path] + cli_args(c, sex) + list(extra) + ["-o", out]
    got = ctx.call(lambda: (cli(argv), read_out(out))[1])
    sub = {**sub, "argv": argv[2:-2]}
    if isinstance(got, Exc):
        ctx.violation("export vcf writes the records", f"vcf@cli/raises/{got.key}", observed=got, sub=sub)
        return False
    return vcf_text(ctx, "vcf@cli", got, segs, model_cfg(c), sub)


def run_cli(case, ctx):
    c, has_cn = case["cfg"], case["has_cn"]
    for rot in case["rots"]:
        segs = wide_segments(c["naming"], has_cn, rot)
        path = os.path.join(tmpdir(), "cli", "S.cns")
        write_table(path, *seg_rows(segs))
        sub = {"rotation": rot, "segments": compact(segs)}
        any_in, any_out = strata_for(ctx, segs, model_cfg(c), "cli")
        for show in M.SHOWS:
            cli_bed(ctx, [path], segs, c, show, sub)
        cli_vcf(ctx, path, segs, c, sub)
        ctx.state(("cli", cfg_key(c), has_cn, rot), nontrivial=any_in and any_out)
    ctx.sample("cli", {"cfg": c, "has_cn": has_cn})


def run_cli_extras(case, ctx):
    c = {"ploidy": 2, "male_ref": False, "female": True, "naming": "plain", "genome": None}
    segs = wide_segments("plain", True, 0)
    other = [
        {"chrom": "4", "start": 0, "end": 700, "gene": "o0", "probes": 3, "cn": 1, "log2": 0.0},
        {"chrom": "5", "start": 50, "end": 700, "gene": "o1", "probes": 4, "cn": 2, "log2": 0.0},
        {"chrom": "X", "start": 700, "end": 900, "gene": "o2", "probes": 5, "cn": 3, "log2": 0.0},
    ]
    p1 = os.path.join(tmpdir(), "cli", "S.cns")
    p2 = os.path.join(tmpdir(), "cli", "Other.cns")
    write_table(p1, *seg_rows(segs))
    write_table(p2, *seg_rows(other))
    # every spelling of the sample sex
    for word, female in (("m", False), ("y", False), ("male", False), ("Male", False), ("f", True), ("x", True), ("female", True), ("Female", True)):
        for male_ref in (False, True):
            cc = {**c, "female": female, "male_ref": male_ref}
            sub = {"sex_word": word, "segments": compact(segs)}
            cli_bed(ctx, [p1], segs, cc, "variant", sub, sex=word)
            cli_vcf(ctx, p1, segs, cc, sub, sex=word)
            ctx.state(("cli-sex", word, male_ref), nontrivial=True)
            ctx.stratum("cli:sex-word")
    # a table without any chrX segment (nothing to guess the sex from): the stated sex still decides what chrY should hold
    nox = [g for g in segs if g["chrom"] not in ("X", "chrX")]
    p3 = os.path.join(tmpdir(), "cli", "NoX.cns")
    write_table(p3, *seg_rows(nox))
    for word, female in (("male", False), ("y", False), ("female", True), ("x", True)):
        for male_ref in (False, True):
            cc = {**c, "female": female, "male_ref": male_ref}
            sub = {"sex_word": word, "segments": compact(nox), "table": "no chrX segment"}
            for show in M.SHOWS:
                cli_bed(ctx, [p3], nox, cc, show, sub, sex=word, op="bed-nox")
            cli_vcf(ctx, p3, nox, cc, sub, sex=word)
            ctx.state(("cli-sex-nox", word, male_ref), nontrivial=True)
            ctx.stratum("cli:sex-word on a table without chrX")
    # labels: -i, --label-genes, default (sample id)  -- the listing itself must not change
    for extra in ([], ["-i", "LABEL"], ["--label-genes"]):
        for show in M.SHOWS:
            cli_bed(ctx, [p1], segs, c, show, {"segments": compact(segs)}, extra=extra)
        ctx.state(("cli-label", extra), nontrivial=True)
        ctx.stratum("cli:label-option")
    # two input files: the listing covers both
    for files, both in (([p1, p2], segs + other), ([p2, p1], other + segs)):
        for show in M.SHOWS:
            cli_bed(ctx, files, both, c, show, {"files": [os.path.basename(f) for f in files]}, op="bed2")
        ctx.state(("cli-two", [os.path.basename(f) for f in files]), nontrivial=True)
        ctx.stratum("cli:two-files")
    # vcf with -i and with --cnr
    pc = os.path.join(tmpdir(), "cli", "S.cnr")
    write_table(pc, COLS, cnr_bins(segs))
    for extra in (["-i", "NAME"], ["--cnr", pc], ["--cnr", pc, "-i", "NAME"]):
        for female in (True, False):
            cli_vcf(ctx, p1, segs, {**c, "female": female}, {"segments": compact(segs)}, extra=extra)
        ctx.state(("cli-vcf", [e if not e.startswith("/") else "cnr" for e in extra]), nontrivial=True)
        ctx.stratum("cli:vcf-option")
    ctx.sample("cli-extras", {"files": ["S.cns", "Other.cns", "S.cnr"]})


# ---------------------------------------------------------------------------------------------
# SEG

SEG_TABLES = {
    "A": [("1", 0, 1000, 0.5, 5), ("1", 1000, 3000, -1.0, 7), ("2", 10, 500, 0.123456789, 3), ("X", 100, 900, 0.0, 4)],
    "B": [("1", 0, 3000, -0.25, 12), ("2", 0, 500, 1.5, 2)],
    "C": [("2", 7, 90, 0.3, 1), ("3", 5, 50, -2.0, 9)],  # no chromosome 1: its renumbering starts at 2
    "noprobes": [("1", 0, 2000, 0.75, None), ("3", 1, 60, -0.5, None)],
    "empty": [],
    "chr": [("chr1", 0, 800, 0.25, 6), ("chrX", 1, 300, -0.125, 8)],
}


def seg_segments(name):
    out = []
    for ch, s, e, m, p in SEG_TABLES[name]:
        d = {"chrom": ch, "start": s, "end": e, "gene": "-", "log2": m}
        if p is not None:
            d["probes"] = p
        out.append(d)
    return out


def seg_file(pos, sid, name):
    path = os.path.join(tmpdir(), "seg", "p%d" % pos, sid + ".cns")
    segs = seg_segments(name)
    if name == "noprobes":
        cols = ["chromosome", "start", "end", "gene", "log2"]
    else:
        cols = COLS
    write_table(path, cols, [tuple(s["chrom"] if k == "chromosome" else s[k] for k in cols) for s in segs])
    return path


def seg_rows_api(df):
    cols = list(df.columns)
    need = ["ID", "chrom", "loc.start", "loc.end", "seg.mean"]
    for n in need:
        if n not in cols:
            raise KeyError(n)
    out = []
    for rec in df.to_dict("records"):
        rec = {k: (v.item() if isinstance(v, np.generic) else v) for k, v in rec.items()}
        nm = rec.get("num.mark")
        if nm is not None and isinstance(nm, float) and math.isnan(nm):
            nm = None
        out.append((rec["ID"], rec["chrom"], rec["loc.start"], rec["loc.end"], nm, rec["seg.mean"]))
    return out


def seg_rows_text(text):
    lines = [ln for ln in text.split("\n") if ln]
    header = lines[0].split("\t")
    out = []
    for ln in lines[1:]:
        f = dict(zip(header, ln.split("\t")))
        nm = f.get("num.mark")
        if nm in (None, "", "nan", "NaN"):
            nm = None
        out.append((f["ID"], f["chrom"], f["loc.start"], f["loc.end"], nm, f["seg.mean"]))
    return out


def run_seg(case, ctx):
    names = case["tables"]
    k = len(names)
    for part, ids in id_assignments(k):
        files = [seg_file(i, ids[i], names[i]) for i in range(k)]
        samples = [(ids[i], seg_segments(names[i])) for i in range(k)]
        dup = len(set(ids)) < k
        for enum in (False, True):
            sub = {"ids": ids, "enumerate_chroms": enum}
            for via in ("api", "cli"):
                op = ("seg.enumerate" if enum else "seg") + "@" + via
                if via == "api":
                    got = ctx.call(lambda: seg_rows_api(EXP.export_seg(files, chrom_ids=enum)))
                    tol = 1e-9
                else:
                    out = os.path.join(tmpdir(), "out.seg")
                    if os.path.exists(out):
                        os.remove(out)
                    argv = ["export", "seg"] + files + (["--enumerate-chroms"] if enum else []) + ["-o", out]
                    got = ctx.call(lambda: seg_rows_text((cli(argv), read_out(out))[1]))
                    tol = REL_6G
                if isinstance(got, Exc):
                    ctx.violation("export seg writes every sample's segments", f"{op}/raises/{got.key}", observed=got, sub=sub)
                    continue
                ctx.trace()
                ctx.outcome(("seg", got))
                try:
                    problems = M.check_seg(got, samples, enum, tol, CLAIM_ENUMERATED_CHROMS_DISTINCT)
                except (TypeError, ValueError) as e:
                    problems = [("export seg writes numeric starts, ends and means", "malformed", "numbers", str(e)[:200])]
                report(ctx, op, problems, sub)
        ctx.state(("seg", names, part, ids), nontrivial=dup or k > 1)
        if dup:
            ctx.stratum("seg:duplicate-sample-id")
        if "empty" in names:
            ctx.stratum("seg:sample-without-segments")
        if "noprobes" in names and len(set(names)) > 1:
            ctx.stratum("seg:mixed-probes-column")
    first_chroms = [r[0] for r in SEG_TABLES[names[0]]]
    later = {r[0] for n in names[1:] for r in SEG_TABLES[n]}
    if later - set(first_chroms):
        ctx.stratum("seg:later-sample-has-a-chromosome-the-first-lacks")
    ctx.sample("seg", {"tables": names})


# ---------------------------------------------------------------------------------------------
# CDT / JTV / Nexus

BIN_TABLES = {
    "plain4": [("1", 0, 1000, "g1"), ("1", 1000, 2000, "g1"), ("2", 10, 500, "-"), ("X", 100, 900, "g3")],
    "single": [("chr1", 0, 100, "g")],
    "unsorted-file": [("chr2", 0, 300, "b"), ("chr1", 500, 900, "a"), ("chr1", 0, 400, "a"), ("chrX", 1, 50, "c"), ("chr1", 1000, 1200, "a")],
}
DEV_KINDS = [
    "drop-first", "drop-last", "extra-last", "start+1@first", "start+1@last", "end+1@first", "end+1@mid", "end+1@last",
    "chrom@last", "gene@mid", "permute",
]  # fmt: skip
OPEN_KINDS = ("gene@mid", "permute")


def sample_bins(bt, i, dev=None):
    """Bins of sample i (file order) with its own log2 per bin; `dev` alters the bins."""
    rows = [{"chrom": ch, "start": s, "end": e, "gene": g} for ch, s, e, g in BIN_TABLES[bt]]
    if dev:
        n = len(rows)
        at = {"first": 0, "mid": n // 2, "last": n - 1}
        if dev == "drop-first":
            rows = rows[1:]
        elif dev == "drop-last":
            rows = rows[:-1]
        elif dev == "extra-last":
            rows = rows + [{"chrom": rows[-1]["chrom"] if bt != "unsorted-file" else "chrX", "start": 5000, "end": 6000, "gene": "z"}]
        elif dev == "permute":
            rows = rows[1:] + rows[:1]
        else:
            what, where = dev.split("@")
            r = dict(rows[at[where]])
            if what == "start+1":
                r["start"] += 1
            elif what == "end+1":
                r["end"] += 1
            elif what == "chrom":
                r["chrom"] = r["chrom"] + "b"
            elif what == "gene":
                r["gene"] = r["gene"] + "2"
            rows[at[where]] = r
    for j, r in enumerate(rows):
        r["log2"] = round((i + 1) * 0.5 - j * 0.3 + 0.0123456789 * (j + 1) * (1 if (i + j) % 2 else -1), 9)
    return rows


def bins_file(pos, sid, rows):
    path = os.path.join(tmpdir(), "bins", "p%d" % pos, sid + ".cnr")
    cols = ["chromosome", "start", "end", "gene", "log2"]
    write_table(path, cols, [(r["chrom"], r["start"], r["end"], r["gene"], r["log2"]) for r in rows])
    return path


def table_api(fmt, files):
    ids = [os.path.basename(f)[: -len(".cnr")] for f in files]
    table = EXP.merge_samples(files)
    header, rows = EXP.EXPORT_FORMATS[fmt](ids, table)
    return list(header), [list(r) for r in rows]


def table_cli(fmt, files):
    out = os.path.join(tmpdir(), "out." + fmt)
    if os.path.exists(out):
        os.remove(out)
    cli(["export", fmt] + files + ["-o", out])
    lines = [ln for ln in read_out(out).split("\n") if ln]
    return lines[0].split("\t"), [ln.split("\t") for ln in lines[1:]]


def data_rows(rows):
    return [r for r in rows if str(r[0]) not in ("AID", "EWEIGHT")]


def run_bins(case, ctx):
    bt, k, dev = case["bins"], case["k"], case["dev"]
    for part, ids in id_assignments(k):
        samples, files = [], []
        for i in range(k):
            rows = sample_bins(bt, i, dev[1] if dev and dev[0] == i else None)
            samples.append((ids[i], rows))
            files.append(bins_file(i, ids[i], rows))
        dup = len(set(ids)) < k
        differ = any(not M.bins_equal(samples[0][1], s[1]) for s in samples[1:])
        open_dev = bool(dev) and dev[1] in OPEN_KINDS and k > 1
        # model view of the bins: those of the first file, every sample's values looked up by coordinates
        for fmt, label_col in (("cdt", "NAME"), ("jtv", "Name")):
            for via in ("api", "cli"):
                op = f"{fmt}@{via}"
                sub = {"ids": ids, "format": fmt, "via": via}
                got = ctx.call(table_api if via == "api" else table_cli, fmt, files)
                feat = (dev[1] if dev else "equal-bins") + ("/dup-ids" if dup else "")
                if isinstance(got, Exc):
                    if differ or dup or open_dev:
                        ctx.trace()
                        ctx.outcome(("refused", fmt))
                        ctx.stratum("bins:refused-" + ("differing-bins" if differ else "duplicate-id" if dup else "open-deviation"))
                    else:
                        ctx.violation(f"export {fmt} writes one row per bin for samples with equal bins", f"{op}/raises/{got.key}", observed=got, sub=sub)
                    continue
                ctx.trace()
                header, rows = got
                ctx.outcome((fmt, header, rows))
                if differ:
                    ctx.violation(
                        f"export {fmt} refuses inputs whose bins differ", f"{op}/not-refused/{feat}", expected="an error", observed=[header] + rows[:8], sub=sub
                    )
                    continue
                if dup:
                    ctx.stratum("bins:duplicate-id-kept")
                if open_dev:
                    ctx.stratum("bins:open-deviation-merged")
                problems = M.check_bin_table(header, data_rows(rows), label_col, samples, 1e-9)
                report(ctx, f"{op}/{feat}", problems, sub)
        ctx.state(("bins", bt, k, dev, part, ids), nontrivial=dup or differ)
        if differ:
            ctx.stratum("bins:differing-" + ("first-file" if dev[0] == 0 else "later-file"))
    ctx.sample("bins", {"bins": bt, "k": k, "dev": dev})


def run_nexus(case, ctx):
    bt = case["bins"]
    rows = sample_bins(bt, 0)
    path = bins_file(0, "N1", rows)
    for via in ("api", "cli"):
        if via == "api":

            def f():
                df = EXP.export_nexus_basic(read_cna(path))
                return list(df.columns), [[x.item() if isinstance(x, np.generic) else x for x in r] for r in df.itertuples(index=False, name=None)]

            tol = 1e-9
        else:

            def f():
                out = os.path.join(tmpdir(), "out.nexus")
                if os.path.exists(out):
                    os.remove(out)
                cli(["export", "nexus-basic", path, "-o", out])
                lines = [ln for ln in read_out(out).split("\n") if ln]
                return lines[0].split("\t"), [ln.split("\t") for ln in lines[1:]]

            tol = REL_6G
        got = ctx.call(f)
        op = f"nexus@{via}"
        if isinstance(got, Exc):
            ctx.violation("export nexus-basic writes one row per bin", f"{op}/raises/{got.key}", observed=got, sub={"via": via})
            continue
        ctx.trace()
        ctx.outcome(("nexus", got))
        report(ctx, op, M.check_bin_table(got[0], got[1], "probe", [("log2", rows)], tol), {"via": via})
    ctx.state(("nexus", bt), nontrivial=True)
    ctx.stratum("nexus:table")
    ctx.sample("nexus", {"bins": bt})


MANIFEST = {
    "text": "Bounded-exhaustive exploration of the real exporters. BED/VCF: a wide segment table holding every (site, value) pair "
    "- autosomes starting at 0/1/100, X and Y, and bins on both sides of every GRCh37/GRCh38 PAR edge - is exported under the "
    "full product ploidy 1..6 x reference sex x sample sex x chr/plain naming x PAR genome, with and without a cn column, "
    "through export_bed (all / ploidy / variant), export_vcf and the `cnvkit.py export bed|vcf` command line; every small table "
    "(<= 3-4 rows over 4 classes x 4 copy-number states) is exported under every configuration within two deviations incl. "
    "shifted row index and --cnr bins. Each listed row / VCF record is matched to its segment and compared field by field "
    "(coordinates, integer copy number, membership, POS, END, SVTYPE/ALT, SVLEN sign, CN for gains) with the reference model. "
    "SEG/CDT/JTV/Nexus: every sequence of 1..3 (thorough 1..5) sample files x every sample-ID assignment incl. duplicates x "
    "renumbering resp. one deviating file of every kind at every position, through the functions and the command line. "
    "Exhaustive inside the bound.",
    "note": "Trusted: models/calling.py (r, x, PAR classes, nearest integer). Left open as the statement does: odd-ploidy halves, "
    "r inside a PAR without a cn column, ties, row order, label text, column order. Not covered: sample sex guessed from the data "
    "(C15), tables without a probes column, sample IDs that equal internal column names, gistic / theta / nexus-ogt.",
    "technique": "exhaustive enumeration of segment tables x configurations and of sample-file sequences on the real exporters against a field-by-field reference model",
}

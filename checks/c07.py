"""C07 - range queries return exactly the overlapping / contained / clipped rows.

E1: every ordered pair (rows table, query table) of interval multisets on a small grid x chromosome
layouts x index variants, through by_ranges / iter_ranges_of / intersection / in_ranges / into_ranges in
every mode; every table through in_range / in_ranges over every (chrom, start, end) incl. None.
Oracle: brute-force selection by the definitions of outer / inner / trim.
"""
import itertools
import math

import numpy as np

from checks.common import GA, intervals, make_ga, multisets, rows_of, sort_rows
from checks.c06 import MOTIF_NAMES, lay_out, shape_of
from mc.engine import Exc
from models import intervals as M

ID = "C07"
BUDGET = {"quick": 900, "thorough": 7200}
CASE_TIMEOUT = 3600

# (extra rows for a, extra rows for b, chromosome of the grid rows in a, in b)
LAYOUTS = {
    "same": ([], [], "1", "1"),
    "both+2": ([("2", 1, 3)], [("2", 0, 2)], "1", "1"),
    "a+2": ([("2", 1, 3)], [], "1", "1"),
    "b+2": ([], [("2", 0, 2)], "1", "1"),
    "a+0": ([("0", 1, 3)], [], "1", "1"),
    "b+0": ([], [("0", 0, 2)], "1", "1"),
    "disjoint": ([], [], "1", "2"),
}
MODES = ("outer", "inner", "trim")


def describe(tier):
    t = tier == "thorough"
    return {
        "rule": "every ordered pair (table a, query table b) of sorted interval multisets on the grid x chromosome layouts x "
        "{default index, filtered (non-default) index}; by_ranges x 3 modes x keep_empty, iter_ranges_of x 2 modes x keep_empty, "
        "intersection x 3 modes, in_ranges with the query starts/ends, into_ranges on a string and a float column and with a "
        "supplied function; every table through in_range / in_ranges for every (chrom given/None, start None/0..n, end None/0..n). "
        "state = canonical (a, b, layout, index variant); non-trivial = at least one query selects at least one row",
        "bound": {
            "pairs": ("<=2 rows x <=2 queries over 0..4, all 7 layouts, both index variants; <=2 x <=3 over 0..6 (layout same, by_ranges + into_ranges)")
            if t
            else "<=2 rows x <=2 queries over 0..4 (layout same, default index); over 0..3 for the 6 other layouts and the non-default index",
            "single_table": "in_range / in_ranges on every multiset of <=2 (quick) / <=3 (thorough) rows over 0..4",
            "composed": "motif tables: a <=2 motifs x b <=1 motif x shifts {0,1,3}" + (" and b <=2 motifs" if t else ""),
        },
        "alphabet": {"layouts": list(LAYOUTS), "modes": list(MODES), "columns": ["gene:str", "val:float"]},
        "assumptions": [
            "tables are sorted (the quantifier's precondition); in_range/in_ranges with chrom=None only on single-chromosome tables",
            "iter_ranges_of is claimed for inner/outer (it has no coordinates to trim)",
            "into_ranges with an integer column or a non-callable summary is outside the statement",
        ],
    }


def cases(tier):
    t = tier == "thorough"
    tabs4 = multisets(intervals(4), 2)
    tabs3 = multisets(intervals(3), 2)
    for a in multisets(intervals(4), 3 if t else 2):
        yield {"check": "single", "a": a}
    for a in tabs4:
        yield {"check": "pairs", "n": 4, "a": a, "layout": "same", "index": "default", "ops": "all"}
    small = tabs4 if t else tabs3
    n_small = 4 if t else 3
    for a in small:
        yield {"check": "pairs", "n": n_small, "a": a, "layout": "same", "index": "filtered", "ops": "all"}
    for layout in LAYOUTS:
        if layout == "same":
            continue
        for index in ("default", "filtered") if layout == "both+2" or t else ("default",):
            for a in small:
                yield {"check": "pairs", "n": n_small, "a": a, "layout": layout, "index": index, "ops": "all"}
    for a in tabs4:
        if a:
            yield {"check": "edited", "a": a}
    seqs = []
    for k in (1, 2):
        seqs += list(itertools.product(MOTIF_NAMES, repeat=k))
    for a in seqs:
        yield {"check": "composed", "a": a, "bmax": 2 if t else 1}
    if t:
        for a in multisets(intervals(6), 2):
            yield {"check": "pairs", "n": 6, "kb": 3, "a": a, "layout": "same", "index": "default", "ops": "core"}


def run(case, ctx):
    if case["check"] == "single":
        run_single(case, ctx)
    elif case["check"] == "pairs":
        run_pairs(case, ctx)
    elif case["check"] == "composed":
        run_composed(case, ctx)
    elif case["check"] == "edited":
        run_edited(case, ctx)
    else:
        raise ValueError(case["check"])


# --------------------------------------------------------------------------------------------
def build(rows, index):
    """Table with gene + val columns; 'filtered' = same rows but index labels 1..n (first row of a
    longer table dropped), so label-vs-position confusion shows."""
    if index == "default":
        return make_ga(rows, "gv")
    pad = [("!", 0, 1)] + list(rows)  # '!' sorts before every other name
    ga, full = make_ga(pad, "gv")
    sub = ga.as_dataframe(ga.data.iloc[1:])
    return sub, full[1:]


def feat(a_full, b_rows):
    nested = shape_of(a_full) == "nested"
    return ("a-nested" if nested else "a-simple") + "/" + ("b-" + shape_of(b_rows))


def cmp(ctx, clause, key, want, got, sub):
    if isinstance(got, Exc):
        ctx.violation(clause, f"{key}/raises/{got.key}", expected=want, observed=got, sub=sub)
        return
    ctx.trace()
    ctx.outcome(hash(repr(got)))
    if got != want:
        ctx.violation(clause, key, expected=want, observed=got, sub=sub)


def check_pair(ctx, a, a_full, b, b_rows, ops, sub, layout_key):
    f = feat(a_full, b_rows)
    q3 = [tuple(q[:3]) for q in b_rows]
    sel = {m: [M.select(a_full, q, m) for q in q3] for m in MODES}
    any_hit = any(sel["outer"][i] for i in range(len(q3)))
    any_empty = {m: any(not s for s in sel[m]) for m in MODES}
    for mode in MODES:
        for keep in (True, False):
            if not keep and not any_empty[mode] and ops != "all":
                continue
            want = [(q, s) for q, s in zip(q3, sel[mode]) if keep or s]
            got = ctx.call(lambda: [(tuple(_py(x) for x in q[:3]), rows_of(s)) for q, s in a.by_ranges(b, mode=mode, keep_empty=keep)])
            cmp(
                ctx,
                f"by_ranges({mode}) yields for each query, in order, exactly the {mode} rows in table order",
                f"by_ranges/{mode}/keep={keep}/{layout_key}/{f}",
                want,
                got,
                {**sub, "mode": mode, "keep_empty": keep},
            )
        if ops == "core":
            continue
        if mode != "trim":
            for keep in (True, False):
                want = [[r[3] for r in s] for s in sel[mode] if keep or s]
                got = ctx.call(lambda: [list(x.values) for x in a.iter_ranges_of(b, "gene", mode=mode, keep_empty=keep)])
                cmp(
                    ctx,
                    f"iter_ranges_of({mode}) yields the column values of exactly the {mode} rows per query",
                    f"iter_ranges_of/{mode}/keep={keep}/{layout_key}/{f}",
                    want,
                    got,
                    {**sub, "mode": mode, "keep_empty": keep},
                )
        want = [r for s in sel[mode] for r in s]
        got = ctx.call(lambda: rows_of(a.intersection(b, mode=mode)))
        cmp(
            ctx,
            f"intersection({mode}) is the concatenation, query by query, of exactly the {mode} rows",
            f"intersection/{mode}/{layout_key}/{f}/{'empty-result' if not want else 'nonempty'}",
            want,
            got,
            {**sub, "mode": mode},
        )
        if len({q[0] for q in q3}) == 1 and b_rows:
            chrom = q3[0][0]
            got = ctx.call(lambda: rows_of(a.in_ranges(chrom, [q[1] for q in q3], [q[2] for q in q3], mode=mode)))
            cmp(
                ctx,
                f"in_ranges({mode}) concatenates the selections of all given ranges",
                f"in_ranges/{mode}/{layout_key}/{f}",
                want,
                got,
                {**sub, "mode": mode, "chrom": chrom},
            )
    # into_ranges
    # a supplied summary that is not the identity on one element: a single hit still yields the value itself
    for col, default, func, fname in (("gene", "-", None, "none"), ("val", -1.0, None, "none"), ("val", -1.0, max, "max"), ("val", -1.0, _count100, "count")):
        if ops == "core" and col != "gene":
            continue
        ci = 3 if col == "gene" else 4
        want = []
        for s in sel["outer"]:
            vals = [r[ci] for r in s]
            if not vals:
                want.append(default)
            elif len(vals) == 1:
                want.append(vals[0])
            elif func is not None:
                want.append(func(vals))
            elif col == "gene":
                want.append(",".join(dict.fromkeys(vals)))
            else:
                want.append(float(np.median(vals)))
        got = ctx.call(lambda: _values(a.into_ranges(b, col, default, func)))
        src = "empty-source" if not a_full else "source"
        cmp(
            ctx,
            "into_ranges returns one value per query range: default / the single value / the summary",
            f"into_ranges/{col}/{fname}/{layout_key}/{src}/{f}",
            want,
            got,
            {**sub, "column": col, "summary_func": fname},
        )
    return any_hit


def _count100(vals):
    return 100.0 * len(vals)


def _values(res):
    """One value per query range; an empty result of any container type is the empty list."""
    if len(res) == 0:
        return []
    return [_py(x) for x in list(res)]


def _py(x):
    return x.item() if isinstance(x, np.generic) else x


def run_pairs(case, ctx):
    n, layout, index = case["n"], case["layout"], case["index"]
    ea, eb, ca, cb = LAYOUTS[layout]
    a_rows = [(ca, s, e) for s, e in case["a"]] + ea
    a, a_full = build(a_rows, index)
    lk = f"{layout}/{index}"
    for bt in multisets(intervals(n), case.get("kb", 2)):
        b_rows = sort_rows([(cb, s, e) for s, e in bt] + eb)
        b, b_full = make_ga(b_rows, "g")
        hit = check_pair(ctx, a, a_full, b, b_full, case["ops"], {"b": b_rows}, lk)
        ctx.state(("pair", case["a"], bt, layout, index, n), nontrivial=hit)
        ctx.stratum("nested-path" if shape_of(a_full) == "nested" and b_rows else "simple-path")
        if len({r[0] for r in a_rows}) == 1 and {r[0] for r in a_rows} == {r[0] for r in b_rows}:
            ctx.stratum("single-chromosome-shortcut")
        if not a_rows or not b_rows:
            ctx.stratum("empty-table")
    ctx.sample("pairs", {"a": a_rows, "b_last": b_rows, "layout": layout, "index": index})


def run_composed(case, ctx):
    a_rows = lay_out(case["a"], 1000)
    a, a_full = make_ga(a_rows, "gv")
    bseqs = []
    for k in range(1, case["bmax"] + 1):
        bseqs += list(itertools.product(MOTIF_NAMES, repeat=k))
    for bn in bseqs:
        for shift in (0, 1, 3):
            b_rows = sort_rows(lay_out(bn, 1000, shift))
            b, b_full = make_ga(b_rows, "g")
            hit = check_pair(ctx, a, a_full, b, b_full, "core", {"b": b_rows}, "composed")
            ctx.state(("composed", case["a"], bn, shift), nontrivial=hit)
            ctx.stratum("composed-" + ("nested-path" if shape_of(a_full) == "nested" else "simple-path"))
    ctx.sample("composed", {"a": a_rows})


def run_single(case, ctx):
    """in_range / in_ranges for every (chrom, start, end) incl. None, on one- and two-chromosome tables."""
    for extra in ([], [("2", 1, 3)]):
        for index in ("default", "filtered"):
            a_rows = [("1", s, e) for s, e in case["a"]] + extra
            if not a_rows:
                continue
            a, a_full = build(a_rows, index)
            chroms = ["1"] + ([None] if not extra and case["a"] else []) + (["2"] if extra else [])
            f = "a-nested" if shape_of(a_full) == "nested" else "a-simple"
            hit = False
            for chrom in chroms:
                crow = [r for r in a_full if chrom is None or r[0] == chrom]
                for s in [None, 0, 1, 2, 3, 4]:
                    for e in [None, 0, 1, 2, 3, 4, 5]:
                        if s is not None and e is not None and not s < e:
                            continue
                        if e == 0:
                            continue
                        qs = -math.inf if s is None else s
                        qe = math.inf if e is None else e
                        for mode in MODES:
                            if mode == "outer":
                                want = [r for r in crow if r[1] < qe and r[2] > qs]
                            elif mode == "inner":
                                want = [r for r in crow if r[1] >= qs and r[2] <= qe]
                            else:
                                want = [
                                    (r[0], r[1] if s is None else max(r[1], s), r[2] if e is None else min(r[2], e)) + tuple(r[3:])
                                    for r in crow
                                    if r[1] < qe and r[2] > qs
                                ]
                            hit = hit or bool(want)
                            sub = {"extra": extra, "index": index, "chrom": chrom, "start": s, "end": e, "mode": mode}
                            bound = ("start-none" if s is None else "start") + "/" + ("end-none" if e is None else "end")
                            got = ctx.call(lambda: rows_of(a.in_range(chrom, s, e, mode=mode)))
                            cmp(ctx, f"in_range({mode}) returns exactly the {mode} rows of the range", f"in_range/{mode}/{bound}/{f}/{index}", want, got, sub)
                            got = ctx.call(
                                lambda: rows_of(a.in_ranges(chrom, None if s is None else [s], None if e is None else [e], mode=mode))
                            )
                            cmp(ctx, f"in_ranges({mode}) returns exactly the {mode} rows of the range", f"in_ranges1/{mode}/{bound}/{f}/{index}", want, got, sub)
                            ctx.stratum(f"bounds-{bound}")
            ctx.state(("single", case["a"], bool(extra), index), nontrivial=hit)
    ctx.sample("single", {"a": case["a"]})


EDITS = ("none", "values", "shift", "widen")
EDIT_QUERIES = [(None, None), (0, 2), (1, 3), (2, 5)]


def run_edited(case, ctx):
    """query -> in-place edit of the same array through its public column assignment -> query again: the second answer
    must be the rows of the table as it is now."""
    for extra in ([], [("2", 1, 3)]):
        a_rows = [("1", s, e) for s, e in case["a"]] + extra
        for first in ("in_range", "in_ranges"):
            for edit in EDITS:
                for chrom in ["1"] + (["2"] if extra else []):
                    a, a_full = build(a_rows, "default")
                    if first == "in_range":
                        ctx.call(lambda: a.in_range(chrom, None, None))
                    else:
                        ctx.call(lambda: a.in_ranges(chrom, [0], [2]))
                    cur = [tuple(r) for r in a_full]
                    if edit == "values":
                        a["val"] = a["val"] + 10.0
                        cur = [r[:4] + (r[4] + 10.0,) for r in cur]
                    elif edit == "shift":
                        a["start"] = a["start"] + 1
                        a["end"] = a["end"] + 1
                        cur = [(r[0], r[1] + 1, r[2] + 1) + r[3:] for r in cur]
                    elif edit == "widen":
                        a["end"] = a["end"] + 1
                        cur = [(r[0], r[1], r[2] + 1) + r[3:] for r in cur]
                    crow = [r for r in cur if r[0] == chrom]
                    f = "a-nested" if shape_of(cur) == "nested" else "a-simple"
                    for s, e in EDIT_QUERIES:
                        qs = -math.inf if s is None else s
                        qe = math.inf if e is None else e
                        for mode in MODES:
                            if mode == "outer":
                                want = [r for r in crow if r[1] < qe and r[2] > qs]
                            elif mode == "inner":
                                want = [r for r in crow if r[1] >= qs and r[2] <= qe]
                            else:
                                want = [(r[0], r[1] if s is None else max(r[1], s), r[2] if e is None else min(r[2], e)) + tuple(r[3:]) for r in crow if r[1] < qe and r[2] > qs]
                            sub = {"extra": extra, "first_query": first, "edit": edit, "chrom": chrom, "start": s, "end": e, "mode": mode}
                            got = ctx.call(lambda: rows_of(a.in_range(chrom, s, e, mode=mode)))
                            cmp(ctx, f"in_range({mode}) returns exactly the {mode} rows the table holds now", f"edited/in_range/{mode}/after-{first}+{edit}/{f}", want, got, sub)
                            got = ctx.call(lambda: rows_of(a.in_ranges(chrom, None if s is None else [s], None if e is None else [e], mode=mode)))
                            cmp(ctx, f"in_ranges({mode}) returns exactly the {mode} rows the table holds now", f"edited/in_ranges/{mode}/after-{first}+{edit}/{f}", want, got, sub)
                    ctx.state(("edited", case["a"], bool(extra), first, edit, chrom), nontrivial=edit != "none")
                ctx.stratum(f"edited-{edit}")
    ctx.sample("edited", {"a": case["a"]})


MANIFEST = {
    "text": "Bounded-exhaustive exploration of the real range-query methods: every ordered pair of sorted interval multisets on a "
    "small grid, across seven chromosome layouts (shared, missing from either side, disjoint) and default / filtered row "
    "indexes, through by_ranges, iter_ranges_of, intersection, in_range(s) and into_ranges in every mode, compared row for "
    "row with brute-force selection by the definitions of outer/inner/trim. The nested-row mask path, the binary-search "
    "path, the single-chromosome shortcut and empty tables are counted strata. Histories on one array (a query, an in-place edit of "
    "coordinates or values through column assignment, every query again) are judged against the rows the table holds afterwards. Exhaustive inside the bound.",
    "note": "Trusted: pandas/numpy; brute-force oracle (a list comprehension per mode). Not covered: unsorted tables, tables "
    "beyond the bound, into_ranges on integer columns / non-callable summaries.",
    "technique": "exhaustive enumeration of (table, query table) pairs on the real code against a brute-force selection oracle; stateless enumeration of query / in-place edit / query histories on one array",
}

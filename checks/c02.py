"""C02 - threshold calls are a monotone step function of log2; cn1 + cn2 = cn.

E1.  Five exhaustive spaces, the real `cnvlib.call.do_call(method="threshold")` / `absolute_threshold` run on every element:

* step      every threshold vector of the bound (the default - implicit and explicit -, the documented 12-vector, every
            non-empty increasing subset of a grid, a few special shapes and containers) x ploidy 1..6 x chr/plain naming x
            reference sex, on a table holding - for each chromosome class autosome / X / Y - the log2 alphabet *derived from
            that vector*: every threshold, both float neighbours, +-1e-9, midpoints, points below the first, every point
            where r*2^log2 crosses an integer with both float neighbours and quarter points between, a missing value.
            Oracle: count of thresholds strictly below, haploid rescale and truncation, ceil above the last, missing -> r.
* monotone  default thresholds (argument omitted), a dyadic log2 lattice: cn never decreases along increasing log2 on any
            chromosome class (ploidy >= 2, see assumptions) and is 2 at log2 0 on a diploid autosome.
* allelic   a `baf` column in the input: every (log2 point, BAF value) x purity x ploidy x reference sex x sample sex x naming
            x index labels; cn1 + cn2 = cn, 0 <= cn1, cn2 <= cn, both missing exactly where BAF is missing and cn > 0.
* variants  the same clauses with a real VariantArray argument (one variant record or none inside each segment), where the
            purity rescale takes BAF outside [0, 1].
* edge      empty, one-row and all-missing tables: the number of rows never changes.
"""
import inspect
import itertools
import math

from checks.common import np  # noqa: F401  (binds the tree under test before cnvlib is imported)
from cnvlib import call as CALL
from cnvlib.cnary import CopyNumArray as CNA
from cnvlib.vary import VariantArray as VA
from mc.engine import Exc
from models import calling as M

ID = "C02"
BUDGET = {"quick": 900, "thorough": 5400}
CASE_TIMEOUT = 600

NAN = float("nan")
# "the default thresholds": the statement defers to the implementation's default argument, so it is read from the signature
DOC_DEFAULT = (-1.1, -0.25, 0.2, 0.7)  # the documented vector, passed explicitly
try:
    DEFAULT = tuple(float(t) for t in inspect.signature(CALL.do_call).parameters["thresholds"].default)
except Exception:  # noqa: BLE001 - no readable default: fall back to the documented one
    DEFAULT = DOC_DEFAULT
DEFAULT_INCREASING = all(a < b for a, b in zip(DEFAULT, DEFAULT[1:])) and len(DEFAULT) > 0  # else: no step oracle for it, only the derived clauses
DOC12 = tuple(math.log2((i + 0.5) / 6) for i in range(12))
GRID_Q = [-2, -1.1, -0.75, -0.5, -0.25, 0, 0.2, 0.45, 0.7, 1.2]
GRID_T = [-3, -2, -1.1, -0.75, -0.5, -0.25, 0, 0.2, 0.45, 0.7, 1.0, 1.2]
PLOIDIES = [2, 1, 3, 4, 5, 6]  # the default first
K_MAX = 14
QUARTERS = (0.25, 0.5, 0.75)
KINDS = ("auto", "x", "y")
COLS = ["chromosome", "start", "end", "gene", "log2"]
VCOLS = ["chromosome", "start", "end", "ref", "alt", "alt_freq"]
BAF_Q = [NAN, 0.5, 0.0, 1.0, 0.1, 0.25, 0.4, 0.6, 0.75, 0.9]
PURITIES = [None, 0.5, 0.8, 1.0, 0.3]
ALLELIC_VECTORS = ["default-implicit", "doc12", "single-zero", "wide-pair"]


def baf_alphabet(tier):
    if tier != "thorough":
        return list(BAF_Q)
    out = [NAN] + [k / 100 for k in sorted(range(101), key=lambda k: (abs(k - 50), k))]
    out += [1.0 / 3, 2.0 / 3, math.nextafter(0.5, 0.0), math.nextafter(0.5, 1.0), math.nextafter(1.0, 0.0), math.nextafter(0.0, 1.0)]
    return out


# --------------------------------------------------------------------------------------------
# threshold vectors.  A vector spec is JSON-able: {"name", "thresholds" (list or None = argument omitted), "container"}


def special_vectors():
    d = list(DOC_DEFAULT)
    return [
        {"name": "default-implicit", "thresholds": None, "container": "omitted"},
        {"name": "default", "thresholds": d, "container": "tuple"},
        {"name": "default-list", "thresholds": d, "container": "list"},
        {"name": "default-ndarray", "thresholds": d, "container": "ndarray"},
        {"name": "single-zero", "thresholds": [0.0], "container": "tuple"},
        {"name": "ints", "thresholds": [-1, 0, 1], "container": "tuple"},
        {"name": "wide-pair", "thresholds": [-30.0, 30.0], "container": "tuple"},
        {"name": "ulp-spaced-at-0", "thresholds": [math.nextafter(0.0, -1.0), 0.0, math.nextafter(0.0, 1.0)], "container": "tuple"},
        {"name": "ulp-spaced-at-0.2", "thresholds": [math.nextafter(0.2, -1.0), 0.2, math.nextafter(0.2, 1.0)], "container": "tuple"},
        {"name": "doc12", "thresholds": list(DOC12), "container": "tuple"},
        {"name": "doc12-ndarray", "thresholds": list(DOC12), "container": "ndarray"},
    ]


def grid_vectors(tier):
    grid = GRID_T if tier == "thorough" else GRID_Q
    for n in range(1, len(grid) + 1):
        for sub in itertools.combinations(grid, n):
            yield {"name": "grid", "thresholds": [float(t) for t in sub], "container": "tuple"}


def vector_by_name(name):
    for v in special_vectors():
        if v["name"] == name:
            return v
    raise KeyError(name)


def as_argument(vec):
    """(thresholds as passed to the implementation, thresholds as the oracle sees them)."""
    th = vec["thresholds"]
    if th is None:
        return None, list(DEFAULT)
    c = vec["container"]
    arg = tuple(th) if c == "tuple" else list(th) if c == "list" else np.array(th, dtype=float)
    return arg, [float(t) for t in th]


def describe(tier):
    t = tier == "thorough"
    grid = GRID_T if t else GRID_Q
    return {
        "rule": "step: every (threshold vector, ploidy, naming, reference sex) is one table through do_call(method='threshold') and "
        "absolute_threshold; the table holds the log2 alphabet derived from the vector on each of autosome / X / Y. monotone: every "
        "(ploidy, naming, reference sex) with the thresholds argument omitted on a dyadic log2 lattice. allelic: every (vector, ploidy, "
        "purity, naming, reference sex, sample sex, index) with every (log2 point, BAF) pair as a row. variants: the same with a real "
        "VariantArray. state = (vector, ploidy, naming, reference sex, chromosome class) for step, one row for the other spaces; "
        "non-trivial = the haploid rescale applies (step), a log2 next to a threshold (monotone), BAF present and cn > 0 or BAF "
        "missing (allelic), rescaled BAF outside [0,1] (variants)",
        "bound": {
            "threshold_vectors": f"default (argument omitted; tuple; list; ndarray), documented 12-vector log2((0..11+.5)/6) (tuple; ndarray), "
            f"[0], ints [-1,0,1], [-30,30], three adjacent floats at 0 and at 0.2, and every non-empty increasing subset of {grid} "
            f"({2 ** len(grid) - 1} vectors, lengths 1..{len(grid)})",
            "log2_per_vector": "t0-1, t0-30; each t, nextafter(t,+-inf), t+-1e-9; midpoints; last+1, last+10; for each candidate r and "
            "k = 1..14: log2(k/r) with both float neighbours and log2((k+d)/r), d in {.25,.5,.75}; one missing value",
            "ploidy": "1..6",
            "chromosome_classes": ["autosome (chr1/1)", "X", "Y"],
            "reference_sex": ["female", "male (is_haploid_x_reference)"],
            "naming": ["chr", "plain"],
            "monotone_lattice": "k/%d for |log2| <= %d, plus the derived alphabet of the default vector" % ((1024, 6) if t else (64, 5)),
            "baf": "missing, k/100 for k = 0..100, 1/3, 2/3, float neighbours of 0, 0.5, 1" if t else [None] + BAF_Q[1:],
            "purity": [None, 0.5, 0.8, 1.0, 0.3],
            "allelic_vectors": ALLELIC_VECTORS,
            "index": "allelic: default and shifted (labels 1..n); step: " + ("default and shifted" if t else "default (chr names) / shifted (plain names)"),
        },
        "alphabet": {
            "containers": ["omitted", "tuple", "list", "ndarray"],
            "functions": ["do_call", "absolute_threshold"],
            "baf_source": ["baf column in the input table", "VariantArray argument (0 or 1 record inside each segment)"],
        },
        "assumptions": [
            "'the default thresholds' are what the implementation declares (read from the signature of do_call: %r); the step oracle is applied "
            "to them only if they are strictly increasing, the derived clauses (non-decreasing, 2 at log2 0) in any case" % (DEFAULT,),
            "reference copies r: ploidy on an autosome and on X of a female reference; half of ploidy on Y and on X of a male reference. "
            "For odd ploidy 'half' is not defined by the statement: floor and ceil are both accepted, but one of them must explain every "
            "row of that chromosome in the table (missing log2 included)",
            "'truncated on chromosomes the reference carries in fewer copies' = floor(count * r / ploidy) where r < ploidy, the bare count where r = ploidy",
            "ceil(r*2^log2) is exact where it is decidable in rationals (whole-number log2, r = 0); elsewhere both k and k+1 are accepted "
            "when the float value is within 1e-11 (relative) of an integer k",
            "the derived clause 'cn never decreases with the default thresholds' is evaluated for ploidy 2..6 only: for ploidy 1 the defining "
            "clauses themselves give 3 on (0.2, 0.7] and ceil(2^log2) = 2 just above 0.7, so the two halves of the statement contradict each "
            "other there and the defining clause is the one kept (stratum monotone:ploidy-1-not-claimed)",
            "with a purity < 1 do_call rewrites log2 before thresholding; 'its log2' is then the log2 column of the output row",
            "'has no BAF' = the baf value of the input row is missing (column path) / no variant record lies inside the segment (VariantArray "
            "path; every record is placed strictly inside one segment, so range-edge semantics - property C07/C18 - play no role)",
            "an empty VariantArray or one without allele frequencies supplies no b-allele frequencies: not claimed",
            "do_call(filters=None, diploid_parx_genome=None); PAR handling is outside the quantifier",
            "copy numbers are judged on their value, not on the column dtype; the statement does not fix which allele is cn1, nor how cn is split",
            "the statement's 'random reals' are replaced by the dyadic lattice and the quarter points (nothing is sampled)",
        ],
    }


# --------------------------------------------------------------------------------------------
# alphabets


def chrom_name(kind, naming):
    base = {"auto": "1", "x": "X", "y": "Y"}[kind]
    return ("chr" + base) if naming == "chr" else base


def rclass(kind, ploidy, male_ref):
    cands = M.reference_candidates(kind, ploidy, male_ref)
    if len(cands) > 1:
        return "half-of-odd-ploidy"
    return "r=ploidy" if cands[0] == ploidy else "r<ploidy"


def log2_points(thr, rcands, dense=True):
    """Sorted distinct finite log2 values derived from a threshold vector and the candidate reference copies."""
    thr = sorted(thr) if len(thr) else list(DOC_DEFAULT)  # (only a broken default vector is unsorted or empty)
    pts = {thr[0] - 1.0, thr[0] - 30.0, thr[-1] + 10.0, thr[-1] + 1.0}
    for t in thr:
        pts.update((t, math.nextafter(t, -math.inf), math.nextafter(t, math.inf)))
        if dense:
            pts.update((t - 1e-9, t + 1e-9))
    for a, b in zip(thr, thr[1:]):
        pts.add((a + b) / 2)
    for r in rcands:
        if not r:
            continue
        for k in range(1, K_MAX + 1):
            v = math.log2(k / r)
            if dense:
                pts.update((v, math.nextafter(v, -math.inf), math.nextafter(v, math.inf)))
                for d in QUARTERS:
                    pts.add(math.log2((k + d) / r))
            else:
                pts.add(math.log2((k + 0.5) / r))
    return sorted(p for p in pts if math.isfinite(p))


def build(rows, cols, index):
    """CopyNumArray from rows; 'shifted' = the same rows with index labels 1..n (a longer table minus its first row)."""
    if index == "default" or not rows:
        return CNA.from_rows(rows, columns=cols)
    pad = [(rows[0][0], 0, 1, "pad", 0.0) + tuple(0.5 for _ in cols[5:])] + list(rows)
    full = CNA.from_rows(pad, columns=cols)
    return full.as_dataframe(full.data.iloc[1:])


def step_indexes(tier, naming="chr"):
    """thorough: both row-index variants for every table; quick: the default index for the chr-named tables and the shifted
    one (labels 1..n) for the plainly named ones, at no extra cost."""
    if tier == "thorough":
        return ("default", "shifted")
    return ("default",) if naming == "chr" else ("shifted",)


def lay_out(per_kind, naming, extra=None, interleave=False):
    """rows (chromosome-grouped, coordinates increasing) and info [(kind, value...)] from {kind: [values]}; a value is the log2
    or a tuple whose first element is the log2 and whose rest becomes extra columns.  interleave: the same rows dealt round-robin
    over the chromosomes (a table assembled through the API need not keep a chromosome's rows together)."""
    rows, info = [], []
    for kind in KINDS:
        for i, item in enumerate(per_kind.get(kind, [])):
            tup = item if isinstance(item, tuple) else (item,)
            rows.append((chrom_name(kind, naming), 1000 + 1000 * i, 1500 + 1000 * i, "G%d" % len(rows)) + tup)
            info.append((kind,) + tup)
    if interleave:
        order = sorted(range(len(rows)), key=lambda j: (rows[j][1], KINDS.index(info[j][0])))
        rows, info = [rows[j] for j in order], [info[j] for j in order]
    return rows, info


# --------------------------------------------------------------------------------------------
def cases(tier):
    for ploidy in PLOIDIES:
        yield {"check": "edge", "ploidy": ploidy}
    for ploidy in PLOIDIES:
        for naming in ("chr", "plain"):
            for male_ref in (False, True):
                yield {"check": "monotone", "ploidy": ploidy, "naming": naming, "male_reference": male_ref}
    for vec in special_vectors():
        for ploidy in PLOIDIES:
            yield {"check": "step", "vector": vec, "ploidy": ploidy}
    for name in ALLELIC_VECTORS:
        for purity in PURITIES:
            for ploidy in PLOIDIES:
                yield {"check": "allelic", "vector": name, "purity": purity, "ploidy": ploidy}
    for name in ALLELIC_VECTORS[:2]:
        for purity in PURITIES:
            for ploidy in PLOIDIES:
                yield {"check": "variants", "vector": name, "purity": purity, "ploidy": ploidy}
    for vec in grid_vectors(tier):
        for ploidy in PLOIDIES:
            yield {"check": "step", "vector": vec, "ploidy": ploidy}


def run(case, ctx):
    {"edge": run_edge, "monotone": run_monotone, "step": run_step, "allelic": run_allelic, "variants": run_variants}[case["check"]](case, ctx)


# --------------------------------------------------------------------------------------------
# oracle application


def basic(ctx, out, rows, what, keybase, sub, need=("cn",)):
    """A result, the same number of rows, every input segment present, the columns asked for.  Returns the output frame with
    its rows in the order of the input (the statement promises no row order; a segment is identified by its coordinates)."""
    if isinstance(out, Exc):
        ctx.violation(f"{what} returns a result on an in-scope table", f"{keybase}/raises/{out.key}", observed=out, sub=sub)
        return None
    ctx.trace()
    df = out.data
    if len(df) != len(rows):
        ctx.violation("the number of rows never changes", f"{keybase}/row-count", expected=len(rows), observed=len(df), sub=sub)
        return None
    coords = list(zip(df["chromosome"].tolist(), df["start"].tolist(), df["end"].tolist()))
    want = [tuple(r[:3]) for r in rows]
    if coords != want:
        pos = {c: i for i, c in enumerate(coords)}
        if len(pos) != len(coords) or set(pos) != set(want):
            ctx.violation("every segment of the input is a row of the output", f"{keybase}/segments-not-preserved", observed=coords[:5], sub=sub)
            return None
        ctx.stratum("output-rows-reordered")
        df = df.iloc[[pos[c] for c in want]]
    for col in need:
        if col not in df.columns:
            ctx.violation(f"a {col} column is reported", f"{keybase}/no-{col}-column", observed=list(df.columns), sub=sub)
            return None
    return df


def point_kind(v, thr):
    """Finding-key feature of a log2 value relative to the vector."""
    reg = M.threshold_region(v, thr)
    if reg in ("nan", "at-threshold"):
        return reg
    for t in thr:
        if v == math.nextafter(t, math.inf):
            return "next-float-to-threshold" if reg != "above-last" else "above-last"
        if v == math.nextafter(t, -math.inf):
            return "next-float-to-threshold"
    return reg


def judge_step(ctx, fn, values, logs, kinds, thr, ploidy, male_ref, keybase, sub_of, implicit=False):
    """Compare one column of copy numbers with the step function.  values/logs/kinds are parallel lists.  For a chromosome whose
    r is 'half of an odd ploidy' one candidate must explain all its rows.  Returns {kind: r used} for the kinds that passed."""
    used = {}
    if implicit and not DEFAULT_INCREASING:
        ctx.stratum("default-vector-not-increasing:step-oracle-not-applicable")
        return used
    for kind in KINDS:
        idx = [j for j, k in enumerate(kinds) if k == kind]
        if not idx:
            continue
        cands = M.reference_candidates(kind, ploidy, male_ref)
        rc = rclass(kind, ploidy, male_ref)
        best = None
        for r in cands:
            wrong = []
            for j in idx:
                want = M.threshold_cn_strict(logs[j], thr, r, ploidy)
                got = values[j]
                if not (got == got and float(got).is_integer() and int(got) in want):
                    wrong.append((j, want))
            if best is None or len(wrong) < len(best[1]):
                best = (r, wrong)
            if not wrong:
                break
        r, wrong = best
        if not wrong:
            used[kind] = r
            continue
        for j, want in wrong:
            v = logs[j]
            pk = point_kind(v, thr)
            if pk == "above-last":
                val = r * 2.0**v
                pk += ":integer" if len(M.ceil_integers(val, 1e-9)) == 2 else ":off-integer"
            clause = (
                "a missing log2 yields the neutral reference copy number"
                if pk == "nan"
                else "above the last threshold cn = ceil(r*2^log2)"
                if pk.startswith("above-last")
                else "cn = number of thresholds strictly below log2 (times r/ploidy, truncated, where r < ploidy)"
            )
            path = keybase.split("/", 1)  # "step" or "step/purity<1" (log2 rewritten before thresholding)
            key = f"step/{fn}/{pk}/{rc}" + ("/" + path[1] if len(path) > 1 else "")
            ctx.violation(clause, key, expected=sorted(want), observed=values[j], sub=sub_of(j, r))
    return used


def record_rows(ctx, values, logs, kinds, thr):
    seen = set()
    for got, v, kind in zip(values, logs, kinds):
        reg = M.threshold_region(v, thr)
        ctx.stratum("region:" + reg)
        seen.add((kind, reg, got if got == got else None))
    for o in sorted(seen, key=repr):
        ctx.outcome(o)


# --------------------------------------------------------------------------------------------
def run_step(case, ctx):
    vec, ploidy = case["vector"], case["ploidy"]
    arg, thr = as_argument(vec)
    ctx.stratum("container:" + vec["container"])
    ctx.stratum("vector-length:%02d" % len(thr))
    tables = 0
    for naming in ("chr", "plain"):
        for male_ref in (False, True):
            per_kind = {}
            for kind in KINDS:
                pts = log2_points(thr, M.reference_candidates(kind, ploidy, male_ref))
                per_kind[kind] = pts[: len(pts) // 2] + [NAN] + pts[len(pts) // 2 :]
            for interleave in ((False, True) if ctx.tier == "thorough" else (male_ref,)):
                rows, info = lay_out(per_kind, naming, interleave=interleave)
                ctx.stratum("step-rows:" + ("chromosomes interleaved" if interleave else "chromosome-grouped"))
                kinds = [i[0] for i in info]
                logs = [i[1] for i in info]
                for index in step_indexes(ctx.tier, naming):
                    cna = build(rows, COLS, index)
                    cfg = {"naming": naming, "male_reference": male_ref, "index": index}
                    ctx.stratum("step-index:" + index)

                    def sub_of(j, r, cfg=cfg, rows=rows):
                        return {**cfg, "row": list(rows[j]), "r": r, "thresholds_below": sum(1 for t in thr if t < rows[j][4])}

                    if arg is None:
                        out = ctx.call(CALL.do_call, cna, None, "threshold", ploidy, None, male_ref)
                    else:
                        out = ctx.call(CALL.do_call, cna, None, "threshold", ploidy, None, male_ref, False, None, None, arg)
                    df = basic(ctx, out, rows, "do_call(threshold)", "step/do_call", cfg)
                    if df is not None:
                        cns = df["cn"].tolist()
                        judge_step(ctx, "do_call", cns, logs, kinds, thr, ploidy, male_ref, "step", sub_of, arg is None)
                        record_rows(ctx, cns, logs, kinds, thr)
                    if naming == "chr" and index == "default" and not interleave:
                        # history: the table just called is renamed in place to the other naming style and called again
                        # (both the table handed in and the table handed back are renamed and called again)
                        again = ctx.call(CALL.do_call, cna.copy(), None, "threshold", ploidy, None, male_ref)
                        if isinstance(again, Exc):
                            again = cna.copy()
                        again["chromosome"] = [chrom_name(k, "plain") for k in kinds]
                        out2 = ctx.call(CALL.do_call, again, None, "threshold", ploidy, None, male_ref) if arg is None else ctx.call(CALL.do_call, again, None, "threshold", ploidy, None, male_ref, False, None, None, arg)
                        rows2 = [(chrom_name(k, "plain"),) + tuple(r[1:]) for k, r in zip(kinds, rows)]
                        df2 = basic(ctx, out2, rows2, "do_call(threshold) after renaming", "step-renamed/do_call", cfg)
                        if df2 is not None:
                            judge_step(ctx, "do_call", df2["cn"].tolist(), logs, kinds, thr, ploidy, male_ref, "step-renamed", sub_of, arg is None)
                        ctx.stratum("step-history: called, chromosomes renamed in place to the other style, called again")
                    h = ctx.call(CALL.absolute_threshold, cna, ploidy, arg if arg is not None else DEFAULT, male_ref)
                    if isinstance(h, Exc):
                        ctx.violation("absolute_threshold returns a result", f"step/absolute_threshold/raises/{h.key}", observed=h, sub=cfg)
                    elif len(h) != len(rows):
                        ctx.violation("the number of rows never changes", "step/absolute_threshold/row-count", expected=len(rows), observed=len(h), sub=cfg)
                    else:
                        ctx.trace()
                        judge_step(ctx, "absolute_threshold", [float(x) for x in h], logs, kinds, thr, ploidy, male_ref, "step", sub_of, arg is None)
                    for kind in KINDS:
                        rc = rclass(kind, ploidy, male_ref)
                        ctx.state(("step", vec["thresholds"], vec["container"], ploidy, naming, male_ref, index, kind), nontrivial=rc != "r=ploidy")
                        ctx.stratum("step-class:" + kind + "/" + rc)
                    tables += 1
    ctx.sample("step", {"case": case, "tables": tables, "rows_per_table": len(rows), "first_rows": [list(r) for r in rows[:3]]})


# --------------------------------------------------------------------------------------------
def run_monotone(case, ctx):
    ploidy, naming, male_ref = case["ploidy"], case["naming"], case["male_reference"]
    thr = list(DEFAULT)
    den, lim = (1024, 6) if ctx.tier == "thorough" else (64, 5)
    per_kind = {}
    for kind in KINDS:
        pts = set(log2_points(thr, M.reference_candidates(kind, ploidy, male_ref)))
        pts.update(k / den for k in range(-lim * den, lim * den + 1))
        per_kind[kind] = sorted(pts)
    rows, info = lay_out(per_kind, naming)
    kinds = [i[0] for i in info]
    logs = [i[1] for i in info]
    cna = build(rows, COLS, "default")
    cfg = {"naming": naming, "male_reference": male_ref}

    def sub_of(j, r):
        return {**cfg, "row": list(rows[j]), "r": r}

    # everything defaulted except what the case varies
    if ploidy == 2 and not male_ref:
        out = ctx.call(CALL.do_call, cna)
        ctx.stratum("monotone:all-arguments-defaulted")
    else:
        out = ctx.call(CALL.do_call, cna, ploidy=ploidy, is_haploid_x_reference=male_ref)
    df = basic(ctx, out, rows, "do_call()", "monotone/do_call", cfg)
    if df is None:
        return
    cns = df["cn"].tolist()
    judge_step(ctx, "do_call", cns, logs, kinds, thr, ploidy, male_ref, "step", sub_of, True)
    near = set()
    for t in thr:
        near.update((t, math.nextafter(t, -math.inf), math.nextafter(t, math.inf)))
    seen = set()
    for j, (kind, v) in enumerate(zip(kinds, logs)):
        ctx.state(("mono", ploidy, naming, male_ref, kind, v), nontrivial=v in near)
        seen.add((kind, cns[j]))
    for o in sorted(seen):
        ctx.outcome(o)
    for kind in KINDS:
        idx = [j for j, k in enumerate(kinds) if k == kind]  # already in increasing log2
        rc = rclass(kind, ploidy, male_ref)
        drops = [(a, b) for a, b in zip(idx, idx[1:]) if cns[b] < cns[a]]
        if ploidy == 1:
            ctx.stratum("monotone:ploidy-1-not-claimed")
            if drops:
                ctx.stratum("monotone:ploidy-1-observed-decrease/" + kind)
            continue
        ctx.stratum("monotone-claimed:" + kind + "/" + rc, len(idx))
        for a, b in drops[:3]:
            ctx.violation(
                "with the default thresholds cn never decreases as log2 increases",
                f"monotone/decrease/{point_kind(logs[b], thr)}/{rc}",
                expected=f">= {cns[a]}",
                observed=cns[b],
                sub={**cfg, "lower_row": list(rows[a]), "higher_row": list(rows[b]), "cn_lower": cns[a], "cn_higher": cns[b]},
            )
    if ploidy == 2:
        zero = [j for j, (k, v) in enumerate(zip(kinds, logs)) if k == "auto" and v == 0.0]
        if len(zero) != 1:
            raise AssertionError("the lattice must hold log2 = 0 once on the autosome")
        ctx.stratum("neutral:diploid-autosome-at-log2-0")
        if cns[zero[0]] != 2:
            ctx.violation(
                "with the default thresholds cn is 2 at log2 0 on a diploid autosome", "monotone/neutral-at-zero", expected=2, observed=cns[zero[0]], sub={**cfg, "row": list(rows[zero[0]])}
            )
    ctx.sample("monotone", {"case": case, "rows": len(rows), "levels_autosome": sorted({cns[j] for j, k in enumerate(kinds) if k == "auto"})})


# --------------------------------------------------------------------------------------------
def baf_kind(b):
    if b != b:
        return "missing"
    if b < 0.0 or b > 1.0:
        return "outside-0-1"
    return "in-0-1"


def judge_allelic(ctx, df, has_baf, bafs_for_key, source, sub_of, claimed=None):
    """The allelic clauses on every row.  source = column | variants (where the BAF came from); the finding key names the clause,
    the source, the kind of BAF value and whether cn is 0 - not the sub-check, so one cause gives the same few keys everywhere."""
    cns = df["cn"].tolist()
    c1 = df["cn1"].tolist()
    c2 = df["cn2"].tolist()
    seen = set()
    for j in range(len(cns)):
        if claimed is not None and not claimed[j]:
            continue
        bk = baf_kind(bafs_for_key[j])
        czero = "cn=0" if cns[j] == 0 else "cn>0"
        ctx.stratum(f"allelic:{'baf' if has_baf[j] else 'no-baf'}/{czero}")
        if bk == "outside-0-1":
            ctx.stratum("allelic:baf-outside-0-1")
        bad = M.allelic_clauses(cns[j], c1[j], c2[j], has_baf[j])
        seen.add((cns[j], None if M.is_missing(c1[j]) else c1[j], None if M.is_missing(c2[j]) else c2[j]))
        for name in bad:
            clause = {
                "sum": "cn1 + cn2 = cn",
                "range": "0 <= cn1, cn2 <= cn",
                "not-missing-without-baf": "cn1 and cn2 are both missing where the segment has no BAF and cn > 0",
                "missing-with-baf-or-cn0": "cn1 and cn2 are present where the segment has a BAF or cn = 0",
            }[name]
            ctx.violation(clause, f"allelic/{name}/{source}/baf-{bk}/{czero}", expected={"cn": cns[j], "has_baf": has_baf[j]}, observed={"cn1": c1[j], "cn2": c2[j]}, sub=sub_of(j))
    for o in sorted(seen, key=repr):
        ctx.outcome(o)


def purity_kind(p):
    return "no-purity" if p is None else ("purity=1" if p >= 1.0 else "purity<1")


def run_allelic(case, ctx):
    vec = vector_by_name(case["vector"])
    purity, ploidy = case["purity"], case["ploidy"]
    arg, thr = as_argument(vec)
    bafs = baf_alphabet(ctx.tier)
    rescaled = purity is not None and purity < 1.0
    pk = purity_kind(purity)
    fems = (False, True) if rescaled else (False,)
    for naming in ("chr", "plain"):
        for male_ref in (False, True):
            per_kind = {}
            for kind in KINDS:
                pts = log2_points(thr, M.reference_candidates(kind, ploidy, male_ref), dense=False) + [NAN]
                per_kind[kind] = [(v, b) for v in pts for b in bafs]
            rows, info = lay_out(per_kind, naming)
            kinds = [i[0] for i in info]
            in_bafs = [i[2] for i in info]
            has_baf = [b == b for b in in_bafs]
            for fem in fems:
                for index in ("default", "shifted"):
                    cna = build(rows, COLS + ["baf"], index)
                    cfg = {"naming": naming, "male_reference": male_ref, "female_sample": fem, "index": index}

                    def sub_of(j, r=None, cfg=cfg, rows=rows):
                        return {**cfg, "row": list(rows[j])} | ({"r": r} if r is not None else {})

                    if arg is None:
                        out = ctx.call(CALL.do_call, cna, None, "threshold", ploidy, purity, male_ref, fem)
                    else:
                        out = ctx.call(CALL.do_call, cna, None, "threshold", ploidy, purity, male_ref, fem, None, None, arg)
                    df = basic(ctx, out, rows, "do_call(threshold, baf column)", f"allelic/column/{pk}", cfg, need=("cn", "cn1", "cn2"))
                    if df is None:
                        continue
                    ctx.stratum("allelic-path:column/" + pk)
                    ctx.stratum("index:" + index)
                    out_logs = df["log2"].tolist()
                    cns = df["cn"].tolist()
                    # cn itself is the step function of the row's (possibly rewritten) log2
                    judge_step(ctx, "do_call", cns, out_logs, kinds, thr, ploidy, male_ref, "step" + ("/purity<1" if rescaled else ""), sub_of, arg is None)
                    judge_allelic(ctx, df, has_baf, in_bafs, "column", sub_of)
                    for j, (kind, v, b) in enumerate(info):
                        ctx.state(("allelic", case["vector"], purity, ploidy, male_ref, fem, kind, v, b), nontrivial=(b != b) or cns[j] > 0)
    ctx.sample("allelic", {"case": case, "rows": len(rows), "first_rows": [list(r) for r in rows[:3]]})


def run_variants(case, ctx):
    vec = vector_by_name(case["vector"])
    purity, ploidy = case["purity"], case["ploidy"]
    arg, thr = as_argument(vec)
    bafs = baf_alphabet("quick")  # the allele frequency of the one record inside a segment; NaN = no record
    rescaled = purity is not None and purity < 1.0
    pk = purity_kind(purity)
    fems = (False, True) if rescaled else (False,)
    for naming in ("chr", "plain"):
        for male_ref in (False, True):
            per_kind = {}
            for kind in KINDS:
                pts = log2_points(thr, M.reference_candidates(kind, ploidy, male_ref), dense=False) + [NAN]
                per_kind[kind] = [(v, b) for v in pts for b in bafs]
            rows5, info = lay_out({k: [(v,) for v, _ in per_kind[k]] for k in KINDS}, naming)
            kinds = [i[0] for i in info]
            freqs = [b for k in KINDS for _, b in per_kind[k]]
            has_baf = [b == b for b in freqs]
            vrows = [(r[0], r[1] + 10, r[1] + 11, "A", "C", b) for r, b in zip(rows5, freqs) if b == b]
            varr = VA.from_rows(vrows, columns=VCOLS)
            for fem in fems:
                cna = build(rows5, COLS, "default")
                cfg = {"naming": naming, "male_reference": male_ref, "female_sample": fem}

                def sub_of(j, r=None, cfg=cfg, rows5=rows5, freqs=freqs):
                    d = {**cfg, "segment": list(rows5[j]), "variant_alt_freq_inside": None if freqs[j] != freqs[j] else freqs[j]}
                    return d | ({"r": r} if r is not None else {})

                if arg is None:
                    out = ctx.call(CALL.do_call, cna, varr, "threshold", ploidy, purity, male_ref, fem)
                else:
                    out = ctx.call(CALL.do_call, cna, varr, "threshold", ploidy, purity, male_ref, fem, None, None, arg)
                df = basic(ctx, out, rows5, "do_call(threshold, variants)", f"allelic/variants/{pk}", cfg, need=("cn", "cn1", "cn2"))
                if df is None:
                    continue
                ctx.stratum("allelic-path:variants/" + pk)
                out_logs = df["log2"].tolist()
                # the rescaled BAF is read back only to classify findings and strata (it is not demanded)
                out_bafs = df["baf"].tolist() if "baf" in df.columns else list(freqs)
                cns = df["cn"].tolist()
                judge_step(ctx, "do_call", cns, out_logs, kinds, thr, ploidy, male_ref, "step" + ("/purity<1" if rescaled else ""), sub_of, arg is None)
                judge_allelic(ctx, df, has_baf, out_bafs, "variants", sub_of)
                for j, (kind, v) in enumerate(info):
                    ob = out_bafs[j]
                    ctx.state(("variants", case["vector"], purity, ploidy, naming, male_ref, fem, kind, v, freqs[j]), nontrivial=ob == ob and (ob < 0 or ob > 1))
    ctx.sample("variants", {"case": case, "segments": len(rows5), "variant_records": len(vrows), "first_variant": list(vrows[0])})


# --------------------------------------------------------------------------------------------
def run_edge(case, ctx):
    ploidy = case["ploidy"]
    thr = list(DEFAULT)
    tables = []
    for naming in ("chr", "plain"):
        tables.append(("empty", naming, []))
        for kind in KINDS:
            for v in (0.0, NAN, -5.0, 5.0):
                for b in (NAN, 0.5, 1.0):
                    tables.append(("one-row", naming, [(chrom_name(kind, naming), 100, 200, "G", v, b)]))
        tables.append(("all-missing", naming, [(chrom_name(kind, naming), 100 + 1000 * i, 200 + 1000 * i, "G", NAN, NAN) for kind in KINDS for i in range(3)]))
    for label, naming, rows in tables:
        for with_baf in (False, True):
            if not with_baf and label == "one-row" and rows[0][5] == rows[0][5]:
                continue  # without the baf column the BAF value is not part of the table: keep one representative
            cols = COLS + (["baf"] if with_baf else [])
            use = [r[: len(cols)] for r in rows]
            for male_ref in (False, True):
                cna = CNA.from_rows(use, columns=cols)
                cfg = {"table": label, "naming": naming, "male_reference": male_ref, "baf_column": with_baf, "rows": [list(r) for r in use]}
                out = ctx.call(CALL.do_call, cna, None, "threshold", ploidy, None, male_ref)
                need = ("cn", "cn1", "cn2") if with_baf else ("cn",)
                df = basic(ctx, out, use, "do_call(threshold)", f"edge/{label}", cfg, need=need)
                ctx.state(("edge", ploidy, label, naming, male_ref, with_baf, [list(r) for r in use]), nontrivial=label != "one-row")
                ctx.stratum("edge:" + label + ("/baf" if with_baf else ""))
                if df is None:
                    continue
                kinds = [M.chrom_kind(r[0]) for r in use]
                logs = [r[4] for r in use]
                judge_step(ctx, "do_call", df["cn"].tolist(), logs, kinds, thr, ploidy, male_ref, "step", lambda j, r, cfg=cfg: {**cfg, "r": r}, True)
                ctx.outcome((label, df["cn"].tolist()))
                if with_baf:
                    judge_allelic(ctx, df, [r[5] == r[5] for r in use], [r[5] for r in use], "column", lambda j, cfg=cfg: cfg)
                h = ctx.call(CALL.absolute_threshold, cna, ploidy, DOC_DEFAULT, male_ref)
                if isinstance(h, Exc):
                    ctx.violation("absolute_threshold returns a result", f"edge/{label}/absolute_threshold/raises/{h.key}", observed=h, sub=cfg)
                elif len(h) != len(use):
                    ctx.violation("the number of rows never changes", f"edge/{label}/absolute_threshold/row-count", expected=len(use), observed=len(h), sub=cfg)
                else:
                    ctx.trace()
    ctx.sample("edge", {"case": case, "tables": len(tables)})


MANIFEST = {
    "text": "Bounded-exhaustive exploration of the real do_call(method='threshold') and absolute_threshold: every threshold vector of the "
    "bound (default - argument omitted and explicit, as tuple/list/ndarray -, the documented 12-vector, every non-empty increasing subset "
    "of a 10-point (quick) / 12-point (thorough) grid, adjacent-float and integer vectors) x ploidy 1..6 x autosome/X/Y x reference sex x "
    "chr/plain naming, on the log2 alphabet derived from each vector (every threshold, its float neighbours, +-1e-9, midpoints, every "
    "point where r*2^log2 crosses an integer with its float neighbours and the quarter points, a missing value). Oracle: count of "
    "thresholds strictly below, times r/ploidy truncated where r < ploidy, ceil(r*2^log2) above the last, missing -> r, rows unchanged; "
    "with the defaults cn non-decreasing on a dyadic lattice and 2 at log2 0 on a diploid autosome. Allelic clauses (cn1 + cn2 = cn, "
    "0 <= cn1, cn2 <= cn, both missing exactly where BAF is missing and cn > 0) on every (log2 point, BAF) pair x purity x ploidy x "
    "sexes x naming x index labels, through a baf column and through a real VariantArray whose rescaled BAF leaves [0,1]. Exhaustive inside the bound.",
    "note": "Trusted: pandas/numpy, CopyNumArray/VariantArray.from_rows as table builders, models/calling.py (two formulations of the step "
    "function cross-checked in selftest/calling.py and selftest/calling_c02.py). Left open: what 'half of an odd ploidy' is (floor or ceil, "
    "consistently per chromosome), ceil at float-noise distance from an integer, which allele is cn1 and how cn is split, dtypes. The "
    "monotonicity clause is evaluated for ploidy >= 2 (for ploidy 1 it contradicts the defining clauses: 3 below 0.7, ceil(2^log2) = 2 above). "
    "Not covered: thresholds off the grid, ploidy > 6, diploid-PAR genomes, filters=, VariantArrays without allele frequencies or with several records per segment (C18).",
    "technique": "exhaustive enumeration of threshold vectors x configurations with vector-derived boundary alphabets on the real code, independent step-function model as oracle; call / rename-in-place / call-again history on every step table",
}

"""Reference model for the export formats (property C20).  Plain Python; no cnvlib / skgenome / pandas import.

Re-derived from the statement:

* a segment's copy number is its `cn` when the table carries that column, else the nearest integer to r*2^log2
  (r = copies of its chromosome in the reference; models/calling.py) with exact ties open;
* the copy number *expected* for a segment is the germline one of its chromosome under the ploidy and the sample's
  sex (x of models/calling.py); it does not depend on the reference sex;
* BED: 0-based coordinates + integer copy number of every segment (all) / of those whose copy number differs from
  the ploidy (ploidy) / from the expected one (variant);
* VCF: one record per segment of the `variant` kind and no other; POS = start (1 where start is 0), END = end,
  SVTYPE/ALT DEL below and DUP above the expected copy number, SVLEN = -(end-start) / +(end-start), CN of the
  sample field = the copy number for gains;
* SEG: each sample's segments under its sample ID, start + 1, end, probe count, mean;
* CDT / JTV / Nexus: one row per bin, labelled with the bin, one log2 column per sample; differing bins refused.

Where the statement does not decide something the model keeps it open instead of guessing:

* "half of the ploidy" for odd ploidy (expected / reference copies of X in a male, of Y): `None`;
* which r applies inside a pseudo-autosomal region when the table has no `cn` column (the calling path without
  purity takes no PAR option -- property C01 -- while the expected copy number does): both r are admitted;
* bins that straddle a PAR edge: unclassified;
* exact .5 ties of r*2^log2: both neighbours.

A segment is a dict {"chrom", "start", "end", "log2", "probes", "cn" (optional)}.
"""
import math
import re

from models import calling as K

SHOWS = ("all", "ploidy", "variant")


# ---------------------------------------------------------------------------------------------
# copy numbers


def seg_class(seg, genome):
    return K.bin_class(seg["chrom"], seg["start"], seg["end"], genome)


def expected_copies(cls, ploidy, female_sample):
    """Germline copies x of a bin class for that sample sex, or None where the statement leaves it undefined."""
    for male_reference in (False, True):  # x does not depend on the reference sex; take whichever row of the table is defined
        rx = K.copies(cls, ploidy, male_reference, female_sample)
        if rx is not None:
            return rx[1]
    if cls == "y" and female_sample:
        return 0  # no Y in a female sample, whatever half of the ploidy is
    return None


def reference_candidates(cls, ploidy, male_reference):
    """Admissible reference copies r for the no-`cn` path: a set, or None when undefined (odd ploidy halves, straddling bins)."""
    if cls.endswith("-straddle"):
        return None
    kind = {"auto": "auto", "x": "x", "y": "y", "parx": "x", "pary": "y"}[cls]
    pure = K.reference_copies_pure(kind, ploidy, male_reference)  # the calling path that takes no PAR option
    if pure is None:
        return None
    out = {pure}
    if cls in ("parx", "pary"):
        rx = K.copies(cls, ploidy, male_reference, True)  # r of a PAR bin does not depend on the sample sex
        if rx is not None:
            out.add(rx[0])
    return out


def cn_candidates(seg, cls, ploidy, male_reference):
    """Set of admissible integer copy numbers of a segment, or None when the statement does not determine it."""
    if "cn" in seg:
        return {int(seg["cn"])}
    rs = reference_candidates(cls, ploidy, male_reference)
    if rs is None:
        return None
    out = set()
    for r in rs:
        out |= {int(v) for v in K.nearest_integers(r * 2.0 ** seg["log2"])}
    return out


class Cfg:
    """ploidy, reference sex, sample sex, diploid-PAR genome."""

    def __init__(self, ploidy, male_reference, female_sample, genome):
        self.ploidy, self.male_reference, self.female_sample, self.genome = ploidy, male_reference, female_sample, genome


def annotate(segments, cfg):
    """[(segment, class, cn candidates | None, expected | None)]"""
    out = []
    for seg in segments:
        cls = seg_class(seg, cfg.genome)
        out.append((seg, cls, cn_candidates(seg, cls, cfg.ploidy, cfg.male_reference), expected_copies(cls, cfg.ploidy, cfg.female_sample)))
    return out


def _selected(show, cn, ploidy, expected):
    """True / False / None (open) : does a segment with copy number cn belong to the listing?"""
    if show == "all":
        return True
    if show == "ploidy":
        return cn != ploidy
    if show == "variant":
        return None if expected is None else cn != expected
    raise ValueError(show)


# ---------------------------------------------------------------------------------------------
# BED


def check_bed(rows, segments, cfg, show):
    """rows: [(chrom, start, end, cn)] as listed by the implementation.  Returns [(clause, feature, expected, observed)]."""
    problems = []
    ann = {(s["chrom"], s["start"], s["end"]): (s, cls, cands, exp) for s, cls, cands, exp in annotate(segments, cfg)}
    seen = {}
    for row in rows:
        key = tuple(row[:3])
        if key not in ann:
            problems.append(("lists only the given segments, with their 0-based coordinates", "coords/unknown-row", sorted(ann), list(row)))
            continue
        seen[key] = seen.get(key, 0) + 1
        seg, cls, cands, exp = ann[key]
        feat = _feat(seg, cls)
        cn = row[3]
        if not _is_int(cn):
            problems.append(("the copy number listed is an integer", f"cn-not-integer/{_cn_feat(seg, cls)}", "an integer", repr(cn)))
            continue
        cn = int(cn)
        if cands is not None and cn not in cands:
            problems.append(("the copy number listed is the segment's copy number (cn, or round(r*2^log2))", f"cn/{_cn_feat(seg, cls)}", sorted(cands), cn))
            continue
        if _selected(show, cn, cfg.ploidy, exp) is False:
            problems.append((_bed_clause(show), f"extra-row/{feat}", "not listed", list(row)))
    for key, (seg, cls, cands, exp) in ann.items():
        n = seen.get(key, 0)
        feat = _feat(seg, cls)
        if n > 1:
            problems.append(("each segment is listed once", f"duplicate-row/{feat}", 1, n))
        if n == 0 and cands is not None:
            sel = [_selected(show, c, cfg.ploidy, exp) for c in sorted(cands)]
            if all(s is True for s in sel):
                problems.append((_bed_clause(show), f"missing-row/{feat}", [key[0], key[1], key[2], sorted(cands)], "not listed"))
    return problems


def _bed_clause(show):
    return {
        "all": "show=all lists every segment",
        "ploidy": "show=ploidy lists exactly the segments whose copy number differs from the ploidy",
        "variant": "show=variant lists exactly the segments whose copy number differs from the one expected for their chromosome and the sample's sex",
    }[show]


def _feat(seg, cls):
    """Finding-key feature of a membership clause: the bin class decides the expected copies."""
    return cls


def _cn_feat(seg, cls):
    """Finding-key feature of a copy-number clause: where the copy number comes from, and whether r is the autosomal one."""
    return ("cn-column" if "cn" in seg else "from-log2") + "/" + ("autosome" if cls == "auto" else "sex-chromosome")


def _is_int(v):
    if isinstance(v, bool):
        return False
    if isinstance(v, int):
        return True
    if isinstance(v, str):
        return re.fullmatch(r"-?\d+", v) is not None
    return False


def must_list(segments, cfg, show):
    """Number of segments the listing must contain / must not contain / may contain (for the accounting)."""
    must = mustnot = may = 0
    for seg, cls, cands, exp in annotate(segments, cfg):
        if cands is None:
            may += 1
            continue
        sel = [_selected(show, c, cfg.ploidy, exp) for c in cands]
        if all(s is True for s in sel):
            must += 1
        elif all(s is False for s in sel):
            mustnot += 1
        else:
            may += 1
    return must, mustnot, may


# ---------------------------------------------------------------------------------------------
# VCF


def parse_vcf(text):
    """(sample column names, [record dict]) from VCF text (meta lines '##' skipped).  Raises ValueError on a malformed body."""
    names, records = None, []
    for line in text.split("\n"):
        if not line or line.startswith("##"):
            continue
        f = line.split("\t")
        if line.startswith("#"):
            if f[:9] != ["#CHROM", "POS", "ID", "REF", "ALT", "QUAL", "FILTER", "INFO", "FORMAT"]:
                raise ValueError("VCF column line: " + line)
            names = f[9:]
            continue
        if len(f) < 10:
            raise ValueError("VCF record with %d fields: %s" % (len(f), line))
        info = {}
        for item in f[7].split(";"):
            k, _, v = item.partition("=")
            info[k] = v
        fmt_keys = f[8].split(":")
        sample = f[9].split(":")
        records.append(
            {
                "chrom": f[0],
                "pos": f[1],
                "alt": f[4],
                "info": info,
                "format": dict(zip(fmt_keys, sample)) if len(fmt_keys) == len(sample) else None,
                "line": line,
            }
        )
    if names is None:
        raise ValueError("no #CHROM line")
    return names, records


def check_vcf(records, segments, cfg):
    """records: parse_vcf output.  Returns [(clause, feature, expected, observed)]."""
    problems = []
    by_end = {}
    for s, cls, cands, exp in annotate(segments, cfg):
        by_end[(s["chrom"], str(s["end"]))] = (s, cls, cands, exp)
    seen = {}
    for rec in records:
        end = rec["info"].get("END")
        key = (rec["chrom"], end)
        if key not in by_end:
            problems.append(("every record is one of the given segments (chromosome, END = end)", "end/unknown-record", sorted(by_end), rec["line"]))
            continue
        seen[key] = seen.get(key, 0) + 1
        seg, cls, cands, exp = by_end[key]
        feat = _feat(seg, cls)
        start0 = "start0" if seg["start"] == 0 else "start>0"
        want_pos = 1 if seg["start"] == 0 else seg["start"]
        if rec["pos"] != str(want_pos):
            problems.append(("POS = start (1 where start is 0)", f"pos/{start0}", want_pos, rec["pos"]))
        svtype = rec["info"].get("SVTYPE")
        alt = rec["alt"].strip("<>")
        if svtype not in ("DEL", "DUP"):
            problems.append(("SVTYPE is DEL or DUP", f"svtype/{feat}", "DEL | DUP", svtype))
            continue
        if alt != svtype:
            problems.append(("ALT names the same event as SVTYPE", f"alt/{feat}", svtype, rec["alt"]))
        length = seg["end"] - seg["start"]
        want_len = -length if svtype == "DEL" else length
        if rec["info"].get("SVLEN") != str(want_len):
            problems.append(("SVLEN = -(end-start) for DEL, +(end-start) for DUP", f"svlen/{svtype}/{start0}", want_len, rec["info"].get("SVLEN")))
        # direction and membership
        if svtype == "DUP":
            cn = (rec["format"] or {}).get("CN")
            if cn is None or not _is_int(cn):
                problems.append(("the sample field carries the copy number for gains", f"cn-field-missing/{_cn_feat(seg, cls)}", "CN=<integer>", rec["line"].split("\t")[8:]))
                continue
            cn = int(cn)
            if cands is not None and cn not in cands:
                problems.append(("the sample field carries the copy number for gains", f"cn-field/{_cn_feat(seg, cls)}", sorted(cands), cn))
                continue
            if exp is not None and not cn > exp:
                problems.append(
                    ("DUP only when the copy number is above the expected one; neutral segments get no record", f"dup-not-above/{feat}", f"copy number > {exp}", cn)
                )
        else:
            if cands is not None and exp is not None and not any(c < exp for c in cands):
                problems.append(
                    ("DEL only when the copy number is below the expected one; neutral segments get no record", f"del-not-below/{feat}", f"copy number {sorted(cands)} vs expected {exp}", "DEL")
                )
    for key, (seg, cls, cands, exp) in by_end.items():
        n = seen.get(key, 0)
        feat = _feat(seg, cls)
        if n > 1:
            problems.append(("one record per segment", f"duplicate-record/{feat}", 1, n))
        if n == 0 and cands is not None and exp is not None and all(c != exp for c in cands):
            problems.append(
                ("one record for every segment whose copy number differs from the expected one", f"missing-record/{feat}", [seg["chrom"], seg["start"], seg["end"], sorted(cands), exp], "no record")
            )
    return problems


# ---------------------------------------------------------------------------------------------
# SEG


def seg_expected(samples):
    """samples: [(sample_id, [segment])] -> sorted list of (id, chrom, start+1, end, probes|None, mean)."""
    out = []
    for sid, segs in samples:
        for s in segs:
            out.append((sid, s["chrom"], s["start"] + 1, s["end"], s.get("probes"), s["log2"]))
    return sorted(out, key=_seg_key)


def _seg_key(r):
    return (str(r[0]), str(r[1]), int(r[2]), int(r[3]))


def check_seg(rows, samples, enumerated, rel_tol, claim_distinct=True):
    """rows: [(id, chrom, loc.start, loc.end, num.mark|None, seg.mean)] as written.  With `enumerated` the chromosome
    column holds the implementation's renumbering: only 'one name <-> one id' is then demanded of it."""
    problems = []
    want = seg_expected(samples)
    # match on (id, start, end, mean) first (chromosome handled separately in enumerated mode)
    strip = (lambda r: (str(r[0]), int(r[2]), int(r[3]))) if enumerated else (lambda r: (str(r[0]), str(r[1]), int(r[2]), int(r[3])))
    got_sorted = sorted(rows, key=lambda r: (strip(r), float(r[5])))
    want_sorted = sorted(want, key=lambda r: (strip(r), float(r[5])))
    if [strip(r) for r in got_sorted] != [strip(r) for r in want_sorted]:
        problems.append(
            (
                "each sample's segments are written under its sample ID with 1-based start and end",
                "rows/" + _seg_diff_feature(got_sorted, want_sorted),
                [list(r) for r in want_sorted],
                [list(r) for r in got_sorted],
            )
        )
        return problems
    mapping = {}
    for g, w in zip(got_sorted, want_sorted):
        if not _close(float(g[5]), w[5], rel_tol):
            problems.append(("each segment is written with its mean", "mean", w[5], g[5]))
        if w[4] is not None:
            if g[4] is None or not _close(float(g[4]), float(w[4]), 0):
                problems.append(("each segment is written with its probe count", "probes", w[4], g[4]))
        if enumerated:
            mapping.setdefault(w[1], set()).add(str(g[1]))
    if enumerated and claim_distinct:
        if any(len(v) > 1 for v in mapping.values()):
            problems.append(("with renumbering, one chromosome gets one id", "renumbering/one-name-two-ids", "a function", {k: sorted(v) for k, v in mapping.items()}))
        ids = [i for v in mapping.values() for i in v]
        if len(set(ids)) < len(ids):
            problems.append(
                ("with renumbering, different chromosomes stay different", "renumbering/chrom-collision", "distinct ids for distinct chromosomes", {k: sorted(v) for k, v in mapping.items()})
            )
    return problems


def _seg_diff_feature(got, want):
    if len(got) != len(want):
        return "row-count"
    for g, w in zip(got, want):
        if str(g[0]) != str(w[0]):
            return "sample-id"
        if int(g[2]) != int(w[2]):
            return "start"
        if int(g[3]) != int(w[3]):
            return "end"
    return "chrom"


def _close(a, b, rel_tol):
    if rel_tol == 0:
        return a == b
    return abs(a - b) <= rel_tol * max(abs(a), abs(b)) + 1e-12


# ---------------------------------------------------------------------------------------------
# per-bin tables (CDT, JTV, Nexus basic)


def bins_equal(a, b):
    """Same bins (chromosome, start, end), compared as sets; order is handled by the label-based oracle."""
    return sorted((r["chrom"], r["start"], r["end"]) for r in a) == sorted((r["chrom"], r["start"], r["end"]) for r in b) and len(a) == len(b)


def label_names_bin(label, b):
    """Does a row label identify this bin?  The text is open; it must start with the chromosome and carry start (0- or
    1-based) and end."""
    m = re.match(r"^(?P<c>[^:]+):(?P<s>\d+)-(?P<e>\d+)(?::.*)?$", str(label))
    if not m:
        return False
    return m.group("c") == b["chrom"] and int(m.group("e")) == b["end"] and int(m.group("s")) in (b["start"], b["start"] + 1)


def check_bin_table(header, rows, label_col, samples, rel_tol):
    """header: column names; rows: data rows (lists); samples: [(sample_id, [bin])] with equal bins and distinct ids
    (or duplicate ids: then both columns must be present).  Returns problems."""
    problems = []
    bins = samples[0][1]
    if len(rows) != len(bins):
        problems.append(("one row per bin", "row-count", len(bins), len(rows)))
        return problems
    if label_col not in header:
        problems.append(("each row carries the bin's label", "label-column", label_col, header))
        return problems
    li = header.index(label_col)
    # the sample columns, by name; a duplicated id must occur as often as given
    ids = [sid for sid, _ in samples]
    cols = {}
    for sid in ids:
        cols[sid] = [i for i, h in enumerate(header) if h == sid]
        if len(cols[sid]) != ids.count(sid):
            problems.append(("each sample's log2 is in its own column", "sample-column/" + ("duplicate-id" if ids.count(sid) > 1 else "missing"), ids, header))
            return problems
    used = set()
    for row in rows:
        if len(row) <= li:
            problems.append(("each row carries the bin's label", "label-column", label_col, list(row)))
            return problems
        hit = [k for k, b in enumerate(bins) if label_names_bin(row[li], b)]
        if len(hit) != 1 or hit[0] in used:
            problems.append(("each row carries the label of one bin, each bin once", "label", [(b["chrom"], b["start"], b["end"]) for b in bins], row[li]))
            return problems
        k = hit[0]
        used.add(k)
        for sid in dict.fromkeys(ids):
            want = sorted(_bin_of(sb, bins[k])["log2"] for s2, sb in samples if s2 == sid)
            try:
                got = sorted(float(row[i]) for i in cols[sid])
            except (TypeError, ValueError, IndexError):  # a row shorter than the header: a column was lost
                got = None
            if got is None or len(got) != len(want) or not all(_close(g, w, rel_tol) for g, w in zip(got, want)):
                problems.append(("each sample's column holds that sample's log2 of the row's bin", "value", {sid: want}, list(row)))
                return problems
    return problems


def _bin_of(bins, b):
    for x in bins:
        if (x["chrom"], x["start"], x["end"]) == (b["chrom"], b["start"], b["end"]):
            return x
    raise KeyError(b)


def finite(x):
    return isinstance(x, (int, float)) and not math.isnan(x) and not math.isinf(x)

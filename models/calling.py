"""Reference model for copy-number calling (properties C01 and C02).  Plain Python, no cnvlib import.

Everything here is a re-derivation from the property statements:

* the copy numbers r (reference) and x (patient germline) of a bin from its chromosome class, the ploidy,
  the reference sex, the sample sex and -- with a diploid-PAR genome -- the pseudo-autosomal regions;
* the mixing model  log2 = log2((p*n + (1-p)*x) / r)  and its closed-form inverse;
* the log2 a pure sample with n copies shows against that reference, floored at 0.001 of ploidy;
* nearest-integer calling with open ties;
* the threshold step function (count of thresholds strictly below, haploid rescale, ceil above the last).

"Half of ploidy" exists only for even ploidy; for odd ploidy the sex-chromosome copy numbers are undefined
here (`copies` returns None) and the checks claim nothing that needs them.
"""
import math

# Pseudo-autosomal regions as published by the Genome Reference Consortium (1-based inclusive):
#   GRCh37  PAR1  X:60,001-2,699,520        Y:10,001-2,649,520
#           PAR2  X:154,931,044-155,260,560  Y:59,034,050-59,363,566
#   GRCh38  PAR1  X:10,001-2,781,479        Y:10,001-2,781,479
#           PAR2  X:155,701,383-156,030,895  Y:56,887,903-57,217,415
# stored 0-based half-open.
PAR = {
    "grch37": {
        "x": [(60000, 2699520), (154931043, 155260560)],
        "y": [(10000, 2649520), (59034049, 59363566)],
    },
    "grch38": {
        "x": [(10000, 2781479), (155701382, 156030895)],
        "y": [(10000, 2781479), (56887902, 57217415)],
    },
}

FLOOR_FRACTION = 0.001  # "floored at 0.001 of ploidy"


def chrom_kind(chrom):
    """'x', 'y' or 'auto' from the chromosome name ('chrX'/'X' naming)."""
    c = chrom[3:] if chrom.startswith("chr") else chrom
    if c == "X":
        return "x"
    if c == "Y":
        return "y"
    return "auto"


def par_relation(kind, start, end, genome):
    """'inside' (bin wholly inside PAR1 or PAR2 of that chromosome), 'outside' (no base shared with either) or
    'straddle' (shares bases with a PAR without lying inside it; the statement does not classify those)."""
    if genome is None or kind not in ("x", "y"):
        return "outside"
    rel = "outside"
    for ps, pe in PAR[genome.lower()][kind]:
        if start >= ps and end <= pe:
            return "inside"
        if start < pe and end > ps:
            rel = "straddle"
    return rel


def bin_class(chrom, start, end, genome=None):
    """auto | x | y | parx | pary | x-straddle | y-straddle."""
    kind = chrom_kind(chrom)
    if kind == "auto":
        return "auto"
    rel = par_relation(kind, start, end, genome)
    if rel == "inside":
        return "par" + kind
    if rel == "straddle":
        return kind + "-straddle"
    return kind


def half(ploidy):
    """Half of ploidy where that is a whole number of chromosomes, else None."""
    return ploidy // 2 if ploidy % 2 == 0 else None


def copies(cls, ploidy, male_reference, female_sample):
    """(r, x) for a bin class, or None where the statement leaves it undefined.

    autosome -> (ploidy, ploidy); X -> r = ploidy/2 for a male reference else ploidy, x = ploidy for a female
    sample else ploidy/2; Y -> r = ploidy/2, x = 0 for a female sample else ploidy/2; PAR on X with a diploid-PAR
    genome -> autosomal; PAR on Y -> (0, 0) (reads there are mapped to X)."""
    if cls in ("auto", "parx"):
        return ploidy, ploidy
    if cls == "pary":
        return 0, 0
    h = half(ploidy)
    if cls == "x":
        if h is None and (male_reference or not female_sample):
            return None
        return (h if male_reference else ploidy), (ploidy if female_sample else h)
    if cls == "y":
        if h is None:
            return None
        return h, (0 if female_sample else h)
    return None  # straddling bins


def reference_copies_pure(kind, ploidy, male_reference):
    """r on the paths that take no sample sex and no PAR option (no purity; threshold)."""
    if kind == "auto" or (kind == "x" and not male_reference):
        return ploidy
    return half(ploidy)


def mixing_log2(n, p, r, x):
    """log2((p*n + (1-p)*x)/r); None where that is not a real number."""
    if not r:
        return None
    num = p * n + (1.0 - p) * x
    if num <= 0:
        return None
    return math.log2(num / r)


def invert_mixing(v, p, r, x):
    """Closed form n = (r*2^v - x*(1-p))/p."""
    return (r * 2.0**v - x * (1.0 - p)) / p


def invert_mixing_bisect(v, p, r, x, hi=64.0):
    """The same inverse by bisection of the (increasing) mixing function; used by selftest only."""
    lo = 0.0
    f = lambda n: (p * n + (1.0 - p) * x) / r - 2.0**v  # noqa: E731
    if f(lo) > 0:
        return lo
    for _ in range(200):
        mid = (lo + hi) / 2
        if f(mid) > 0:
            hi = mid
        else:
            lo = mid
    return (lo + hi) / 2


def pure_log2(n, ploidy, r):
    """log2 a pure sample with n copies shows against a reference with r copies, n floored at 0.001*ploidy."""
    if not r:
        return None
    return math.log2(max(n, FLOOR_FRACTION * ploidy) / r)


def nearest_integers(value, tie_tol=1e-9):
    """Set of acceptable nearest integers of a real value: both neighbours on an exact .5 tie."""
    lo = math.floor(value)
    frac = value - lo
    if abs(frac - 0.5) <= tie_tol * max(1.0, abs(value)):
        return {lo, lo + 1}
    return {lo + 1} if frac > 0.5 else {lo}


def ceil_integers(value, tol=1e-11):
    """Set of acceptable ceilings: both k and k+1 when the value is k up to float noise."""
    k = round(value)
    if abs(value - k) <= tol * max(1.0, abs(value)):
        return {k, k + 1}
    return {math.ceil(value)}


def threshold_cn(log2, thresholds, r, ploidy):
    """Acceptable cn values under the threshold method.

    missing log2 -> r; else the count of thresholds strictly below log2 -- times r/ploidy, truncated, where the
    reference carries fewer copies than ploidy --; above the last threshold ceil(r * 2^log2)."""
    if log2 is None or math.isnan(log2):
        return {r}
    below = sum(1 for t in thresholds if t < log2)
    if below == len(thresholds):
        return ceil_integers(r * 2.0**log2)
    if r < ploidy:
        return {(below * r) // ploidy}
    return {below}


def threshold_cn_scan(log2, thresholds, r, ploidy):
    """Second formulation (selftest): walk the sorted thresholds with bisect; exact rational truncation."""
    import bisect
    from fractions import Fraction

    if log2 is None or log2 != log2:
        return {r}
    i = bisect.bisect_left(list(thresholds), log2)  # thresholds[:i] < log2
    if i == len(thresholds):
        return ceil_integers(math.exp2(log2) * r)
    if r != ploidy:
        return {int(Fraction(i) * Fraction(r, ploidy))}
    return {i}


# ---------------------------------------------------------------------------------------------
# additions for C02 (threshold step function, allelic split); nothing above is changed


def haploid_candidates(ploidy):
    """What 'half of ploidy' may mean: the exact half for even ploidy; for odd ploidy the statement is silent, so
    either neighbour (the whole table must then be explained by ONE of them)."""
    return [ploidy // 2] if ploidy % 2 == 0 else [ploidy // 2, ploidy // 2 + 1]


def reference_candidates(kind, ploidy, male_reference):
    """Candidate r values on the paths without sample sex / PAR option: [ploidy] for an autosome and for X in a female
    reference, else the candidates for half of ploidy."""
    if kind == "auto" or (kind == "x" and not male_reference):
        return [ploidy]
    return haploid_candidates(ploidy)


def ceil_set(r, log2, tol=1e-11):
    """Acceptable values of ceil(r * 2^log2).

    Decided exactly in rationals where that is possible (r = 0; log2 a whole number, so 2^log2 is a rational); elsewhere
    r*2^log2 is irrational and the float value decides unless it is an integer up to float noise (then both)."""
    from fractions import Fraction

    if r == 0:
        return {0}
    if float(log2).is_integer() and abs(log2) < 1000:
        val = Fraction(r) * (Fraction(2) ** int(log2))
        return {math.ceil(val)}
    return ceil_integers(r * 2.0**log2, tol)


def threshold_cn_strict(log2, thresholds, r, ploidy):
    """threshold_cn with the ceiling decided exactly where it can be (ceil_set)."""
    if log2 is None or log2 != log2:
        return {r}
    below = 0
    for t in thresholds:
        if t < log2:
            below += 1
    if below == len(thresholds):
        return ceil_set(r, log2)
    if r < ploidy:
        return {(below * r) // ploidy}
    return {below}


def threshold_region(log2, thresholds):
    """Where a log2 value lies relative to a strictly increasing threshold vector (finding-key feature):
    nan | at-threshold | below-first | between | above-last."""
    if log2 is None or log2 != log2:
        return "nan"
    if any(t == log2 for t in thresholds):
        return "at-threshold"
    below = sum(1 for t in thresholds if t < log2)
    if below == 0:
        return "below-first"
    if below == len(thresholds):
        return "above-last"
    return "between"


def is_missing(v):
    return v is None or v != v


def allelic_clauses(cn, cn1, cn2, has_baf, tol=1e-9):
    """Names of the allelic clauses a (cn, cn1, cn2) triple breaks; [] if it satisfies the statement.

    'cn1 + cn2 = cn with 0 <= cn1, cn2 <= cn, both missing exactly where a segment has no BAF and cn > 0'."""
    m1, m2 = is_missing(cn1), is_missing(cn2)
    if (not has_baf) and cn > 0:
        return [] if (m1 and m2) else ["not-missing-without-baf"]
    if m1 or m2:
        return ["missing-with-baf-or-cn0"]
    bad = []
    if abs((cn1 + cn2) - cn) > tol:
        bad.append("sum")
    if not (-tol <= cn1 <= cn + tol and -tol <= cn2 <= cn + tol):
        bad.append("range")
    return bad

"""Reference model for C03: segments tile each chromosome and account for every surviving bin.

Pure Python on tuples and lists; nothing here imports cnvlib / skgenome / pandas.

A *bin* is a tuple (chromosome, start, end, gene, log2, depth, weight); a table is a list of bins grouped by
chromosome, sorted by start inside a chromosome, non-overlapping.  A *segment* is a dict with chromosome,
start, end, gene, log2, probes, weight, depth.

The model has three parts, each a literal reading of the statement:

* which bins survive the filters (`survivor_mask`): low coverage (log2 < -15 or depth 0) when `skip_low`;
  the outlier filter, which cannot act on a group of <= 50 bins and is otherwise *taken from the caller*
  (DESIGN section 4 rule 6); weight 0 (or < min_weight).  Filters act on the unit that is segmented together
  (a chromosome arm for the per-arm methods, the whole table for the HMM methods);
* where chromosome arms are (`arm_units`): a chromosome with more than 2*margin+1 bins, margin = max(50, 10 %),
  is cut at its largest gap between neighbouring bins that leaves more than `margin` bins on both sides, if
  that gap is >= 100 kb;
* the clauses (`check`), evaluated per chromosome on the reported segments.  It never builds segments; it only
  looks at which bins a reported segment contains / overlaps.  `ideal_none` is the constructive counterpart
  (the segmentation the statement prescribes for method `none`), used by selftest/segments.py to show that the
  clauses accept a correct answer and reject every single-field corruption of it.

What the statement leaves open stays open: the order of chromosomes in the output, the log2 of haar segments,
the number and position of breakpoints, dtype of `probes`, the depth of a segment whose weights sum to zero,
what (if anything) is reported for an arm or chromosome without a surviving bin, and weight / depth / gene of
a segment whose boundaries cut through a bin (containment and overlap then disagree about "spans").
"""
import math

CHROM, START, END, GENE, LOG2, DEPTH, WEIGHT = range(7)

IGNORED_NAMES = ("-", ".", "CGH", "Antitarget", "Background")
LOW_LOG2 = -15.0  # "null coverage": log2 below -20 - (-5)
OUTLIER_WIDTH = 50
MIN_GAP = 100000
MIN_ARM_BINS = 50
ARM_METHODS = ("none", "haar", "cbs")
MEAN_METHODS = ("none", "hmm", "hmm-tumor", "hmm-germline")
TOL = 1e-9


# ------------------------------------------------------------------------------------------------
# structure of the input


def chrom_groups(bins):
    """[(chromosome, [bin indices])] in order of first appearance."""
    order, groups = [], {}
    for i, b in enumerate(bins):
        if b[CHROM] not in groups:
            groups[b[CHROM]] = []
            order.append(b[CHROM])
        groups[b[CHROM]].append(i)
    return [(c, groups[c]) for c in order]


def arm_cut(starts, ends):
    """Index of the first bin of the second arm, or 0 if the chromosome is not split."""
    n = len(starts)
    margin = max(MIN_ARM_BINS, int(round(0.1 * n)))
    if n <= 2 * margin + 1:
        return 0
    best, best_gap = 0, None
    for i in range(1, n):
        if i > margin and n - i > margin:  # both arms keep more than `margin` bins
            gap = starts[i] - ends[i - 1]
            if best_gap is None or gap > best_gap:  # first of equal gaps
                best, best_gap = i, gap
    if best and best_gap >= MIN_GAP:
        return best
    return 0


def arm_units(bins):
    """[(chromosome, [bin indices])], one entry per chromosome arm."""
    out = []
    for chrom, idx in chrom_groups(bins):
        cut = arm_cut([bins[i][START] for i in idx], [bins[i][END] for i in idx])
        if cut:
            out.append((chrom, idx[:cut]))
            out.append((chrom, idx[cut:]))
        else:
            out.append((chrom, idx))
    return out


def whole_table_unit(bins):
    return [(None, list(range(len(bins))))]


# ------------------------------------------------------------------------------------------------
# survivors


def is_low(b):
    return b[LOG2] < LOW_LOG2 or b[DEPTH] == 0


def survivor_mask(bins, units, skip_low, min_weight, outlier_factor, outlier_fn=None):
    """keep[i] for every bin.  `units` = groups of bins that are filtered and segmented together.
    `outlier_fn(log2 values, factor) -> [bool]` is asked only about groups of more than 50 bins of one
    chromosome (smaller groups cannot lose a bin to the outlier filter)."""
    keep = [False] * len(bins)
    asked = 0
    for _name, idx in units:
        if skip_low:
            idx = [i for i in idx if not is_low(bins[i])]
        if outlier_factor:
            kept = []
            by_chrom = {}
            for i in idx:
                by_chrom.setdefault(bins[i][CHROM], []).append(i)
            for grp in by_chrom.values():
                if len(grp) > OUTLIER_WIDTH:
                    if outlier_fn is None:
                        raise ValueError("outlier mask needed for a group of %d bins" % len(grp))
                    mask = list(outlier_fn([bins[i][LOG2] for i in grp], outlier_factor))
                    asked += 1
                    if len(mask) != len(grp):
                        raise ValueError("outlier mask of wrong length")
                    kept += [i for i, m in zip(grp, mask) if not m]
                else:
                    kept += grp
            idx = sorted(kept)
        for i in idx:
            w = bins[i][WEIGHT]
            bad = (w < min_weight) if min_weight else (w == 0)
            if not bad and not (isinstance(w, float) and math.isnan(w)):
                keep[i] = True
    return keep, asked


# ------------------------------------------------------------------------------------------------
# aggregates the statement defines


def meaningful_genes(names):
    seen = []
    for g in names:
        if g not in IGNORED_NAMES and g not in seen:
            seen.append(g)
    return ",".join(seen) if seen else "-"


def weighted_mean(values, weights):
    tot = math.fsum(weights)
    if tot <= 0:
        return None
    return math.fsum(v * w for v, w in zip(values, weights)) / tot


def close(a, b, tol=TOL):
    if a is None or b is None:
        return True
    try:
        a, b = float(a), float(b)
    except (TypeError, ValueError):
        return False
    if math.isnan(a) or math.isnan(b):
        return False
    return abs(a - b) <= tol * max(1.0, abs(a), abs(b))


def ideal_none(bins, keep):
    """The segmentation the statement prescribes for method `none`: one segment per arm with a survivor."""
    out = []
    for chrom, idx in arm_units(bins):
        surv = [i for i in idx if keep[i]]
        if not surv:
            continue
        out.append(
            {
                "chromosome": chrom,
                "start": bins[idx[0]][START],
                "end": bins[idx[-1]][END],
                "gene": meaningful_genes(bins[i][GENE] for i in idx),
                "log2": weighted_mean([bins[i][LOG2] for i in surv], [bins[i][WEIGHT] for i in surv]),
                "probes": len(surv),
                "weight": math.fsum(bins[i][WEIGHT] for i in idx),
                "depth": weighted_mean([bins[i][DEPTH] for i in idx], [bins[i][WEIGHT] for i in idx]),
            }
        )
    return out


# ------------------------------------------------------------------------------------------------
# the clauses


def _edge_feature(idx, keep):
    """Which bins of a chromosome / arm were filtered: a coarse, deterministic input feature."""
    if all(keep[i] for i in idx):
        return "nothing-filtered"
    if not any(keep[i] for i in idx):
        return "all-filtered"
    first, last = not keep[idx[0]], not keep[idx[-1]]
    if first and last:
        return "both-edge-bins-filtered"
    if first:
        return "first-bin-filtered"
    if last:
        return "last-bin-filtered"
    return "interior-bin-filtered"


def check(bins, keep, segments, method, per_arm=None):
    """Evaluate every clause of the statement.  Returns a list of problems, each a dict with
    clause (text), cid (clause id), feature (input feature), expected, observed, where."""
    if per_arm is None:
        per_arm = method in ARM_METHODS
    problems = []

    def bad(cid, clause, feature, expected, observed, **where):
        problems.append({"cid": cid, "clause": clause, "feature": feature, "expected": expected, "observed": observed, "where": where})

    groups = chrom_groups(bins)
    known = {c for c, _ in groups}
    seg_by_chrom = {}
    for k, s in enumerate(segments):
        seg_by_chrom.setdefault(s["chromosome"], []).append((k, s))
    for c in seg_by_chrom:
        if c not in known:
            bad("chromosome", "segments are reported on chromosomes of the input bins", "unknown-chromosome", sorted(known), c, chromosome=c)
    arms = arm_units(bins) if per_arm else []

    for chrom, idx in groups:
        segs = [s for _k, s in seg_by_chrom.get(chrom, [])]
        feat = _edge_feature(idx, keep)
        span = (bins[idx[0]][START], bins[idx[-1]][END])
        coords = [(s["start"], s["end"]) for s in segs]
        # positive length, sorted, disjoint, within the span
        for s in segs:
            if not s["start"] < s["end"]:
                bad("positive-length", "segments have positive length", feat, "start < end", [s["start"], s["end"]], chromosome=chrom)
        for a, b in zip(coords, coords[1:]):
            if not a[0] <= b[0]:
                bad("sorted", "the segments reported on a chromosome are sorted", feat, sorted(coords), coords, chromosome=chrom)
                break
        srt = sorted(coords)
        for a, b in zip(srt, srt[1:]):
            if b[0] < a[1]:
                bad("disjoint", "segments on a chromosome do not overlap", feat, "end <= next start", [a, b], chromosome=chrom)
                break
        for s in segs:
            if s["start"] < span[0] or s["end"] > span[1]:
                bad("within-span", "segments stay within the span of the chromosome's input bins", feat, list(span), [s["start"], s["end"]], chromosome=chrom)
        # accounting
        surv = [i for i in idx if keep[i]]
        total = 0
        for i in surv:
            b = bins[i]
            n_in = sum(1 for s in segs if s["start"] <= b[START] and b[END] <= s["end"])
            if n_in != 1:
                bad(
                    "survivor-in-one-segment",
                    "every bin that survived filtering lies in exactly one segment",
                    feat if n_in else feat + "/uncovered",
                    1,
                    n_in,
                    chromosome=chrom,
                    bin=[b[START], b[END]],
                )
                break
        for s in segs:
            inside = [i for i in surv if s["start"] <= bins[i][START] and bins[i][END] <= s["end"]]
            total += len(inside)
            if not close(s["probes"], len(inside), 0):
                all_inside = [i for i in idx if s["start"] <= bins[i][START] and bins[i][END] <= s["end"]]
                f2 = "counts-all-input-bins" if close(s["probes"], len(all_inside), 0) and len(all_inside) != len(inside) else "other-count"
                bad("probes", "probes equals the number of surviving bins the segment contains", feat + "/" + f2, len(inside), s["probes"], chromosome=chrom, segment=[s["start"], s["end"]])
        if segs or surv:
            psum = math.fsum(float(s["probes"]) for s in segs)
            if not close(psum, len(surv), 0):
                bad("probes-sum", "probes sum to the number of surviving bins of the chromosome", feat, len(surv), psum, chromosome=chrom)
        if surv and not segs:
            bad("chromosome-has-segment", "every chromosome with a surviving bin has a segment", feat, ">= 1 segment", 0, chromosome=chrom)
        # aggregates
        for s in segs:
            over = [i for i in idx if bins[i][START] < s["end"] and s["start"] < bins[i][END]]
            cont = [i for i in idx if s["start"] <= bins[i][START] and bins[i][END] <= s["end"]]
            inside = [i for i in cont if keep[i]]
            where = {"chromosome": chrom, "segment": [s["start"], s["end"]]}
            sfeat = "segment-spans-filtered-bins" if len(inside) != len(over) else "segment-spans-only-survivors"
            if over == cont and over:
                wsum = math.fsum(bins[i][WEIGHT] for i in over)
                if not close(s["weight"], wsum):
                    w_surv = math.fsum(bins[i][WEIGHT] for i in inside)
                    f2 = "/sum-over-survivors-only" if close(s["weight"], w_surv) and not close(wsum, w_surv) else ""
                    bad("weight", "weight is the sum of the weights of all input bins the segment spans", sfeat + f2, wsum, s["weight"], **where)
                dmean = weighted_mean([bins[i][DEPTH] for i in over], [bins[i][WEIGHT] for i in over])
                if dmean is not None and not close(s["depth"], dmean):
                    bad("depth", "depth is the weight-averaged depth of all input bins the segment spans", sfeat, dmean, s["depth"], **where)
                genes = meaningful_genes(bins[i][GENE] for i in over)
                if s["gene"] != genes:
                    bad("gene", "gene lists the distinct meaningful names of the spanned input bins in order", sfeat, genes, s["gene"], **where)
            if method in MEAN_METHODS and inside:
                lmean = weighted_mean([bins[i][LOG2] for i in inside], [bins[i][WEIGHT] for i in inside])
                if lmean is not None and not close(s["log2"], lmean):
                    bad("log2", "log2 is the weight-averaged log2 of the segment's surviving bins", sfeat, lmean, s["log2"], **where)
    # arm endpoints
    for chrom, idx in arms:
        surv = [i for i in idx if keep[i]]
        if not surv:
            continue
        segs = [s for _k, s in seg_by_chrom.get(chrom, [])]
        mine = [s for s in segs if any(s["start"] <= bins[i][START] and bins[i][END] <= s["end"] for i in surv)]
        if not mine:
            continue  # reported by the accounting clauses
        first = min(s["start"] for s in mine)
        last = max(s["end"] for s in mine)
        a0, a1 = bins[idx[0]][START], bins[idx[-1]][END]
        if first != a0:
            bad(
                "arm-endpoint/first-segment-start",
                "the first segment of each arm starts at the arm's first input bin",
                "arm-first-bin-filtered" if not keep[idx[0]] else "arm-first-bin-kept",
                a0,
                first,
                chromosome=chrom,
                arm=[a0, a1],
            )
        if last != a1:
            bad(
                "arm-endpoint/last-segment-end",
                "the last segment of each arm ends at the arm's last input bin",
                "arm-last-bin-filtered" if not keep[idx[-1]] else "arm-last-bin-kept",
                a1,
                last,
                chromosome=chrom,
                arm=[a0, a1],
            )
    return problems

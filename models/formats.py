"""Reference model of the region-table file formats (C08).  Pure Python; never imports cnvlib/skgenome.

A *row* is a dict with at least chromosome (str), start, end (ints, 0-based half-open) and usually
gene (str); numeric extras ride along under their column names.  Every writer renders rows *in the
order given* according to the format's own published coordinate convention; every parser is written
separately (str.split and int(), no shared helper with the writers) and returns rows in file order,
again 0-based half-open.  selftest/formats.py checks parse(write(rows)) == rows on the whole alphabet.

Conventions (sources: UCSC BED, Picard interval_list, GFF3/GTF2, IGV SEG, VCF 4.2, Picard
CalculateHsMetrics PER_TARGET_COVERAGE, CNVkit's own tab files):
    BED, CNVkit tab          0-based half-open as written
    interval list            1-based closed:  file start = start + 1, file end = end
    chr:start-end text       1-based closed
    GFF3 / GTF               1-based closed, columns 4 and 5
    SEG                      1-based closed, loc.start / loc.end
    Picard HS per-target     1-based closed
    VCF                      POS is 1-based; INFO END is the 1-based closed end (= half-open end)
"""
import math
import re

# ------------------------------------------------------------------------------------------------
# natural chromosome order


def chrom_class(name):
    """('int', n) | ('X',) | ('Y',) | ('M',) | ('other',) after stripping one optional chr prefix."""
    core = name[3:] if name[:3].lower() == "chr" else name
    if core.isdigit():
        return ("int", int(core))
    if core in ("X", "Y", "M"):
        return (core,)
    return ("other",)


def chrom_rank(name):
    """Sort rank demanded by the statement: integers numerically, then X, Y, then M; every other
    name after those (their mutual order is left open -- the rank is shared)."""
    c = chrom_class(name)
    if c[0] == "int":
        return (0, c[1])
    return {"X": (1, 0), "Y": (1, 1), "M": (2, 0), "other": (3, 0)}[c[0]]


def is_canonical(name):
    return chrom_class(name)[0] != "other"


def sorted_rows(rows):
    """One valid sorted order: (rank, name among non-canonical names, start, end), stable."""
    return sorted(rows, key=lambda r: (chrom_rank(r["chromosome"]), r["chromosome"] if not is_canonical(r["chromosome"]) else "", r["start"], r["end"]))


def order_fault(coords):
    """None if the (chromosome, start, end) sequence is in an order the statement allows, else the
    name of the first level that is broken: 'not-grouped', 'chromosome-order', 'start-order', 'end-order'."""
    seen = []
    for c, _s, _e in coords:
        if not seen or seen[-1] != c:
            if c in seen:
                return "not-grouped"
            seen.append(c)
    ranks = [chrom_rank(c) for c in seen]
    for a, b in zip(ranks, ranks[1:]):
        if a > b:
            return "chromosome-order"
    for (c0, s0, e0), (c1, s1, e1) in zip(coords, coords[1:]):
        if c0 != c1:
            continue
        if s0 > s1:
            return "start-order"
        if s0 == s1 and e0 > e1:
            return "end-order"
    return None


# ------------------------------------------------------------------------------------------------
# numbers


def fnum(x):
    """Shortest text that round-trips a number (ints stay ints)."""
    if isinstance(x, int):
        return str(x)
    return repr(float(x))


def same_6_digits(want, got):
    """Numbers equal to 6 significant digits: |got - want| <= half a unit in the 6th digit of want."""
    want, got = float(want), float(got)
    if math.isnan(want) or math.isnan(got):
        return False
    if want == got:
        return True
    if want == 0.0:
        return False
    exp = math.floor(math.log10(abs(want)))
    return abs(got - want) <= 0.5000001 * 10.0 ** (exp - 5)


def close(want, got, rel=1e-9):
    want, got = float(want), float(got)
    if want == got:
        return True
    return abs(got - want) <= rel * max(abs(want), abs(got))


# ------------------------------------------------------------------------------------------------
# writers (0-based half-open rows -> text in the format's own convention)


def write_bed(rows, ncols=3, track=False):
    out = []
    if track:
        out.append('track name="model" description="model regions"\n')
    for r in rows:
        f = [r["chromosome"], str(r["start"]), str(r["end"])]
        if ncols >= 4:
            f.append(r.get("gene", "-"))
        if ncols >= 6:
            f += ["0", r.get("strand", "+")]
        out.append("\t".join(f) + "\n")
    return "".join(out)


def write_interval(rows, header=False):
    out = []
    if header:
        out.append("@HD\tVN:1.6\tSO:unsorted\n")
        names = []
        for r in rows:
            if r["chromosome"] not in names:
                names.append(r["chromosome"])
        for n in names:
            out.append("@SQ\tSN:%s\tLN:400000000\n" % n)
    for r in rows:
        out.append("%s\t%d\t%d\t%s\t%s\n" % (r["chromosome"], r["start"] + 1, r["end"], r.get("strand", "+"), r.get("gene", "-")))
    return "".join(out)


def write_text(rows, label=None):
    """label: None (bare chr:start-end), 'tab' or 'space' (label after that separator)."""
    out = []
    for r in rows:
        s = "%s:%d-%d" % (r["chromosome"], r["start"] + 1, r["end"])
        if label:
            s += ("\t" if label == "tab" else " ") + r.get("gene", "-")
        out.append(s + "\n")
    return "".join(out)


def write_gff(rows, flavor="gff3"):
    out = []
    if flavor == "gff3":
        out.append("##gff-version 3\n")
    for i, r in enumerate(rows):
        gene = r.get("gene", "-")
        if flavor == "gff3":
            attr = "ID=f%d;Name=%s;biotype=model" % (i, gene)
            typ = "gene"
        else:
            attr = 'gene_id "%s"; transcript_id "t%d";' % (gene, i)
            typ = "exon"
        score = "." if i % 2 == 0 else "0.5"
        out.append("\t".join([r["chromosome"], "model", typ, str(r["start"] + 1), str(r["end"]), score, r.get("strand", "+"), ".", attr]) + "\n")
    return "".join(out)


def write_seg(samples, probes=True, floatfmt=fnum, interleave=False):
    """samples: [(sample id, rows)]; rows carry log2 and (if probes) probes.  interleave: the samples' rows take
    turns (row 0 of every sample, then row 1 of every sample, ...) instead of one block per sample."""
    head = ["ID", "chrom", "loc.start", "loc.end"] + (["num.mark"] if probes else []) + ["seg.mean"]
    out = ["\t".join(head) + "\n"]
    if interleave:
        depth = max((len(rows) for _sid, rows in samples), default=0)
        order = [(sid, [rows[i]]) for i in range(depth) for sid, rows in samples if i < len(rows)]
    else:
        order = samples
    for sid, rows in order:
        for r in rows:
            f = [sid, r["chromosome"], str(r["start"] + 1), str(r["end"])]
            if probes:
                f.append(str(r["probes"]))
            f.append(floatfmt(r["log2"]))
            out.append("\t".join(f) + "\n")
    return "".join(out)


def write_picard_hs(rows):
    out = ["chrom\tstart\tend\tlength\tname\t%gc\tmean_coverage\tnormalized_coverage\n"]
    for r in rows:
        out.append(
            "\t".join(
                [r["chromosome"], str(r["start"] + 1), str(r["end"]), str(r["end"] - r["start"]), r.get("gene", "-"), fnum(r["gc"]), fnum(r["depth"]), fnum(r["ratio"])]
            )
            + "\n"
        )
    return "".join(out)


def write_tab(rows, columns, floatfmt=fnum):
    out = ["\t".join(columns) + "\n"]
    for r in rows:
        f = []
        for c in columns:
            v = r[c]
            f.append(v if isinstance(v, str) else (str(v) if isinstance(v, int) else floatfmt(v)))
        out.append("\t".join(f) + "\n")
    return "".join(out)


def write_vcf(rows, kind="sv", sample=False):
    """kind 'sv': symbolic <DEL> records that state their end in INFO END; kind 'snv': single-base
    substitutions (no END)."""
    names = []
    for r in rows:
        if r["chromosome"] not in names:
            names.append(r["chromosome"])
    out = [
        "##fileformat=VCFv4.2\n",
        '##INFO=<ID=END,Number=1,Type=Integer,Description="End position of the variant">\n',
        '##INFO=<ID=SVTYPE,Number=1,Type=String,Description="Type of structural variant">\n',
        '##ALT=<ID=DEL,Description="Deletion">\n',
        '##FORMAT=<ID=GT,Number=1,Type=String,Description="Genotype">\n',
    ]
    for n in names:
        out.append("##contig=<ID=%s,length=400000000>\n" % n)
    head = ["#CHROM", "POS", "ID", "REF", "ALT", "QUAL", "FILTER", "INFO"] + (["FORMAT", "S1"] if sample else [])
    out.append("\t".join(head) + "\n")
    for i, r in enumerate(rows):
        if kind == "sv":
            # END first / last in INFO alternately: both placements are legal
            info = ("END=%d;SVTYPE=DEL" if i % 2 == 0 else "SVTYPE=DEL;END=%d") % r["end"]
            f = [r["chromosome"], str(r["start"] + 1), ".", "N", "<DEL>", ".", ".", info]
        else:
            f = [r["chromosome"], str(r["start"] + 1), ".", "A", "T", "50", "PASS", "."]
        if sample:
            f += ["GT", "0/1"]
        out.append("\t".join(f) + "\n")
    return "".join(out)


# ------------------------------------------------------------------------------------------------
# parsers (text -> 0-based half-open rows in file order); written independently of the writers


def _lines(text):
    return [ln for ln in text.split("\n") if ln != ""]


def parse_bed(text):
    rows = []
    for ln in _lines(text):
        if ln.startswith(("track", "browser ", "#")):
            continue
        f = ln.split("\t")
        row = {"chromosome": f[0], "start": int(f[1]), "end": int(f[2])}
        if len(f) > 3:
            row["gene"] = f[3]
        rows.append(row)
    return rows


def parse_interval(text):
    rows = []
    for ln in _lines(text):
        if ln[0] == "@":
            continue
        chrom, first, last, strand, name = ln.split("\t")
        rows.append({"chromosome": chrom, "start": int(first) - 1, "end": int(last), "gene": name, "strand": strand})
    return rows


_TEXT = re.compile(r"^([^:\s]+):([0-9]+)-([0-9]+)(?:[ \t]+(\S+))?$")


def parse_text(text):
    rows = []
    for ln in _lines(text):
        m = _TEXT.match(ln)
        if not m:
            raise ValueError("not chr:start-end: %r" % ln)
        row = {"chromosome": m.group(1), "start": int(m.group(2)) - 1, "end": int(m.group(3))}
        if m.group(4) is not None:
            row["gene"] = m.group(4)
        rows.append(row)
    return rows


def parse_gff(text):
    rows = []
    for ln in _lines(text):
        if ln[0] == "#":
            continue
        f = ln.split("\t")
        attr = f[8]
        gene = "-"
        for part in attr.split(";"):
            part = part.strip()
            if part.startswith("Name="):
                gene = part[5:]
                break
            if part.startswith("gene_id "):
                gene = part[8:].strip('"')
                break
        rows.append({"chromosome": f[0], "start": int(f[3]) - 1, "end": int(f[4]), "gene": gene})
    return rows


def parse_seg(text):
    """-> [(sample id, rows)] in order of first appearance."""
    lines = _lines(text)
    head = lines[0].split("\t")
    has_probes = len(head) == 6
    samples, index = [], {}
    for ln in lines[1:]:
        f = ln.split("\t")
        row = {"chromosome": f[1], "start": int(f[2]) - 1, "end": int(f[3]), "log2": float(f[-1])}
        if has_probes:
            row["probes"] = int(f[4])
        if f[0] not in index:
            index[f[0]] = len(samples)
            samples.append((f[0], []))
        samples[index[f[0]]][1].append(row)
    return samples


def parse_picard_hs(text):
    rows = []
    for ln in _lines(text)[1:]:
        f = ln.split("\t")
        rows.append({"chromosome": f[0], "start": int(f[1]) - 1, "end": int(f[2]), "gene": f[4], "gc": float(f[5]), "depth": float(f[6]), "ratio": float(f[7])})
    return rows


def _number(s):
    try:
        return int(s)
    except ValueError:
        return float(s)


def parse_tab(text):
    lines = _lines(text)
    cols = lines[0].split("\t")
    rows = []
    for ln in lines[1:]:
        f = ln.split("\t")
        row = {}
        for c, v in zip(cols, f):
            if c in ("chromosome", "gene"):
                row[c] = v
            elif c in ("start", "end"):
                row[c] = int(v)
            else:
                row[c] = _number(v)
        rows.append(row)
    return rows


def parse_vcf(text):
    """start = POS - 1; end = INFO END when stated, else None (the statement fixes no end then)."""
    rows = []
    for ln in _lines(text):
        if ln[0] == "#":
            continue
        f = ln.split("\t")
        end = None
        for item in f[7].split(";"):
            if item.startswith("END="):
                end = int(item[4:])
        rows.append({"chromosome": f[0], "start": int(f[1]) - 1, "end": end})
    return rows


PARSERS = {
    "bed": parse_bed,
    "bed3": parse_bed,
    "bed4": parse_bed,
    "interval": parse_interval,
    "text": parse_text,
    "gff": parse_gff,
    "picardhs": parse_picard_hs,
    "tab": parse_tab,
    "vcf": parse_vcf,
}

"""Reference model for C18: a VCF text writer and the record -> row model (sample selection, depth,
alt count, alt_freq, zygosity, filters, germline-het selection, mirrored-median BAF, TumorBoost,
purity rescaling).  Pure Python on lists; never imports cnvlib / skgenome / pysam.

A VCF file is a dict
    {"samples": [name, ...], "pedigree": [(derived, original), ...], "contigs": [(name, length), ...],
     "records": [record, ...]}
and a record is a dict
    {"chrom": str, "pos": int (1-based, as written), "ref": str, "alt": str, "filter": "PASS" | "." | "q10",
     "somatic": bool, "info_dp": int | None, "end": int | None,
     "fmt": tuple of FORMAT keys, a subset of ("GT", "AD", "DP") that contains "GT",
     "calls": [call per sample]}      call = {"gt": "0/1", "ad": (ref, alt) | None, "dp": int | None}
`ad` / `dp` of None under a key that is in `fmt` is written as a missing value ("." / ".,.").

Values the statement leaves open are modelled as *sets of admissible values* (OPEN = anything goes).
"""
import math

OPEN = "open"
NAN = float("nan")

GT_ZYGOSITY = {
    "0/0": 0.0, "0|0": 0.0,
    "0/1": 0.5, "1/0": 0.5, "0|1": 0.5, "1|0": 0.5,
    "1/1": 1.0, "1|1": 1.0,
}


# ------------------------------------------------------------------------------------------- writer
def vcf_text(vcf):
    """The VCF file as text (VCFv4.2)."""
    out = ["##fileformat=VCFv4.2"]
    out.append('##FILTER=<ID=PASS,Description="All filters passed">')
    out.append('##FILTER=<ID=q10,Description="Quality below 10">')
    out.append('##INFO=<ID=DP,Number=1,Type=Integer,Description="Total depth">')
    out.append('##INFO=<ID=END,Number=1,Type=Integer,Description="End position">')
    out.append('##INFO=<ID=SOMATIC,Number=0,Type=Flag,Description="Somatic event">')
    out.append('##ALT=<ID=DEL,Description="Deletion">')
    out.append('##FORMAT=<ID=GT,Number=1,Type=String,Description="Genotype">')
    out.append('##FORMAT=<ID=AD,Number=R,Type=Integer,Description="Allelic depths">')
    out.append('##FORMAT=<ID=DP,Number=1,Type=Integer,Description="Read depth">')
    for name, length in vcf["contigs"]:
        out.append(f"##contig=<ID={name},length={length}>")
    for derived, original in vcf.get("pedigree", []):
        out.append(f"##PEDIGREE=<Derived={derived},Original={original}>")
    head = ["#CHROM", "POS", "ID", "REF", "ALT", "QUAL", "FILTER", "INFO"]
    if vcf["samples"]:
        head += ["FORMAT"] + list(vcf["samples"])
    out.append("\t".join(head))
    for rec in vcf["records"]:
        info = []
        if rec.get("info_dp") is not None:
            info.append(f"DP={rec['info_dp']}")
        if rec.get("end") is not None:
            info.append(f"END={rec['end']}")
        if rec.get("somatic"):
            info.append("SOMATIC")
        fields = [rec["chrom"], str(rec["pos"]), ".", rec["ref"], rec["alt"], ".", rec.get("filter", "PASS"), ";".join(info) or "."]
        if vcf["samples"]:
            fmt = list(rec["fmt"])
            fields.append(":".join(fmt))
            for call in rec["calls"]:
                vals = []
                for key in fmt:
                    if key == "GT":
                        vals.append(call["gt"])
                    elif key == "AD":
                        vals.append(".,." if call.get("ad") is None else ",".join(str(x) for x in call["ad"]))
                    elif key == "DP":
                        vals.append("." if call.get("dp") is None else str(call["dp"]))
                fields.append(":".join(vals))
        out.append("\t".join(fields))
    return "\n".join(out) + "\n"


def write_vcf(path, vcf):
    with open(path, "w") as f:
        f.write(vcf_text(vcf))


# --------------------------------------------------------------------------------- sample selection
def resolve(vcf, ident):
    """A selector is None, a sample name, or a 0-based index into the file's sample columns."""
    if ident is None:
        return None
    if isinstance(ident, int):
        return vcf["samples"][ident]
    return ident


def choose_samples(vcf, sample_id, normal_id):
    """(sample name, set of admissible normal names (None = unpaired)), or None when the documented rules
    do not decide the case.

    Documented order: PEDIGREE-declared (Derived, Original) pairs first; else the given tumour and normal
    ids (with only a normal given, every other sample is a tumour paired with it); else every sample is an
    unpaired tumour.  A given sample id keeps the pairs whose tumour it is; the first remaining pair (file
    order of the declarations / of the sample columns) is returned.
    """
    names = list(vcf["samples"])
    sid, nid = resolve(vcf, sample_id), resolve(vcf, normal_id)
    if (sid is not None and sid not in names) or (nid is not None and nid not in names):
        return None  # an id that is not in the file: nothing to select
    if sid is not None and sid == nid:
        return None  # the same column as tumour and as normal: not a documented request
    peds = list(vcf.get("pedigree", []))
    if peds:
        if sid is None:
            return peds[0][0], {peds[0][1]}
        mine = [p for p in peds if p[0] == sid]
        if mine:
            return sid, {mine[0][1]}
        # the requested sample is not a declared tumour: the sample is the requested one; whether the
        # explicitly given normal still applies is not documented
        return sid, ({None} if nid is None else {None, nid})
    if nid is not None:
        others = [s for s in names if s != nid]
        if not others:
            return None  # the only sample given as the normal: undocumented
        if sid is None:
            return others[0], {nid}
        return sid, {nid}
    if sid is not None:
        return sid, {None}
    return names[0], {None}


# ------------------------------------------------------------------------------------ record -> row
def call_values(rec, call):
    """Admissible (depth set, alt_count set, zygosity set) for one sample's call.

    depth = the sample's DP; without a DP key the sum of its AD; without either the record's INFO DP.
    alt count = the second AD value.  Missing values are open between "missing" (NaN) and 0.
    """
    fmt = rec["fmt"]
    ad = call.get("ad") if "AD" in fmt else None
    if "DP" in fmt:
        if call.get("dp") is not None:
            depth = {float(call["dp"])}
        else:
            # DP declared but missing for this sample: missing, or recovered from AD / INFO
            depth = {NAN, 0.0}
            if ad is not None:
                depth.add(float(sum(ad)))
            if rec.get("info_dp") is not None:
                depth.add(float(rec["info_dp"]))
    elif "AD" in fmt:
        if ad is not None:
            depth = {float(sum(ad))}
        else:
            depth = {NAN, 0.0}
            if rec.get("info_dp") is not None:
                depth.add(float(rec["info_dp"]))
    elif rec.get("info_dp") is not None:
        depth = {float(rec["info_dp"])}
    else:
        depth = {NAN, 0.0}
    alt = {float(ad[1])} if ad is not None else {NAN, 0.0}
    if call["gt"] in GT_ZYGOSITY:
        zyg = {GT_ZYGOSITY[call["gt"]]}
    else:
        zyg = {0.0, 1.0, NAN}  # no genotype: anything but heterozygous
    return depth, alt, zyg


def alt_freq_set(depths, alts):
    """Admissible alt_freq values: count / depth wherever that is defined, else missing or 0."""
    out = set()
    for d in depths:
        for a in alts:
            if _isnan(d) or _isnan(a) or d == 0:
                out.update({NAN, 0.0})
            else:
                out.add(a / d)
    return out


def record_end(rec):
    """End of the row where the statement's 'site' fixes it: an SNV covers its base; indel / symbolic ends are open."""
    if len(rec["ref"]) == 1 and len(rec["alt"]) == 1 and rec["alt"] in "ACGT":
        return {rec["pos"]}
    return OPEN


def expected_rows(vcf, sid, nid):
    """One row per record: dict of field -> set of admissible values (or OPEN)."""
    si = vcf["samples"].index(sid)
    ni = vcf["samples"].index(nid) if nid is not None else None
    rows = []
    for i, rec in enumerate(vcf["records"]):
        d, a, z = call_values(rec, rec["calls"][si])
        row = {
            "rec": i,
            "chromosome": {rec["chrom"]},
            "start": {rec["pos"] - 1},
            "end": record_end(rec),
            "ref": {rec["ref"]},
            "alt": {rec["alt"]},
            "somatic": {bool(rec.get("somatic"))},
            "depth": d,
            "alt_count": a,
            "zygosity": z,
            "alt_freq": alt_freq_set(d, a),
        }
        if ni is not None:
            nd, na, nz = call_values(rec, rec["calls"][ni])
            row.update({"n_depth": nd, "n_alt_count": na, "n_zygosity": nz, "n_alt_freq": alt_freq_set(nd, na)})
        rows.append(row)
    return rows


def _isnan(x):
    return isinstance(x, float) and math.isnan(x)


def value_ok(allowed, got):
    if allowed == OPEN:
        return True
    for a in allowed:
        if _isnan(a):
            if got is None or _isnan(got):
                return True
        elif isinstance(a, float) and isinstance(got, (int, float)) and not isinstance(got, bool):
            if not _isnan(float(got)) and abs(float(got) - a) <= 1e-9 * max(1.0, abs(a)):
                return True
        elif a == got:
            return True
    return False


# ------------------------------------------------------------------------------------------ filters
def filter_rows(rows, min_depth, skip_somatic, paired):
    """(required, optional): indices into rows that must / may survive the requested filters.

    The depth filter looks at the germline sample's depth (the normal of a pair, else the sample).  It is
    left open when the file carries no depth for the sample at all (the reader documents that it cannot
    filter then).
    """
    required, optional = [], []
    # "no depth for the sample anywhere in the file" is itself open when depths are open
    no_depth_info = all(any(_isnan(d) or d == 0 for d in r["depth"]) for r in rows)
    for i, r in enumerate(rows):
        if skip_somatic and True in r["somatic"]:
            continue
        if min_depth:
            ds = r["n_depth"] if paired else r["depth"]
            verdicts = {(not _isnan(d)) and d >= min_depth for d in ds}
            if no_depth_info:
                verdicts = verdicts | {True}
            if verdicts == {False}:
                continue
            if verdicts == {True, False}:
                optional.append(i)
                continue
        required.append(i)
    return required, optional


# ---------------------------------------------------------------------------- germline heterozygous
def _single(s):
    """The one admissible finite value of a field, or None when it is open / missing."""
    vals = [x for x in s if not _isnan(x)]
    if len(s) == 1 and len(vals) == 1:
        return vals[0]
    return None


def zyg_from_freq(freq, zf):
    """Documented thresholds: heterozygous when zf <= freq < 1 - zf, homozygous-alt at >= 1 - zf, else reference."""
    if freq >= 1 - zf:
        return 1.0
    if freq >= zf:
        return 0.5
    return 0.0


def het_selection(rows, kept, paired, zygosity_freq):
    """Admissible results of the germline-het selection among the filtered rows `kept` (indices).

    Returns a list of admissible index sets (frozensets) -- or None when an open value (a missing
    frequency under zygosity_freq) makes the case undecidable.
      * the germline-heterozygous records (normal genotype of a pair, else the sample's), when there are any;
      * when there are none: nothing, or the documented fall-back to all filtered records, with or without the
        records whose pair genotypes say 'somatic' (tumour non-reference, normal reference);
      * a pair whose normal genotypes are all reference/missing and no zygosity_freq: additionally the
        documented work-around, genotypes inferred from allele frequencies at 0.25.
    """
    gz = "n_zygosity" if paired else "zygosity"
    gf = "n_alt_freq" if paired else "alt_freq"

    def by_freq(zf):
        tz, nz = {}, {}
        for i in kept:
            f = _single(rows[i]["alt_freq"])
            if f is None:
                return None
            tz[i] = zyg_from_freq(f, zf)
            if paired:
                g = _single(rows[i][gf])
                if g is None:
                    return None
                nz[i] = zyg_from_freq(g, zf)
        return tz, nz

    def outcomes(tz, nz):
        germ = nz if paired else tz
        het = frozenset(i for i in kept if germ[i] == 0.5)
        if het:
            return [het]
        res = [frozenset(), frozenset(kept)]
        if paired:
            res.append(frozenset(i for i in kept if not (tz[i] != 0.0 and nz[i] == 0.0)))
        return res

    if zygosity_freq is not None:
        zz = by_freq(zygosity_freq)
        return None if zz is None else outcomes(*zz)
    # genotype semantics
    het = frozenset(i for i in kept if rows[i][gz] == {0.5})
    if het:
        return [het]
    res = [frozenset(), frozenset(kept)]
    if paired:
        # records that may be dropped as somatic by genotype: tumour possibly non-reference, normal possibly reference
        maybe_som = [i for i in kept if rows[i]["zygosity"] != {0.0} and 0.0 in rows[i]["n_zygosity"]]
        sure_som = [i for i in kept if 0.0 not in rows[i]["zygosity"] and rows[i]["n_zygosity"] == {0.0}]
        res += _between(frozenset(kept) - frozenset(maybe_som), frozenset(kept) - frozenset(sure_som))
        if all(0.0 in rows[i]["n_zygosity"] for i in kept):
            zz = by_freq(0.25)
            if zz is None:
                return None
            res += outcomes(*zz)
    return res


def _between(lo, hi):
    extra = sorted(hi - lo)
    out = []
    for mask in range(1 << len(extra)):
        out.append(frozenset(lo | {e for k, e in enumerate(extra) if mask >> k & 1}))
    return out


# ---------------------------------------------------------------------------------------------- BAF
def median(vals):
    s = sorted(vals)
    n = len(s)
    return s[n // 2] if n % 2 else (s[n // 2 - 1] + s[n // 2]) / 2


def mirror(vals, above):
    return [0.5 + abs(v - 0.5) if above else 0.5 - abs(v - 0.5) for v in vals]


def sides(vals, above_half=None):
    """Admissible mirroring sides.  Requested side if given; else the side of the majority of the values.
    The side is left open when above and below are equally many, or when values sitting exactly on 0.5
    make 'majority by count' and 'majority by the middle value' disagree."""
    if above_half is not None:
        return [bool(above_half)]
    above = sum(1 for v in vals if v > 0.5)
    below = sum(1 for v in vals if v < 0.5)
    med = median(vals)
    if above > below and med > 0.5:
        return [True]
    if below > above and med < 0.5:
        return [False]
    return [True, False]


def mirrored_baf(vals, above_half=None):
    """Admissible mirrored vectors (one per admissible side)."""
    if not vals:
        return [[]]
    return [mirror(vals, s) for s in sides(vals, above_half)]


def range_baf(vals, above_half=None):
    """Admissible BAF values of one range: median of the mirrored frequencies; NaN when there are none."""
    if not vals:
        return [NAN]
    return [median(m) for m in mirrored_baf(vals, above_half)]


def overlapping(snps, chrom, start, end):
    """snps = [(chrom, start, end, freq)]; those overlapping the half-open range, in the given order."""
    return [s for s in snps if s[0] == chrom and s[1] < end and s[2] > start]


def baf_by_ranges(snps, ranges, above_half=None):
    """Per range: list of admissible BAF values."""
    return [range_baf([s[3] for s in overlapping(snps, c, s0, e0)], above_half) for c, s0, e0 in ranges]


def tumor_boost(t, n):
    """TumorBoost (Bengtsson et al. 2010): 0.5 t/n when t < n, else 1 - 0.5 (1-t)/(1-n); None when undefined."""
    if t < n:
        return 0.5 * t / n
    if n == 1:
        return None
    return 1 - 0.5 * (1 - t) / (1 - n)


def rescale_baf(purity, baf, normal_baf=0.5):
    """Solve tumour*purity + normal*(1-purity) = observed for the tumour BAF."""
    return (baf - normal_baf * (1 - purity)) / purity

-------------------------------- MODULE PoolMap --------------------------------
(* Contract of concurrent.futures.ProcessPoolExecutor.map as the code under test relies on it,
   and as mc/vpool.py implements it for schedule exploration:

     - the argument iterable is pulled lazily and in order, one item per Produce step; the pull that
       finds the iterable empty is a step too (map returns only after it);
     - a pending task may run at any time on any worker that has already run something, or on the first
       fresh one (workers are symmetric), at most W workers;
     - results are delivered in submission order, only after map() has returned, only when done.

   hist records every action, so no two paths are merged: the terminal states are exactly the complete
   schedules.  Done prints the schedule; tools compare the printed set with the set of schedules the
   stateless explorer drove the real code through (mc/tlcpool.py). *)
EXTENDS Naturals, Sequences, TLC
CONSTANTS K, W
VARIABLES produced, exhausted, st, delivered, used, hist
vars == <<produced, exhausted, st, delivered, used, hist>>
Tasks == 0..(K-1)

Init == /\ produced = 0 /\ exhausted = FALSE /\ st = [i \in Tasks |-> "none"]
        /\ delivered = 0 /\ used = 0 /\ hist = <<>>

Produce == /\ ~exhausted
           /\ IF produced < K
                 THEN /\ st' = [st EXCEPT ![produced] = "pending"]
                      /\ produced' = produced + 1
                      /\ exhausted' = FALSE
                 ELSE /\ exhausted' = TRUE
                      /\ UNCHANGED <<st, produced>>
           /\ hist' = Append(hist, <<"produce", 0, 0>>)
           /\ UNCHANGED <<delivered, used>>

Run(i, w) == /\ st[i] = "pending" /\ w <= used /\ w < W
             /\ st' = [st EXCEPT ![i] = "done"]
             /\ used' = IF w = used THEN used + 1 ELSE used
             /\ hist' = Append(hist, <<"run", i, w>>)
             /\ UNCHANGED <<produced, exhausted, delivered>>

Deliver == /\ exhausted /\ delivered < K /\ st[delivered] = "done"
           /\ delivered' = delivered + 1
           /\ hist' = Append(hist, <<"deliver", delivered, 0>>)
           /\ UNCHANGED <<produced, exhausted, st, used>>

Done == /\ exhausted /\ delivered = K
        /\ PrintT(<<"SCHEDULE", hist>>)
        /\ UNCHANGED vars

Next == Produce \/ Deliver \/ Done \/ \E i \in Tasks, w \in 0..(W-1) : Run(i, w)

Spec == Init /\ [][Next]_vars

(* safety the executor contract itself promises *)
InOrder == \A i \in Tasks : (i < delivered) => st[i] = "done"
NoRunBeforeSubmit == \A i \in Tasks : (st[i] # "none") => i < produced
================================================================================

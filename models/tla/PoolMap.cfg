CONSTANTS K = 3 W = 2
SPECIFICATION Spec
INVARIANTS InOrder NoRunBeforeSubmit

"""Reference model of the `fix` step (property C04), re-derived from the statement.  Plain Python on
lists of dicts; nothing from cnvlib / skgenome is imported here.

A reference bin is a dict  chromosome, start, end, gene, log2, depth, spread [, gc] [, rmask];
a sample bin is a dict     chromosome, start, end, gene, log2, depth.

What the model states
---------------------
* `refusal(...)`      - the reasons for which `fix` must refuse the input (a sample bin whose
                        (chromosome, start, end) is not in the reference; duplicated coordinates).
* `ref_fails(bin)`    - which reference filters a bin fails (log2 within +-5, spread <= 1, depth > 0,
                        GC within 0.3-0.7; all bounds inclusive on the passing side).
* `expected(...)`     - the emitted bins, in genomic order, each with `base` = the sample log2 after the
                        enabled corrections minus the coordinate-matched reference log2.  The statement
                        fixes the output log2 only up to one constant per class (on-/off-target), so the
                        caller compares `observed - base` for constancy inside each class.
* `edge_values(bins)` - the edge-density covariate of on-target bins from the documented loss / gain
                        formulas (insert size i = 250):
                          loss  = i/2t            - (i-t)^2/2it    if t < i
                          gain  = (i-g)^2/4it     - (i-t-g)^2/4it  if t+g < i      per adjacent tile with gap g < i
                          value = gains - loss
* `centre_of(bins)`   - median of the autosomal chromosome medians.
* `weight_faults(..)` - range and monotonicity clauses on the weights.

The rolling median itself is not re-implemented: DESIGN section 4 rule 6 lets this oracle call the
package's `smoothing.rolling_median` (verified by C19); the caller passes it in.  A class of a single
bin is its own rolling median.
"""
import math

INSERT_SIZE = 250
LOG2_BOUND = 5.0
MAX_SPREAD = 1.0
GC_LO, GC_HI = 0.3, 0.7
WEIGHT_LO, WEIGHT_HI = 1e-4, 1.0
LOW_LOG2 = -15.0  # below this a sample bin counts as "no coverage" (NULL_LOG2_COVERAGE - MIN_REF_COVERAGE)


# ---------------------------------------------------------------------------------------------
def chrom_key(name):
    """Genomic order of the chromosome names used here: numbered chromosomes by number, then X, Y."""
    s = name[3:] if name.lower().startswith("chr") else name
    if s.isdigit():
        return (0, int(s), "")
    if s in ("X", "Y"):
        return (1, 0, s)
    return (2, 0, s)


def is_autosome(name):
    s = name[3:] if name.startswith("chr") else name
    return s.isdigit()


def coord(b):
    return (b["chromosome"], b["start"], b["end"])


def genomic_key(b):
    return (chrom_key(b["chromosome"]), b["start"], b["end"])


def genomic_sorted(bins):
    return sorted(bins, key=genomic_key)


def median(xs):
    s = sorted(xs)
    n = len(s)
    if not n:
        return float("nan")
    if n % 2:
        return s[n // 2]
    return 0.5 * (s[n // 2 - 1] + s[n // 2])


# ---------------------------------------------------------------------------------------------
def ref_fails(r):
    """Names of the reference filters this reference bin fails (empty list = the bin passes)."""
    out = []
    if r["log2"] < -LOG2_BOUND:
        out.append("log2<-5")
    if r["log2"] > LOG2_BOUND:
        out.append("log2>5")
    if r["spread"] > MAX_SPREAD:
        out.append("spread>1")
    if not r["depth"] > 0:
        out.append("depth0")
    if "gc" in r:
        if r["gc"] < GC_LO:
            out.append("gc<0.3")
        if r["gc"] > GC_HI:
            out.append("gc>0.7")
    return out


def refusal(tgt, anti, ref):
    """Reasons for which the input must be refused (empty = must be processed)."""
    reasons = []
    for name, rows in (("target", tgt), ("antitarget", anti)):
        cs = [coord(b) for b in rows]
        if len(set(cs)) != len(cs):
            reasons.append("duplicate-in-sample-" + name)
    rc = [coord(b) for b in ref]
    if len(set(rc)) != len(rc):
        reasons.append("duplicate-in-reference")
    have = set(rc)
    for name, rows in (("target", tgt), ("antitarget", anti)):
        if any(coord(b) not in have for b in rows):
            reasons.append("missing-from-reference-" + name)
    return reasons


# ---------------------------------------------------------------------------------------------
def edge_values(bins, insert=INSERT_SIZE):
    """Edge covariate of on-target bins (any order in, same order out); neighbours are the adjacent
    bins of `bins` on the same chromosome."""
    i = float(insert)
    out = {}
    chroms = {}
    for b in bins:
        chroms.setdefault(b["chromosome"], []).append(b)
    for rows in chroms.values():
        rows = sorted(rows, key=lambda b: (b["start"], b["end"]))
        for k, b in enumerate(rows):
            t = float(b["end"] - b["start"])
            loss = i / (2 * t)
            if t < i:
                loss -= (i - t) ** 2 / (2 * i * t)
            gain = 0.0
            gaps = []
            if k > 0:
                gaps.append(b["start"] - rows[k - 1]["end"])
            if k + 1 < len(rows):
                gaps.append(rows[k + 1]["start"] - b["end"])
            for g in gaps:
                if g < i:
                    g = float(max(0, g))
                    gain += (i - g) ** 2 / (4 * i * t)
                    if t + g < i:
                        gain -= (i - t - g) ** 2 / (4 * i * t)
            out[coord(b)] = gain - loss
    return [out[coord(b)] for b in bins]


def edge_features(bins, insert=INSERT_SIZE):
    """Which branches of the edge formula a set of on-target bins exercises (for strata)."""
    feats = set()
    chroms = {}
    for b in bins:
        chroms.setdefault(b["chromosome"], []).append(b)
    for rows in chroms.values():
        rows = sorted(rows, key=lambda b: (b["start"], b["end"]))
        for k, b in enumerate(rows):
            t = b["end"] - b["start"]
            if t < insert:
                feats.add("small-tile")
            if k + 1 < len(rows):
                g = rows[k + 1]["start"] - b["end"]
                if g < insert:
                    feats.add("neighbour-gain")
                    if t + max(0, g) < insert or (rows[k + 1]["end"] - rows[k + 1]["start"]) + max(0, g) < insert:
                        feats.add("flank-past-other-side")
                    if k + 2 < len(rows) and rows[k + 2]["start"] - b["end"] < insert:
                        feats.add("second-neighbour-in-margin")
    return feats


def subtract_rolling_median(vals, cov, frac, rolling_median):
    """vals - rolling median of vals taken over the bins ordered by cov; returns (new vals, tie?)."""
    n = len(vals)
    order = sorted(range(n), key=lambda k: cov[k])
    tie = len(set(cov)) < n
    sv = [vals[k] for k in order]
    if n == 1:
        bias = list(sv)
    else:
        bias = [float(x) for x in rolling_median(sv, frac)]
    new = [None] * n
    for pos, k in enumerate(order):
        new[k] = sv[pos] - bias[pos]
    return new, tie


def expected(tgt, anti, ref, do_gc, do_edge, do_rmask, frac, rolling_median):
    """The emitted bins in genomic order and what happened on the way.

    returns (bins, info); each bin: chromosome, start, end, gene, cls, base, size, spread, sample_log2,
    sample_depth.  info: applied[cls] = names of the corrections that act on that class, tie = a
    covariate tie occurred (the statement does not order tied bins), dropped = {coord: [filters failed]}.
    """
    refmap = {coord(r): r for r in ref}
    has_gc = bool(ref) and all("gc" in r for r in ref)
    has_rmask = bool(ref) and all("rmask" in r for r in ref)
    out = []
    info = {"applied": {"target": [], "antitarget": []}, "tie": False, "dropped": {}, "n": {}, "low": {}}
    for cls, rows in (("target", tgt), ("antitarget", anti)):
        kept = []
        for b in rows:
            fails = ref_fails(refmap[coord(b)])
            if fails:
                info["dropped"][coord(b)] = fails
            else:
                kept.append(b)
        kept = genomic_sorted(kept)
        info["n"][cls] = len(kept)
        info["low"][cls] = sum(1 for b in kept if b["log2"] < LOW_LOG2 or b["depth"] == 0)
        vals = [b["log2"] for b in kept]
        steps = []
        if do_gc and has_gc:
            steps.append(("gc", [refmap[coord(b)]["gc"] for b in kept]))
        if cls == "target" and do_edge:
            steps.append(("edge", None))
        if cls == "antitarget" and do_rmask and has_rmask:
            steps.append(("rmask", [refmap[coord(b)]["rmask"] for b in kept]))
        if kept:
            for name, cov in steps:
                if cov is None:
                    cov = edge_values(kept)
                vals, tie = subtract_rolling_median(vals, cov, frac, rolling_median)
                info["tie"] = info["tie"] or tie
                info["applied"][cls].append(name)
        for b, v in zip(kept, vals):
            r = refmap[coord(b)]
            out.append(
                {
                    "chromosome": b["chromosome"],
                    "start": b["start"],
                    "end": b["end"],
                    "gene": b["gene"],
                    "cls": cls,
                    "base": v - r["log2"],
                    "size": b["end"] - b["start"],
                    "spread": r["spread"],
                    "sample_log2": b["log2"],
                    "sample_depth": b["depth"],
                }
            )
    return genomic_sorted(out), info


# ---------------------------------------------------------------------------------------------
def centre_of(bins, key="log2", skip=None):
    """Median of the autosomal chromosome medians of `key` (all chromosomes if none is autosomal);
    `skip` = optional predicate of bins left out of the estimate."""
    rows = [b for b in bins if not (skip and skip(b))]
    auto = [b for b in rows if is_autosome(b["chromosome"])]
    if auto:
        rows = auto
    chroms = {}
    for b in rows:
        chroms.setdefault(b["chromosome"], []).append(b[key])
    if not chroms:
        return None
    return median([median(v) for v in chroms.values()])


def class_constant_spread(observed, exp):
    """max - min of (observed log2 - base) inside each class: {cls: (spread, n)}."""
    out = {}
    for cls in ("target", "antitarget"):
        d = [o["log2"] - e["base"] for o, e in zip(observed, exp) if e["cls"] == cls]
        if d:
            out[cls] = (max(d) - min(d) if all(math.isfinite(x) for x in d) else float("inf"), len(d))
    return out


def weight_faults(observed, exp, tol=1e-12):
    """List of (kind, i, j) weight clause failures: kind in range / size / spread / both."""
    faults = []
    for k, o in enumerate(observed):
        w = o.get("weight")
        if w is None or not (w == w) or w < WEIGHT_LO - tol or w > WEIGHT_HI + tol:
            faults.append(("range", k, k))
    if faults:
        return faults
    n = len(observed)
    for a in range(n):
        for b in range(n):
            if a == b or exp[a]["cls"] != exp[b]["cls"]:
                continue
            # a is at least as large and at most as variable as b  =>  weight(a) >= weight(b)
            if exp[a]["size"] >= exp[b]["size"] and exp[a]["spread"] <= exp[b]["spread"]:
                if observed[a]["weight"] < observed[b]["weight"] - tol:
                    if exp[a]["spread"] == exp[b]["spread"]:
                        kind = "size"
                    elif exp[a]["size"] == exp[b]["size"]:
                        kind = "spread"
                    else:
                        kind = "size+spread"
                    faults.append((kind, a, b))
    return faults

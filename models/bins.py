"""Reference model for C12: the space target and antitarget bins must partition.

Pure Python on ints and lists; never imports cnvlib / skgenome.  Rows are (chrom, start, end, ...),
half-open.  Built on the sweep formulation of models/intervals.py (exact at any coordinate scale); a
second formulation on explicit base sets lives in selftest/bins.py and must agree on the alphabet.

Everything here is a literal reading of the C12 statement:

* target, no split: the non-empty baits, unchanged;
* target, split: non-overlapping bins in genomic order covering exactly the union of the non-empty
  baits, each merged bait cut into max(1, round(length/avg)) equal (+-1) bins (a .5 tie may go either way);
* antitarget: S = (every accessible region shrunk by the margin, emptied ones dropped) minus (every target
  grown by the margin), on the contigs that are targeted or canonically named.  Bins lie inside the shrunk
  accessible regions, stay a margin away from every target, do not overlap, are >= min and <= 1.5 avg, are
  named Antitarget, and cover every maximal stretch of S that is >= min.
"""
import math

from models import intervals as M

MARGIN = 500  # "the 500-base margin", "within 500 bases of any target"
TELOMERE = 150000  # without an access table: each targeted contig is taken as [150 000, last target end)
ANTITARGET = "Antitarget"


# ---- target ------------------------------------------------------------------------------------
def nonempty(rows):
    return [r for r in rows if r[2] != r[1]]


def bin_counts(length, avg):
    """Admissible numbers of bins for a merged bait: max(1, round(length/avg)); an exact .5 tie is open."""
    if isinstance(avg, int):
        return M.subdivide_counts(length, avg)
    q = length / avg
    f = math.floor(q)
    frac = q - f
    if abs(frac - 0.5) < 1e-9:
        return {max(1, f), max(1, f + 1)}
    return {max(1, f + (1 if frac > 0.5 else 0))}


def chrom_blocks(rows):
    """Chromosome names in order of appearance, with repeats when a name comes back (not grouped)."""
    out = []
    for r in rows:
        if not out or out[-1] != r[0]:
            out.append(r[0])
    return out


def split_problems(baits, bins, avg, canonical_order=()):
    """Clauses of `target --split` that `bins` (output order) breaks for `baits`; [] when all hold.
    canonical_order: canonically named contigs in genomic order (the order among the others is open)."""
    out = []
    baits = nonempty([r[:3] for r in baits])
    bins = [tuple(b[:3]) for b in bins]
    if any(not b[2] > b[1] for b in bins):
        out.append(("every bin is non-empty", "empty-bin"))
    blocks = chrom_blocks(bins)
    if len(blocks) != len(set(blocks)):
        out.append(("bins are in genomic order (each contig in one block)", "order-contigs-interleaved"))
    ranked = [canonical_order.index(c) for c in blocks if c in canonical_order]
    if ranked != sorted(ranked):
        out.append(("bins are in genomic order (canonical contigs ascending)", "order-contigs"))
    for a, b in zip(bins[:-1], bins[1:]):
        if a[0] == b[0] and b[1] < a[2]:
            out.append(("bins do not overlap and ascend within a contig", "order-or-overlap"))
            break
    want, have = M.cover(baits), M.cover(bins)
    if want != have:
        out.append(("bins cover exactly the union of the non-empty baits", "cover"))
        return out
    if out:
        return out
    for chrom in want:
        for s, e in want[chrom]:
            mine = [b for b in bins if b[0] == chrom and s <= b[1] < e]
            sizes = [b[2] - b[1] for b in mine]
            if len(mine) not in bin_counts(e - s, avg):
                out.append(("each merged bait is cut into max(1, round(length/avg)) bins", "count"))
                return out
            if max(sizes) - min(sizes) > 1:
                out.append(("the bins of one merged bait are equal (+-1 base)", "unequal"))
                return out
    return out


# ---- antitarget ----------------------------------------------------------------------------------
def guessed_access(targets):
    """No access table: every targeted contig from the telomere margin to the end of its last target."""
    ends = {}
    for c, _s, e in (t[:3] for t in targets):
        ends[c] = max(ends.get(c, e), e)
    return [(c, TELOMERE, e) for c, e in ends.items()]


def space(targets, access, canonical):
    """-> dict(shrunk=, padded=, S=, contigs=) as covers {chrom: [(s, e), ...]}.
    targets: rows that keep bins away; access: rows or None (guessed); canonical: set of canonical names."""
    targets = [t[:3] for t in targets]
    targeted = {t[0] for t in targets}
    if access is None:
        access = guessed_access(targets)
    access = [a[:3] for a in access]
    contigs = {a[0] for a in access if a[0] in targeted or a[0] in canonical}
    shrunk = M.cover([(c, s + MARGIN, e - MARGIN) for c, s, e in access if c in contigs and e - MARGIN > s + MARGIN])
    padded = M.cover([(c, max(0, s - MARGIN), e + MARGIN) for c, s, e in targets])
    return {"shrunk": shrunk, "padded": padded, "S": M.cover_subtract(shrunk, padded), "contigs": contigs}


def stretches(sp, min_size):
    return [(c, s, e) for c in sorted(sp["S"]) for s, e in sp["S"][c] if e - s >= min_size]


def antitarget_problems(bins, targets, access, avg, min_lo, min_hi, canonical, lenient_targets=None):
    """Clauses of the antitarget sentence that `bins` breaks; [] when all hold.

    min_lo: no bin may be smaller; min_hi: every stretch at least this long must be covered
    (equal for an explicit minimum; a band around avg/16 for the default, whose rounding is open).
    lenient_targets: extra rows (zero-width targets) whose margin the bins may but need not keep:
    coverage is demanded only for what is off-target with respect to targets + lenient_targets.
    Returns [(clause, key, expected, observed)]."""
    out = []
    named = [tuple(b[:4]) for b in bins]
    bins = [tuple(b[:3]) for b in bins]
    sp = space(targets, access, canonical)
    bad = [b for b in named if len(b) < 4 or b[3] != ANTITARGET]
    if bad:
        out.append(("every bin is named Antitarget", "name", ANTITARGET, bad[:3]))
    bad = [b for b in bins if not b[2] > b[1]]
    if bad:
        out.append(("every bin is at least the minimum size", "empty-bin", None, bad[:3]))
        return out
    bad = [b for b in bins if b[0] not in sp["contigs"]]
    if bad:
        out.append(("bins lie on contigs of the access table that are targeted or canonically named", "contig", sorted(sp["contigs"]), bad[:3]))
    bad = [b for b in bins if M.iv_subtract([(b[1], b[2])], sp["shrunk"].get(b[0], []))]
    if bad:
        out.append(("bins lie inside the accessible regions shrunk by the 500-base margin", "outside-shrunk-access", sp["shrunk"], bad[:3]))
    bad = []
    for b in bins:
        for t in targets:
            if t[0] == b[0] and not (b[2] <= t[1] - MARGIN or b[1] >= t[2] + MARGIN):
                bad.append((b, tuple(t[:3])))
                break
    if bad:
        out.append(("bins never come within 500 bases of any target", "near-target", None, bad[:3]))
    bad = []
    per = {}
    for b in bins:
        per.setdefault(b[0], []).append(b)
    for c in per:
        srt = sorted(per[c], key=lambda b: (b[1], b[2]))
        for a, b in zip(srt[:-1], srt[1:]):
            if b[1] < a[2]:
                bad.append((a, b))
    if bad:
        out.append(("bins do not overlap each other", "overlap", None, bad[:3]))
    bad = [b for b in bins if b[2] - b[1] < min_lo]
    if bad:
        out.append(("every bin is at least the minimum size", "below-min", min_lo, bad[:3]))
    bad = [b for b in bins if b[2] - b[1] > 1.5 * avg]
    if bad:
        out.append(("every bin is at most 1.5x the average size", "above-1.5avg", 1.5 * avg, bad[:3]))
    need = sp if not lenient_targets else space(list(targets) + list(lenient_targets), access, canonical)
    have = M.cover(bins)
    bad = []
    for c, s, e in stretches(need, min_hi):
        left = M.iv_subtract([(s, e)], have.get(c, []))
        if left:
            bad.append(((c, s, e), left))
    if bad:
        out.append(("bins cover every off-target accessible stretch of at least the minimum size", "stretch-uncovered", [b[0] for b in bad[:3]], [b[1] for b in bad[:3]]))
    return out


def default_min_band(avg):
    """Documented default minimum: 1/16 of the average size ("calculated"); its rounding is left open."""
    return avg / 16.0 - 2, avg / 16.0 + 1

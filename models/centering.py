"""Reference model for C15 (centring is a uniform shift zeroing the autosomes; sample sex).

Pure Python (`math`, `statistics.NormalDist`, models.stats); never imports cnvlib / skgenome / numpy.

Layout

  1. names             autosome-like names, the X / Y labels of a naming style
  2. PAR               published pseudo-autosomal regions of X (GRCh37 / GRCh38), bin classification
  3. bin selection     which bins the centring estimator sees (autosome names + PAR-X, minus null bins)
  4. estimators        median / mean / biweight / mode as *candidate sets* (ties and borderline
                       stopping left open), applied per chromosome and then across chromosomes
  5. sex               log2 level expected on X and Y for a sample sex and a reference sex, the
                       flat expectation, the X adjustment
  6. noise alphabet    normal quantiles sd * Phi^-1((i + 1/2) / n) arranged by affine permutations
                       i -> (a * i + b) mod n with multipliers taken from fixed irrational ratios.
                       No random number generator anywhere.
  7. sex samples       layout of a synthetic sample (autosomes, X, Y, optional PAR-X bins)

A bin row is the tuple (chromosome, start, end, log2, is_null).
"""
import math
from statistics import NormalDist

from models import stats as S

ESTIMATORS = ("median", "mean", "biweight", "mode")


# =============================================================================================
# 1. names
# =============================================================================================
def is_autosome_name(name):
    """An autosome is named by a plain integer, with or without a 'chr' prefix."""
    core = name[3:] if name.startswith("chr") else name
    return core != "" and all(c in "0123456789" for c in core)


def naming_style(names):
    """'chr' when every name carries the prefix, '' when none does, None for a mixed table
    (outside the quantifier: 'in either naming style')."""
    flags = {n.startswith("chr") for n in names}
    if flags == {True}:
        return "chr"
    if flags == {False}:
        return ""
    return None


def sex_labels(style):
    return style + "X", style + "Y"


# =============================================================================================
# 2. PAR (Genome Reference Consortium, 1-based inclusive as published)
# =============================================================================================
PAR_X_PUBLISHED = {
    "grch37": {"PAR1": (60001, 2699520), "PAR2": (154931044, 155260560)},
    "grch38": {"PAR1": (10001, 2781479), "PAR2": (155701383, 156030895)},
}


def par_x_regions(genome):
    """0-based half-open [start, end) of PAR1 and PAR2 on X."""
    return [(lo - 1, hi) for lo, hi in PAR_X_PUBLISHED[genome.lower()].values()]


def par_x_status(genome, start, end):
    """'inside' = the bin lies wholly within PAR1 or PAR2; 'outside' = it touches neither;
    'straddles' = partial overlap (the statement does not say how such a bin counts)."""
    touched = False
    for lo, hi in par_x_regions(genome):
        if lo <= start and end <= hi:
            return "inside"
        if start < hi and end > lo:
            touched = True
    return "straddles" if touched else "outside"


# =============================================================================================
# 3. bin selection
# =============================================================================================
def centering_selection(rows, genome=None, skip_low=False):
    """Which bins the centring estimator must see.

    Returns {"status", "groups", "all_groups"}:
      status  'autosomes'             some autosome-named bin is used; `groups` is binding
              'no-autosome-names'     the table has no autosome-named bin at all (quantifier: 'or none
                                      named like autosomes'); the statement does not single out a
                                      reading, see fallback_readings()
              'autosome-bins-all-null' skip_low removes every autosome-named bin (DESIGN section 4
                                      rule 2: neither demanded nor forbidden)
              'straddling-par-bin'    a bin partly overlaps a PAR boundary (left open)
      groups      [(chromosome, [row index, ...]), ...] in order of first appearance: autosome-named
                  bins plus, with a genome, the X bins inside PAR; null bins removed when skip_low
      all_groups  the same grouping over every (non-null when skip_low) bin of the table
    """
    names = [r[0] for r in rows]
    style = naming_style(names)
    xlab = sex_labels(style)[0] if style is not None else None
    chosen, everything = {}, {}
    any_auto_name = False
    auto_used = False
    straddle = False
    for i, (chrom, start, end, _log2, is_null) in enumerate(rows):
        auto = is_autosome_name(chrom)
        any_auto_name = any_auto_name or auto
        par = False
        if genome is not None and chrom == xlab:
            st = par_x_status(genome, start, end)
            straddle = straddle or st == "straddles"
            par = st == "inside"
        if skip_low and is_null:
            continue
        everything.setdefault(chrom, []).append(i)
        if auto or par:
            chosen.setdefault(chrom, []).append(i)
            auto_used = auto_used or auto
    if straddle:
        status = "straddling-par-bin"
    elif not any_auto_name:
        status = "no-autosome-names"
    elif not auto_used:
        status = "autosome-bins-all-null"
    else:
        status = "autosomes"
    return {"status": status, "groups": list(chosen.items()), "all_groups": list(everything.items())}


# =============================================================================================
# 4. estimators as candidate sets
# =============================================================================================
def estimate_candidates(est, xs):
    """Every value the estimator may legitimately return on xs (one value, except: the kernel
    density mode on tied peaks; the biweight when a step length sits on the 1e-3 stopping rule)."""
    xs = list(xs)
    if not xs:
        return []
    if len(xs) == 1:
        return [xs[0]]
    if est == "median":
        return [S.median(xs)]
    if est == "mean":
        return [math.fsum(xs) / len(xs)]
    if est == "biweight":
        if max(xs) == min(xs):
            return [xs[0]]
        return sorted(set(S.biweight_location(xs)[0]))
    if est == "mode":
        return S.kde_mode_candidates(xs)
    raise ValueError(est)


def _dedupe(vals, tol=1e-12):
    out = []
    for v in sorted(vals):
        if not out or abs(v - out[-1]) > tol:
            out.append(v)
    return out


def two_level_candidates(est, group_values, by_chrom=True, cap=4096):
    """Candidates of the overall estimate: per chromosome first, then across chromosomes
    (by_chrom) or over the pooled values.  group_values = [[log2, ...] per chromosome]."""
    group_values = [list(g) for g in group_values if len(g)]
    if not group_values:
        return []
    if not by_chrom:
        return _dedupe(estimate_candidates(est, [v for g in group_values for v in g]))
    per = [_dedupe(estimate_candidates(est, g)) for g in group_values]
    n_vec = 1
    for p in per:
        n_vec *= len(p)
    if n_vec > cap:
        raise OverflowError(f"{n_vec} tie combinations")
    out = []
    for vec in _product(per):
        out.extend(estimate_candidates(est, vec))
    return _dedupe(out)


def _product(lists):
    if not lists:
        yield []
        return
    for head in lists[0]:
        for tail in _product(lists[1:]):
            yield [head] + tail


def degenerate_inputs(est, group_values, by_chrom=True):
    """Places where an estimator is handed >= 2 values that are all equal: 'chromosome' (first
    level), 'across-chromosomes' (second level, for some admissible choice among ties), 'pooled'."""
    group_values = [list(g) for g in group_values if len(g)]
    where = []
    if not by_chrom:
        pooled = [v for g in group_values for v in g]
        if len(pooled) >= 2 and max(pooled) == min(pooled):
            where.append("pooled")
        return where
    if any(len(g) >= 2 and max(g) == min(g) for g in group_values):
        where.append("chromosome")
    if len(group_values) >= 2:
        per = [set(estimate_candidates(est, g)) for g in group_values]
        common = set.intersection(*per)
        if common:
            where.append("across-chromosomes")
    return where


# =============================================================================================
# 5. sex
# =============================================================================================
def expected_x_level(sex, male_reference):
    """log2 of chrX relative to the reference: one X copy in a male, one (male reference) or two
    (female reference) in the reference."""
    copies = 1 if sex == "male" else 2
    ref = 1 if male_reference else 2
    return math.log2(copies / ref)


def expected_y_level(sex, deep=-4.0):
    """The reference always carries one Y; a male has one (log2 0), a female none: 'deep negative'
    (the documented expectation is below -3; `deep` picks the level used)."""
    return 0.0 if sex == "male" else deep


def expected_flat(rows, male_reference):
    """0 on autosomes (and everything that is neither X nor Y), -1 on Y, -1 on X only for a male reference."""
    style = naming_style([r[0] for r in rows])
    xlab, ylab = sex_labels(style)
    return [(-1.0 if r[0] == ylab or (r[0] == xlab and male_reference) else 0.0) for r in rows]


def x_adjustment(sex, male_reference):
    """What must be added to chrX to bring it to the autosomal level (= the level a sample of the
    reference's sex would show)."""
    return -expected_x_level(sex, male_reference)


# =============================================================================================
# 6. deterministic noise alphabet
# =============================================================================================
_ND = NormalDist()

# fractional parts of quadratic irrationals (badly approximable, so a*i mod n spreads evenly):
# golden ratio conjugate, sqrt2-1, sqrt3-1, sqrt11-3, sqrt5-2, sqrt7-2.  (pi-3 was tried and rejected:
# it is close to 1/7, and blocks of bins then receive lopsided subsamples - a level shift, not noise.)
RATIOS = (0.6180339887498949, 0.41421356237309515, 0.7320508075688772, 0.3166247903553998, 0.2360679774997898, 0.6457513110645907)


def normal_quantiles(n, sd):
    """sd * Phi^-1((i + 1/2) / n), i = 0..n-1: the n-point quantile grid of N(0, sd^2)."""
    return [sd * _ND.inv_cdf((i + 0.5) / n) for i in range(n)]


def multiplier(n, ratio_index):
    """Smallest a >= n * RATIOS[k] (and >= 2) that is coprime with n: i -> a*i mod n then steps
    through the quantile grid like a Kronecker sequence, so every contiguous block of bins gets an
    evenly spread subsample of the grid."""
    a = max(2, int(n * RATIOS[ratio_index]))
    while math.gcd(a, n) != 1:
        a += 1
    return a % n if n > 2 else 1


def offset(n, k, of=7):
    return (n * k) // of


def affine_permutation(n, a, b):
    if math.gcd(a, n) != 1:
        raise ValueError("multiplier not coprime with n")
    return [(a * i + b) % n for i in range(n)]


def noise_vector(n, sd, ratio_index, offset_index):
    """Bin i receives quantile number (a*i + b) mod n."""
    q = normal_quantiles(n, sd)
    a = multiplier(n, ratio_index)
    b = offset(n, offset_index)
    return [q[j] for j in affine_permutation(n, a, b)]


def sample_summary(xs):
    n = len(xs)
    mu = math.fsum(xs) / n
    var = math.fsum((x - mu) ** 2 for x in xs) / (n - 1) if n > 1 else 0.0
    return {"n": n, "mean": mu, "median": S.median(xs), "sd": math.sqrt(var)}


# =============================================================================================
# 7. synthetic sex samples
# =============================================================================================
N_AUTOSOMES = 22
X_BODY_START = 20_000_000  # far from both PARs on either build
# bin starts on X by kind (bins are BIN_LEN long): 'non' = outside every PAR of both builds; 'par1' = inside
# PAR1 of both builds; 'par2_grch37' = inside PAR2 of GRCh37 and outside every PAR of GRCh38;
# 'par2_grch38' = inside PAR2 of GRCh38 and outside every PAR of GRCh37.  Listed in coordinate order.
X_BIN_STARTS = {
    "par1": (300000, 800000, 1500000),
    "non": (20_000_000, 20_010_000, 20_020_000),
    "par2_grch37": (155000000, 155050000, 155100000),
    "par2_grch38": (155800000, 155850000, 155900000),
}
X_KINDS = tuple(X_BIN_STARTS)
BIN_STEP, BIN_LEN = 5000, 2000


def sex_sample_rows(sex, male_reference, n_auto, n_x, n_y, sd, ratio_index, offset_index, style="", par_genome=None, n_par=0, y_deep=-4.0):
    """Rows (chromosome, start, end, log2, is_null=False) of a sample centred on its autosomes:
    n_auto bins spread over 22 autosomes at level 0, n_x bins on X and n_y on Y at the levels
    expected for `sex` against the reference sex, plus n_par PAR-X bins (level 0: two copies in
    either sex) when a PAR genome is named; every bin carries its element of one noise vector.
    Returns (rows, noise)."""
    total = n_auto + n_par + n_x + n_y
    noise = noise_vector(total, sd, ratio_index, offset_index)
    xlab, ylab = sex_labels(style)
    rows = []
    k = 0
    for j in range(n_auto):
        chrom = style + str(1 + (j * N_AUTOSOMES) // n_auto)
        start = 1_000_000 + j * BIN_STEP
        rows.append((chrom, start, start + BIN_LEN, 0.0 + noise[k], False))
        k += 1
    if n_par:
        lo, hi = par_x_regions(par_genome)[0]
        step = (hi - lo - BIN_LEN) // max(n_par, 1)
        for j in range(n_par):
            start = lo + 100 + j * step
            rows.append((xlab, start, start + BIN_LEN, 0.0 + noise[k], False))
            k += 1
    xl = expected_x_level(sex, male_reference)
    for j in range(n_x):
        start = X_BODY_START + j * BIN_STEP
        rows.append((xlab, start, start + BIN_LEN, xl + noise[k], False))
        k += 1
    yl = expected_y_level(sex, y_deep)
    for j in range(n_y):
        start = X_BODY_START + j * BIN_STEP
        rows.append((ylab, start, start + BIN_LEN, yl + noise[k], False))
        k += 1
    return rows, noise


WEIGHT_PATTERNS = ("none", "const", "ramp")


def weights_for(pattern, n):
    """Bin weights independent of the noise: constant 0.8, or a saw-tooth over (0.1 .. 1.0]."""
    if pattern == "none":
        return None
    if pattern == "const":
        return [0.8] * n
    if pattern == "ramp":
        return [((i * 7) % 10 + 1) / 10.0 for i in range(n)]
    raise ValueError(pattern)

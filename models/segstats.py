"""Reference model for segment-level statistics and the per-bin z-test (property C17).

Pure Python (`math` only) on lists; never imports cnvlib / skgenome / numpy / scipy.  Order
statistics, MAD, IQR and the biweight formulas come from models/stats.py; this module adds what
C17 needs on top of them:

  1. which bins belong to a segment     overlapping (half-open interval overlap on one chromosome)
  2. textbook moments of a sample        mean, pop_sd, sample_sd, sem, mean_square, t_statistic
  3. percentile interval                 percentile_interval
  4. normal tail, Benjamini-Hochberg     two_sided_normal_p, bh_adjust, bintest_model

A second, differently shaped formulation of each lives in selftest/segstats.py.
"""
import math

from models import stats as S


# =============================================================================================
# 1. bins of a segment
# =============================================================================================
def overlapping(bins, seg):
    """Indices of the bins sharing at least one base with the segment.

    bins: sequence of (chromosome, start, end, ...) rows; seg: (chromosome, start, end, ...).
    Coordinates are 0-based half-open, so [s, e) and [S, E) overlap iff s < E and e > S.
    """
    return [i for i, b in enumerate(bins) if b[0] == seg[0] and b[1] < seg[2] and b[2] > seg[1]]


def contained(bins, seg):
    """Indices of the bins lying entirely inside the segment."""
    return [i for i, b in enumerate(bins) if b[0] == seg[0] and b[1] >= seg[1] and b[2] <= seg[2]]


# =============================================================================================
# 2. moments
# =============================================================================================
def mean(xs):
    return math.fsum(xs) / len(xs)


def sum_sq_about_mean(xs):
    mu = mean(xs)
    return math.fsum((x - mu) ** 2 for x in xs)


def pop_sd(xs):
    """Population standard deviation sqrt(sum (x - mean)^2 / n)."""
    return math.sqrt(sum_sq_about_mean(xs) / len(xs))


def sample_sd(xs):
    """Sample standard deviation sqrt(sum (x - mean)^2 / (n - 1)); None for n < 2."""
    n = len(xs)
    if n < 2:
        return None
    return math.sqrt(sum_sq_about_mean(xs) / (n - 1))


def sem(xs):
    """Standard error of the mean s / sqrt(n), s the sample standard deviation; None for n < 2."""
    s = sample_sd(xs)
    return None if s is None else s / math.sqrt(len(xs))


def mean_square(xs):
    """Mean of the squares (the mean squared error of residuals xs, measured from zero)."""
    return math.fsum(x * x for x in xs) / len(xs)


def t_statistic(xs, mu0=0.0):
    """One-sample t statistic (mean - mu0) / (s / sqrt(n)) and its degrees of freedom n - 1.
    None when undefined (n < 2 or zero sample variance)."""
    se = sem(xs)
    if se is None or se == 0.0:
        return None
    return (mean(xs) - mu0) / se, len(xs) - 1


# =============================================================================================
# 3. percentile interval
# =============================================================================================
def percentile_interval(xs, alpha):
    """(alpha/2, 1 - alpha/2) sample quantiles, linear interpolation (Hyndman-Fan 7)."""
    return S.quantile(xs, alpha / 2.0), S.quantile(xs, 1.0 - alpha / 2.0)


# =============================================================================================
# 4. normal tail probability and Benjamini-Hochberg
# =============================================================================================
def two_sided_normal_p(z):
    """P(|Z| >= |z|) for a standard normal Z: 2 * Phi(-|z|) = erfc(|z| / sqrt 2)."""
    return math.erfc(abs(z) / math.sqrt(2.0))


def bh_adjust(ps):
    """Benjamini-Hochberg adjusted p-values (step-up), in the order of the input.

    With p_(1) <= ... <= p_(m) the sorted values, the adjusted value of the one of rank i is
    min over j >= i of p_(j) * m / j, capped at 1.  Tied p-values receive the same value.
    """
    m = len(ps)
    order = sorted(range(m), key=lambda i: ps[i])
    out = [None] * m
    running = 1.0
    for rank in range(m, 0, -1):
        i = order[rank - 1]
        running = min(running, ps[i] * m / rank)
        out[i] = running
    return out


def bintest_model(bins, segs, target_only=False, antitarget_names=("Antitarget", "Background")):
    """Per-bin z-test of the statement.

    bins: rows (chromosome, start, end, gene, log2, weight); segs: rows (chromosome, start, end, log2).
    Every bin is tested against the one segment that contains it.  Returns
    {"tested": [bin indices], "z": [...], "p": [...], "q": [...], "undefined": bool, "uncovered": [...]}
    where z is +-inf for weight 1 and a non-zero residual, and `undefined` flags a 0/0 (weight 1,
    zero residual), for which the statement defines no p-value.
    """
    tested, zs, raw, uncovered = [], [], [], []
    undefined = False
    for i, b in enumerate(bins):
        if target_only and b[3] in antitarget_names:
            continue
        owners = [s for s in segs if s[0] == b[0] and b[1] >= s[1] and b[2] <= s[2]]
        if len(owners) != 1:
            uncovered.append(i)
            continue
        resid = b[4] - owners[0][3]
        var = 1.0 - b[5]
        if var <= 0.0:
            if resid == 0.0:
                undefined = True
                z = float("nan")
                p = float("nan")
            else:
                z = math.copysign(float("inf"), resid)
                p = 0.0
        else:
            z = resid / math.sqrt(var)
            p = two_sided_normal_p(z)
        tested.append(i)
        zs.append(z)
        raw.append(p)
    q = bh_adjust(raw) if not undefined else [float("nan")] * len(raw)
    return {"tested": tested, "z": zs, "p": raw, "q": q, "undefined": undefined, "uncovered": uncovered}

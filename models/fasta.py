"""Reference model of the `access` command: FASTA records -> accessible regions.

Pure Python on strings, ints, sets and lists; never imports cnvlib / skgenome.

The oracle works from the *records* (name, sequence) the harness rendered into FASTA text, so it
never parses the file the implementation reads.  Formulation 1 (used by checks/c13.py):

    non_n_runs      regular expression  [^N]+  over the whole sequence
    remove_bases    explicit sets of base positions, pieces stay inside their original run
    join_strict     one pass over the pieces, bridging every gap < min_gap
    judge_join      decides whether an observed region list is an admissible joining of the pieces
                    (a gap exactly equal to the minimum may be kept or bridged: the statement
                    says "smaller" joins and "larger" stays, and is silent on "equal")

Formulation 2 (selftest/fasta.py cross-examines it against 1 on the whole alphabet): a character
by character walk over the rendered *text* (`scan_text`) and an endpoint sweep (`sweep_remove`).

`line_trace` classifies the lines of a rendered text by what a line-oriented scanner would have to
do there (all-N line with / without an open run, mixed line, run ending exactly at a line end, ...);
the check only uses it to count strata, never as an oracle.
"""
import re

_NON_N = re.compile("[^N]+")


# ---- rendering ----------------------------------------------------------------------------------
def render(records, width, final_newline=True, describe=False):
    """FASTA text of records [(name, sequence), ...] with sequence lines of `width` characters.

    An empty sequence is a header with no sequence line (never a blank line).  With `describe`
    each header carries a description that itself contains N characters and a '>'.
    """
    lines = []
    for name, seq in records:
        lines.append(">" + name + (" N description >N NNN" if describe else ""))
        for i in range(0, len(seq), width):
            lines.append(seq[i : i + width])
    text = "\n".join(lines)
    if final_newline and lines:
        text += "\n"
    return text


# ---- formulation 1 ------------------------------------------------------------------------------
def non_n_runs(seq):
    """Maximal runs of characters other than 'N', 0-based half-open."""
    return [(m.start(), m.end()) for m in _NON_N.finditer(seq)]


def accessible(records):
    """[(name, start, end), ...] in record order."""
    return [(name, s, e) for name, seq in records for s, e in non_n_runs(seq)]


def runs_of(points):
    out = []
    for x in sorted(points):
        if out and out[-1][1] == x:
            out[-1][1] = x + 1
        else:
            out.append([x, x + 1])
    return [tuple(r) for r in out]


def remove_bases(runs, excluded):
    """Each run minus the excluded positions (a set); pieces stay inside their original run."""
    out = []
    for s, e in runs:
        out += runs_of(p for p in range(s, e) if p not in excluded)
    return out


def excluded_positions(intervals):
    pos = set()
    for s, e in intervals:
        pos.update(range(s, e))
    return pos


def join_strict(pieces, min_gap):
    """Bridge every gap smaller than min_gap (pieces sorted, disjoint, separated by >= 1 base)."""
    out = []
    for s, e in pieces:
        if out and s - out[-1][1] < min_gap:
            out[-1][1] = e
        else:
            out.append([s, e])
    return [tuple(r) for r in out]


def judge_join(pieces, observed, min_gap, equal_open=True):
    """Why `observed` is not an admissible joining of `pieces`; [] when it is.

    Admissible: the observed regions are consecutive groups of the pieces, each spanning from the
    first piece's start to the last piece's end; every gap inside a group is < min_gap (or == when
    equal_open); every gap between groups is > min_gap (or == when equal_open) -- i.e. smaller gaps
    are joined, larger gaps are left.
    Reasons (strings) are ordered from base-level facts to structural ones.
    """
    if not equal_open:
        want = join_strict(pieces, min_gap)
        if list(observed) == want:
            return []
    else:
        if _admissible(pieces, observed, min_gap):
            return []
    reasons = []
    P = excluded_positions(pieces)
    O = excluded_positions((s, e) for s, e in observed if e > s)
    bridge_ok, must_bridge = set(), set()
    for (s0, e0), (s1, e1) in zip(pieces[:-1], pieces[1:]):
        gap = s1 - e0
        if gap < min_gap:
            must_bridge.update(range(e0, s1))
            bridge_ok.update(range(e0, s1))
        elif gap == min_gap and equal_open:
            bridge_ok.update(range(e0, s1))
    if P - O:
        reasons.append("accessible-base-missing")
    if O - P - bridge_ok:
        reasons.append("inaccessible-base-reported")
    if not (P - O) and must_bridge - O:
        reasons.append("small-gap-not-joined")
    if not reasons:
        reasons.append("not-a-joining-of-the-pieces")
    return reasons


def _admissible(pieces, observed, min_gap):
    i = 0
    n = len(pieces)
    for s, e in observed:
        if i >= n or pieces[i][0] != s:
            return False
        while pieces[i][1] != e:
            if i + 1 >= n or pieces[i][1] > e:
                return False
            if pieces[i + 1][0] - pieces[i][1] > min_gap:  # a larger gap must be left
                return False
            i += 1
        i += 1
        if i < n and pieces[i][0] - e < min_gap:  # a smaller gap must be joined
            return False
    return i == n


def expected_access(records, excludes, min_gap, keep):
    """{name: (pieces, strict_join)} for the records whose name passes `keep(name)`.

    excludes: iterable of (contig, start, end), the union over all exclude files.
    """
    out = {}
    for name, seq in records:
        if not keep(name):
            continue
        ex = excluded_positions((s, e) for c, s, e in excludes if c == name)
        pieces = remove_bases(non_n_runs(seq), ex)
        if pieces:
            out[name] = (pieces, join_strict(pieces, min_gap))
    return out


# ---- formulation 2 (cross-examination) ------------------------------------------------------------
def scan_text(text):
    """Character-by-character walk over FASTA text -> [(name, start, end), ...]."""
    out = []
    name = None
    pos = 0
    start = None
    i = 0
    n = len(text)
    at_line_start = True
    while i < n:
        ch = text[i]
        if at_line_start and ch == ">":
            if start is not None:
                out.append((name, start, pos))
            j = text.find("\n", i)
            j = n if j < 0 else j
            header = text[i + 1 : j]
            name = header.split()[0] if header.split() else ""
            pos, start = 0, None
            i = j + 1
            at_line_start = True
            continue
        if ch == "\n":
            at_line_start = True
            i += 1
            continue
        at_line_start = False
        if ch == "N":
            if start is not None:
                out.append((name, start, pos))
                start = None
        elif start is None:
            start = pos
        pos += 1
        i += 1
    if start is not None:
        out.append((name, start, pos))
    return out


def sweep_remove(runs, intervals):
    """Each run minus the union of intervals, by an endpoint sweep."""
    merged = []
    for s, e in sorted((s, e) for s, e in intervals if e > s):
        if merged and s <= merged[-1][1]:
            merged[-1][1] = max(merged[-1][1], e)
        else:
            merged.append([s, e])
    out = []
    for s, e in runs:
        cur = s
        for bs, be in merged:
            if be <= cur or bs >= e:
                continue
            if bs > cur:
                out.append((cur, bs))
            cur = max(cur, be)
        if cur < e:
            out.append((cur, e))
    return out


def join_by_definition(pieces, min_gap):
    """Connected components of 'neighbouring pieces whose gap < min_gap'."""
    if not pieces:
        return []
    cut = [j for j in range(1, len(pieces)) if not pieces[j][0] - pieces[j - 1][1] < min_gap]
    bounds = [0] + cut + [len(pieces)]
    return [(pieces[a][0], pieces[b - 1][1]) for a, b in zip(bounds[:-1], bounds[1:])]


# ---- strata ---------------------------------------------------------------------------------------
def line_trace(records, width):
    """Set of scanner situations the rendering of `records` at `width` contains."""
    feats = set()
    for k, (name, seq) in enumerate(records):
        if not seq:
            feats.add("record-empty")
        open_run = False
        nlines = 0
        for i in range(0, len(seq), width):
            line = seq[i : i + width]
            nlines += 1
            o = "open-run" if open_run else "no-open-run"
            if "N" not in line:
                feats.add("line-without-N/" + o)
                open_run = True
            elif line.count("N") == len(line):
                feats.add("line-all-N/" + o)
                open_run = False
            else:
                feats.add("line-mixed/" + o + ("/starts-with-N" if line[0] == "N" else "/starts-with-base"))
                if re.search("N[^N]+N", line):
                    feats.add("line-mixed/inner-run")
                open_run = line[-1] != "N"
                feats.add("line-mixed/ends-with-" + ("base" if open_run else "N"))
            if "n" in line:
                feats.add("lower-case-n")
        if nlines > 1:
            feats.add("multi-line-record")
        if len(seq) % width and nlines:
            feats.add("short-last-line")
        feats.add(("record-ends" if k + 1 == len(records) else "next-header") + ("/open-run" if open_run else "/no-open-run"))
        for s, e in non_n_runs(seq):
            if e - s > 0:
                if s % width == 0:
                    feats.add("run-starts-at-line-start")
                if e % width == 0 and e < len(seq):
                    feats.add("run-ends-at-line-end")
                if (e - 1) // width > s // width:
                    feats.add("run-straddles-break")
        for m in re.finditer("N+", seq):
            if m.start() // width < (m.end() - 1) // width:
                feats.add("N-run-straddles-break")
    if len(records) > 1:
        feats.add("multi-record")
    return feats

"""Reference model for C14: `call --filter` as run-length merging of like neighbours.

Pure Python on lists of row dicts; nothing here imports cnvlib / skgenome / pandas.

A *row* is a dict with chromosome, start, end, log2, probes, weight and the columns the filter reads
(cn [, cn1, cn2] / ci_lo, ci_hi / sem); a missing allele-specific copy number is None.

Two formulations of the statement live here and are evaluated independently on every case:

* constructive (`apply`): maximal runs of consecutive rows on one chromosome with equal level -> one row
  each (first start, last end, sum probes, sum weight, weight-averaged log2); `ampdel` then keeps only the
  deleted / amplified runs;
* clause-wise (`clauses`): total probes, total weight, per-chromosome span, every output row covers a
  block of same-level input rows of its own chromosome, every input row is covered once, neighbouring
  outputs differ in level.  It never builds runs; it only looks at which input rows an output row covers.

What the statement leaves open is kept open:

* a CI (or log2 +- 1.96 sem) that *touches* zero may be read as straddling or as above/below: each such row
  has several admissible levels and `level_alternatives` returns every admissible level vector;
* for ampdel / ci / sem on a table that also carries allele-specific copy numbers the level may or may not
  be refined by (cn1, cn2) (the implementation refines it; the statement attaches "allele-specific" to cn);
* the log2 of a run whose weights sum to zero (a weighted average is undefined there): `log2` is None;
* the cn of a merged ampdel run.
"""
import itertools
import math

ZSCORE = 1.96
TOUCH_EPS = 1e-12
NEUTRAL, ABOVE, BELOW = "neutral", "above", "below"
AMP, DEL = "amp", "del"
MAX_ALTERNATIVES = 4096


# ------------------------------------------------------------------------------------------------
# levels


def interval_levels(lo, hi):
    """Admissible readings of an interval [lo, hi] relative to zero (first = strict comparison)."""
    if lo > TOUCH_EPS:
        return (ABOVE,)
    if hi < -TOUCH_EPS:
        return (BELOW,)
    out = [NEUTRAL]
    if abs(lo) <= TOUCH_EPS:
        out.append(ABOVE)
    if abs(hi) <= TOUCH_EPS:
        out.append(BELOW)
    return tuple(out)


def ci_levels(row):
    return interval_levels(row["ci_lo"], row["ci_hi"])


def sem_levels(row):
    margin = ZSCORE * row["sem"]
    return interval_levels(row["log2"] - margin, row["log2"] + margin)


def ampdel_level(row):
    if row["cn"] == 0:
        return DEL
    if row["cn"] >= 5:
        return AMP
    return NEUTRAL


def allelic_key(row):
    """(cn1, cn2) with None for missing; None == None, None != number: missing equals only missing."""
    return (row.get("cn1"), row.get("cn2"))


def is_allelic(rows):
    return bool(rows) and "cn1" in rows[0]


def level_alternatives(filt, rows):
    """Every admissible level vector for `rows` under filter `filt`.

    A level is a tuple whose first item is the filter's own class (cn value / above,below,neutral /
    amp,del,neutral); for allele-aware readings (cn1, cn2) follow.
    """
    allelic = is_allelic(rows)
    if filt == "cn":
        base = [[(r["cn"],) + (allelic_key(r) if allelic else ()) for r in rows]]
        return base
    if filt == "ampdel":
        vecs = [[(ampdel_level(r),) for r in rows]]
    elif filt in ("ci", "sem"):
        per_row = [ci_levels(r) if filt == "ci" else sem_levels(r) for r in rows]
        n_alt = 1
        for p in per_row:
            n_alt *= len(p)
        if n_alt > MAX_ALTERNATIVES:
            raise ValueError("too many touching rows for the model (%d readings)" % n_alt)
        vecs = [[(lv,) for lv in combo] for combo in itertools.product(*per_row)]
    else:
        raise ValueError(filt)
    if allelic:
        vecs = vecs + [[lv + allelic_key(r) for lv, r in zip(vec, rows)] for vec in vecs]
    return vecs


def keeps(filt, level):
    return filt != "ampdel" or level[0] in (AMP, DEL)


# ------------------------------------------------------------------------------------------------
# constructive formulation


def runs(rows, levels):
    """Maximal runs [i, j] (inclusive) of consecutive rows with one chromosome and one level."""
    out = []
    i = 0
    n = len(rows)
    while i < n:
        j = i
        while j + 1 < n and rows[j + 1]["chromosome"] == rows[i]["chromosome"] and levels[j + 1] == levels[i]:
            j += 1
        out.append((i, j))
        i = j + 1
    return out


def squash(rows, i, j, level):
    part = rows[i : j + 1]
    wsum = math.fsum(r["weight"] for r in part)
    if wsum > 0:
        log2 = math.fsum(r["weight"] * r["log2"] for r in part) / wsum
    else:
        log2 = None  # open: a weighted average over zero total weight is undefined
    return {
        "chromosome": rows[i]["chromosome"],
        "start": rows[i]["start"],
        "end": rows[j]["end"],
        "probes": sum(r["probes"] for r in part),
        "weight": wsum,
        "log2": log2,
        "level": level,
        "members": (i, j),
    }


def apply(filt, rows, levels):
    out = []
    for i, j in runs(rows, levels):
        if keeps(filt, levels[i]):
            out.append(squash(rows, i, j, levels[i]))
    return out


# ------------------------------------------------------------------------------------------------
# clause-wise formulation


def close(a, b, tol=1e-9):
    return abs(a - b) <= tol * max(1.0, abs(a), abs(b))


def spans(rows):
    d = {}
    for r in rows:
        lo, hi = d.get(r["chromosome"], (r["start"], r["end"]))
        d[r["chromosome"]] = (min(lo, r["start"]), max(hi, r["end"]))
    return {c: list(v) for c, v in sorted(d.items())}


def clauses(filt, rows, levels, out):
    """Failing conservation clauses of `out` (rows with chromosome, start, end, probes, weight).

    Returns a list of (clause id, clause text, expected, observed).
    """
    fails = []
    kept = [i for i in range(len(rows)) if keeps(filt, levels[i])]
    what = "the deleted/amplified input rows" if filt == "ampdel" else "the input"
    want_p = sum(rows[i]["probes"] for i in kept)
    got_p = sum(o["probes"] for o in out)
    if want_p != got_p:
        fails.append(("total-probes", f"total probes of the output equal those of {what}", want_p, got_p))
    want_w = math.fsum(rows[i]["weight"] for i in kept)
    got_w = math.fsum(o["weight"] for o in out)
    if not close(want_w, got_w):
        fails.append(("total-weight", f"total weight of the output equals that of {what}", want_w, got_w))
    want_s = spans([rows[i] for i in kept])
    got_s = spans(out)
    if want_s != got_s:
        fails.append(("span", f"each chromosome's covered span [first start, last end] equals that of {what}", want_s, got_s))
    # which input rows does each output row cover?
    covered = {}
    blocks = []
    bad_level = bad_edge = None
    for k, o in enumerate(out):
        members = [i for i, r in enumerate(rows) if r["chromosome"] == o["chromosome"] and o["start"] <= r["start"] and r["end"] <= o["end"]]
        blocks.append(members)
        for i in members:
            covered.setdefault(i, []).append(k)
        if len({levels[i] for i in members}) > 1 and bad_level is None:
            bad_level = (k, [list(levels[i]) for i in members])
        if members and (rows[members[0]]["start"] != o["start"] or rows[members[-1]]["end"] != o["end"]) and bad_edge is None:
            bad_edge = (k, [rows[members[0]]["start"], rows[members[-1]]["end"]], [o["start"], o["end"]])
        if members and not keeps(filt, levels[members[0]]) and bad_level is None:
            bad_level = (k, [list(levels[i]) for i in members])
    if bad_level is not None:
        fails.append(
            (
                "one-level-per-output",
                "no output segment merges across a level change" + (" and ampdel keeps only deleted/amplified runs" if filt == "ampdel" else ""),
                "all covered input rows share one" + (" deleted/amplified" if filt == "ampdel" else "") + " level",
                {"output_row": bad_level[0], "levels_covered": bad_level[1]},
            )
        )
    if bad_edge is not None:
        fails.append(("edges", "an output segment runs from its first input segment's start to its last one's end", bad_edge[1], bad_edge[2]))
    wrong = [i for i in kept if len(covered.get(i, [])) != 1]
    empty = [k for k, b in enumerate(blocks) if not b]
    if wrong or empty:
        fails.append(
            (
                "covers-each-input-once",
                f"every row of {what} lies in exactly one output segment of its own chromosome, and every output segment covers some input row",
                "each kept input row covered once; no empty output",
                {"input_rows_not_covered_once": wrong, "outputs_covering_nothing": empty},
            )
        )
    for k in range(len(out) - 1):
        a, b = blocks[k], blocks[k + 1]
        if not a or not b or out[k]["chromosome"] != out[k + 1]["chromosome"]:
            continue
        if a[-1] + 1 == b[0] and levels[a[-1]] == levels[b[0]]:
            fails.append(
                (
                    "neighbours-differ",
                    "neighbouring output segments (consecutive in the input, same chromosome) differ in level",
                    "different levels",
                    {"output_rows": [k, k + 1], "level": list(levels[b[0]])},
                )
            )
            break
    return fails


# ------------------------------------------------------------------------------------------------
# comparison of an observed table with the constructive model


def compare(filt, rows, levels, out):
    """Mismatches between the observed output rows and apply(filt, rows, levels).

    `out` rows: chromosome, start, end, probes, weight, log2 and (if present) cn, cn1, cn2 (None = missing).
    Returns a list of (clause id, clause text, expected, observed); at most the first failing item of the
    chain  rows -> probes -> weight -> log2 -> level  is reported (later ones are consequences).
    """
    want = apply(filt, rows, levels)
    wc = [[w["chromosome"], w["start"], w["end"]] for w in want]
    oc = [[o["chromosome"], o["start"], o["end"]] for o in out]
    if wc != oc:
        return [
            (
                "rows",
                "each maximal run of consecutive same-chromosome segments sharing the filter's level becomes one segment from the run's first start to its last end"
                + (" (ampdel keeps the cn = 0 / cn >= 5 runs)" if filt == "ampdel" else ""),
                wc,
                oc,
            )
        ]
    wp, op = [w["probes"] for w in want], [o["probes"] for o in out]
    if wp != op:
        return [("probes", "a merged segment's probes are the sum over its run", wp, op)]
    ww, ow = [w["weight"] for w in want], [o["weight"] for o in out]
    if not all(close(a, b) for a, b in zip(ww, ow)):
        return [("weight", "a merged segment's weight is the sum over its run", ww, ow)]
    wl, ol = [w["log2"] for w in want], [o["log2"] for o in out]
    if not all(a is None or (b is not None and close(a, b)) for a, b in zip(wl, ol)):
        return [("log2", "a merged segment's log2 is the weight-averaged log2 of its run (runs of total weight 0 left open)", wl, ol)]
    if filt == "cn":
        names = ["cn"] + (["cn1", "cn2"] if is_allelic(rows) else [])
        wl = [list(w["level"]) for w in want]
        ol = [[o.get(c) for c in names] for o in out]
        if wl != ol:
            return [("level", "a segment merged by cn carries the (allele-specific) copy number its run shares", wl, ol)]
    return []

"""Reference model of interval arithmetic: a chromosome is a set of base positions.

Pure Python on ints, sets and lists; never imports cnvlib / skgenome.  Rows are tuples
(chrom, start, end, *other_fields), half-open.  Two formulations are provided and
cross-examined in selftest/: `bases_*` (explicit sets of positions, for small grids) and
`sweep_*` (sorted endpoint sweeps, exact at any coordinate scale).
"""


# ---- formulation 1: explicit base sets ------------------------------------------------------
def bases(rows):
    """{chrom: set(positions)} of the union of rows (empty chromosomes dropped)."""
    d = {}
    for r in rows:
        if r[2] > r[1]:
            d.setdefault(r[0], set()).update(range(r[1], r[2]))
    return d


def runs(points):
    """Maximal runs [(s, e), ...] of a set of integers."""
    out = []
    for x in sorted(points):
        if out and out[-1][1] == x:
            out[-1][1] = x + 1
        else:
            out.append([x, x + 1])
    return [tuple(r) for r in out]


def bases_to_cover(b):
    return {c: runs(p) for c, p in b.items() if p}


# ---- formulation 2: sweeps over sorted interval lists ----------------------------------------
def norm(ivs):
    """Sorted, disjoint, non-abutting, non-empty intervals covering the same bases."""
    out = []
    for s, e in sorted((s, e) for s, e in ivs if e > s):
        if out and s <= out[-1][1]:
            if e > out[-1][1]:
                out[-1][1] = e
        else:
            out.append([s, e])
    return [tuple(x) for x in out]


def cover(rows):
    """{chrom: normalised interval list} of the union of rows."""
    d = {}
    for r in rows:
        d.setdefault(r[0], []).append((r[1], r[2]))
    d = {c: norm(v) for c, v in d.items()}
    return {c: v for c, v in d.items() if v}


def iv_subtract(a, b):
    """a - b for normalised lists a, b -> normalised list."""
    out = []
    b = list(b)
    for s, e in a:
        cur = s
        for bs, be in b:
            if be <= cur:
                continue
            if bs >= e:
                break
            if bs > cur:
                out.append((cur, bs))
            cur = max(cur, be)
            if cur >= e:
                break
        if cur < e:
            out.append((cur, e))
    return out


def iv_intersect(a, b):
    out = []
    for s, e in a:
        for bs, be in b:
            lo, hi = max(s, bs), min(e, be)
            if lo < hi:
                out.append((lo, hi))
    return norm(out)


def cover_subtract(ca, cb):
    d = {c: iv_subtract(v, cb.get(c, [])) for c, v in ca.items()}
    return {c: v for c, v in d.items() if v}


def cover_intersect(ca, cb):
    d = {c: iv_intersect(v, cb[c]) for c, v in ca.items() if c in cb}
    return {c: v for c, v in d.items() if v}


def cover_size(c):
    return sum(e - s for v in c.values() for s, e in v)


# ---- row-level operations ---------------------------------------------------------------------
def merge_rows(rows, bp=0):
    """Per chromosome (first-appearance order kept by caller's sort): groups of rows chained
    while the gap to the running maximum end is <= -bp; each group -> (chrom, first start, max end).
    rows must be sorted by (chrom grouping, start, end)."""
    out = []
    for chrom in _chrom_order(rows):
        crow = sorted([r for r in rows if r[0] == chrom], key=lambda r: (r[1], r[2]))
        cur = None
        for r in crow:
            if cur is not None and r[1] - cur[2] <= -bp:
                cur[2] = max(cur[2], r[2])
            else:
                if cur is not None:
                    out.append(tuple(cur))
                cur = [chrom, r[1], r[2]]
        if cur is not None:
            out.append(tuple(cur))
    return out


def flatten_rows(rows):
    """Disjoint pieces covering the union, cut at every input boundary (per chromosome)."""
    out = []
    for chrom in _chrom_order(rows):
        crow = [r for r in rows if r[0] == chrom and r[2] > r[1]]
        cuts = sorted({x for r in crow for x in (r[1], r[2])})
        for s, e in zip(cuts[:-1], cuts[1:]):
            if any(r[1] <= s and r[2] >= e for r in crow):
                out.append((chrom, s, e))
    return out


def subtract_rows(rows, other):
    """For each row in order: maximal pieces of row - union(other), carrying the row's fields."""
    cb = cover(other)
    out = []
    for r in rows:
        for s, e in iv_subtract(norm([(r[1], r[2])]), cb.get(r[0], [])):
            out.append((r[0], s, e) + tuple(r[3:]))
    return out


def subdivide_counts(length, avg):
    """Acceptable bin counts for a region: max(1, round(length/avg)); an exact .5 tie may round
    either way (the statement says `round`, not which tie rule)."""
    q, rem = divmod(length, avg)
    if 2 * rem == avg:  # fractional part exactly .5
        return {max(1, q), max(1, q + 1)}
    return {max(1, q + (1 if 2 * rem > avg else 0))}


def resize_rows(rows, bp, sizes=None):
    out = []
    for r in rows:
        s, e = max(0, r[1] - bp), max(0, r[2] + bp)
        if sizes:
            s, e = min(s, sizes[r[0]]), min(e, sizes[r[0]])
        if e - s <= 0:
            continue
        out.append((r[0], s, e) + tuple(r[3:]))
    return out


def _chrom_order(rows):
    seen = []
    for r in rows:
        if r[0] not in seen:
            seen.append(r[0])
    return seen


# ---- range queries (C07) ----------------------------------------------------------------------
def select(rows, q, mode):
    """Rows of `rows` (table order) selected by query q=(chrom, qs, qe) under mode."""
    c, qs, qe = q[0], q[1], q[2]
    if mode == "outer":
        return [r for r in rows if r[0] == c and r[1] < qe and r[2] > qs]
    if mode == "inner":
        return [r for r in rows if r[0] == c and r[1] >= qs and r[2] <= qe]
    if mode == "trim":
        return [
            (r[0], max(r[1], qs), min(r[2], qe)) + tuple(r[3:])
            for r in rows
            if r[0] == c and r[1] < qe and r[2] > qs
        ]
    raise ValueError(mode)

"""Reference model of the `reference` command: pooled consensus, flat expectation, gc / rmask.

Pure Python (`math` only) on lists, dicts and strings; never imports cnvlib / skgenome / numpy / pandas.
Everything is re-derived from the statement of C05, not from cnvlib/reference.py:

  1. chromosome roles        role_of (autosome / X / Y / other) in either naming style
  2. copy-number expectation copies, flat_log2 (neutral pseudo-sample), sex_shift
  3. centring                centre_of (median over autosomes of the per-chromosome medians)
  4. Tukey's biweight        biweight_location (iteratively re-weighted mean form), biweight_midvariance
  5. pooled reference        pooled_reference -> per-bin inputs of the estimators, acceptable log2, spread judge
  6. FASTA                   parse_fasta, gc_rmask, slice statistics

The estimators here are written in a different shape from models/stats.py (weighted-mean form with an explicit
weight function instead of "estimate + correction"); selftest/refbuild.py cross-examines the two, and the
copy-number formulation of the sex shift against the "add the flat row, then +1 / := -1" recipe.
"""
import math

MAD_TO_SD = 1.4826
SQRT2 = math.sqrt(2.0)


# =============================================================================================
# 1. chromosome roles
# =============================================================================================
def role_of(chrom):
    """'auto' for (chr)?<integer>, 'X', 'Y' for (chr)?X / (chr)?Y, 'other' otherwise."""
    bare = chrom[3:] if chrom.startswith("chr") else chrom
    if bare.isdigit():
        return "auto"
    if bare in ("X", "Y"):
        return bare
    return "other"


# =============================================================================================
# 2. copy-number expectation
# =============================================================================================
def copies(role, male):
    """Copies of a chromosome in a normal genome of the given sex (Y of a female: none)."""
    if role == "X":
        return 1 if male else 2
    if role == "Y":
        return 1 if male else 0
    return 2


def flat_log2(role, ref_male):
    """Neutral expectation relative to a diploid autosome in the reference sex.  chrY is reported at the
    single-copy level in both sexes (a female reference has no Y signal; the statement fixes -1)."""
    if role == "Y":
        return -1.0
    return math.log2(copies(role, ref_male) / 2.0)


def to_reference_sex(value, role, sample_male, ref_male):
    """A centred sample log2 expressed in the reference sex: scaled by (reference copies / sample copies);
    a female sample carries no chrY signal, so the neutral single-copy level stands in for it.
    On chrY a male sample is already at the single-copy level the reference reports (shift 0)."""
    if role == "Y":
        return value if sample_male else -1.0
    if role == "X":
        return value + math.log2(copies("X", ref_male) / copies("X", sample_male))
    return value


def to_reference_sex_recipe(value, role, sample_male, ref_male):
    """Second formulation (the recipe in DESIGN 5/C05): add the flat row; female: Y := -1; male: X, Y += 1."""
    v = value + flat_log2(role, ref_male)
    if not sample_male:
        return -1.0 if role == "Y" else v
    return v + 1.0 if role in ("X", "Y") else v


# =============================================================================================
# 3. centring
# =============================================================================================
def median(xs):
    s = sorted(xs)
    n = len(s)
    if not n:
        raise ValueError("median of nothing")
    return s[n // 2] if n % 2 else 0.5 * (s[n // 2 - 1] + s[n // 2])


def centre_of(bins):
    """bins = [(chrom, log2), ...] -> median over the autosomes of each autosome's median log2."""
    per = {}
    for chrom, v in bins:
        if role_of(chrom) == "auto":
            per.setdefault(chrom, []).append(v)
    if not per:
        raise ValueError("no autosomal bin")
    return median([median(v) for v in per.values()])


# =============================================================================================
# 4. Tukey's biweight
# =============================================================================================
def _bisquare(u):
    return (1.0 - u * u) ** 2 if abs(u) < 1.0 else 0.0


def biweight_location(xs, c=6.0, tol=1e-3, max_iter=5, slack=1e-9):
    """Iteratively re-weighted mean with Tukey's bisquare weights (Mosteller & Tukey 1977):

        m_0 = median;  u_i = (x_i - m_k) / max(c * median|x - m_k|, tol);  w_i = (1 - u_i^2)^2 [|u_i| < 1]
        m_{k+1} = sum w_i x_i / sum w_i      (m_k when every weight is zero)

    at most `max_iter` steps, stopping after the first step that moves the estimate by <= tol.
    Returns (acceptable values, info).  More than one value only when a step length is within `slack`
    of `tol` (both continuations are then acceptable).  info flags, over all steps taken:
      zero_residual  some observation coincided with the current estimate (u = 0, weight exactly 1)
      shoulder       some observation had 1 <= |u| < sqrt(2)  (rejected, yet (1-u^2)^2 < 1)
      rejected       some observation had |u| >= 1
      floor          the tol floor replaced c * MAD
    """
    info = {"zero_residual": False, "shoulder": False, "rejected": False, "floor": False, "steps": 0, "borderline": False}
    out = []
    frontier = [(median(xs), 1)]
    while frontier:
        m, k = frontier.pop()
        s_mad = median([abs(x - m) for x in xs])
        scale = c * s_mad
        if scale < tol:
            scale = tol
            info["floor"] = True
        sw = swx = 0.0
        ws, wxs = [], []
        for x in xs:
            u = (x - m) / scale
            if u == 0.0:
                info["zero_residual"] = True
            if abs(u) >= 1.0:
                info["rejected"] = True
                if abs(u) < SQRT2:
                    info["shoulder"] = True
            w = _bisquare(u)
            ws.append(w)
            wxs.append(w * (x - m))
        sw = math.fsum(ws)
        new = m + math.fsum(wxs) / sw if sw > 0.0 else m
        info["steps"] = max(info["steps"], k)
        step = abs(new - m)
        near = abs(step - tol) <= slack
        if near:
            info["borderline"] = True
        if step <= tol or near or k == max_iter:
            out.append(new)
        if (step > tol or near) and k < max_iter:
            frontier.append((new, k + 1))
    return out, info


def biweight_midvariance(xs, centre, c=9.0, floor=1e-3):
    """sqrt of the biweight midvariance about `centre`:

        u_i = (x_i - M) / max(c * median|x - M|, floor)
        s^2 = n * sum' (x_i - M)^2 (1 - u_i^2)^4 / (sum' (1 - u_i^2)(1 - 5 u_i^2))^2,   sum' over |u_i| < 1

    `values` holds s for n = number of observations with |u| < 1 and for n = all observations (published
    forms differ).  `sum_u` ~ 0 marks exactly symmetric data, where 1.4826 * MAD (`mad_fallback`) is the
    documented fallback (C19).  `values` is empty when the denominator vanishes.
    """
    d = [x - centre for x in xs]
    s_mad = median([abs(v) for v in d])
    scale = max(c * s_mad, floor)
    num, den, su, sau = [], [], [], []
    n_in = 0
    for v in d:
        u = v / scale
        if abs(u) < 1.0:
            n_in += 1
            q = 1.0 - u * u
            num.append(v * v * q**4)
            den.append(q * (1.0 - 5.0 * u * u))
            su.append(u)
            sau.append(abs(u))
    dd = math.fsum(den)
    vals = []
    if dd != 0.0:
        top = math.fsum(num)
        vals = [math.sqrt(n * top) / abs(dd) for n in sorted({n_in, len(xs)})]
    return {
        "values": vals,
        "mad_fallback": MAD_TO_SD * s_mad,
        "sum_u": math.fsum(su),
        "sum_abs_u": math.fsum(sau),
        "n_inside": n_in,
        "n_total": len(xs),
    }


def spread_ok(observed, xs, centre, tol=1e-6, sym_tol=1e-9):
    """Is `observed` an acceptable midvariance of xs about `centre`?  -> (ok, model dict)."""
    mv = biweight_midvariance(xs, centre)
    near_sym = abs(mv["sum_u"]) <= sym_tol * max(1.0, mv["sum_abs_u"])
    mv["near_symmetric"] = near_sym
    if not isinstance(observed, float) or not math.isfinite(observed):
        return False, mv
    ok = any(close(observed, v, tol) for v in mv["values"])
    if near_sym or not mv["values"]:
        ok = ok or close(observed, mv["mad_fallback"], tol)
    return ok, mv


def close(a, b, tol):
    return abs(a - b) <= tol * max(1.0, abs(a), abs(b))


# =============================================================================================
# 5. pooled reference
# =============================================================================================
def pooled_reference(blocks, sample_male, ref_male):
    """blocks: list of coverage-file groups (targets; antitargets), each a list over samples of
    [(chrom, start, end, log2), ...] with identical bins in every sample.  Files are centred one by one
    (each coverage file is its own table), the same sex per sample in every block.
    sample_male[i] = sex attributed to sample i.

    Returns {(chrom, start, end): {"values": [pseudo, s1, s2, ...], "log2": [acceptable...], "info": {...}}}.
    """
    out = {}
    for samples in blocks:
        if not samples or not samples[0]:
            continue
        centred = []
        for i, rows in enumerate(samples):
            c0 = centre_of([(r[0], r[3]) for r in rows])
            centred.append([to_reference_sex(r[3] - c0, role_of(r[0]), sample_male[i], ref_male) for r in rows])
        for j, r in enumerate(samples[0]):
            vals = [flat_log2(role_of(r[0]), ref_male)] + [cs[j] for cs in centred]
            loc, info = biweight_location(vals)
            key = (r[0], r[1], r[2])
            if key in out:
                raise ValueError("duplicate bin %r" % (key,))
            out[key] = {"values": vals, "log2": loc, "info": info}
    return out


def estimator_feature(info):
    """Classifier of the estimator path a bin took (used in finding keys, never in the verdict)."""
    if info["shoulder"]:
        return "obs-between-1-and-sqrt2-scale"
    if info["zero_residual"]:
        return "obs-equals-estimate"
    return "plain"


# =============================================================================================
# 6. FASTA
# =============================================================================================
def render_fasta(records, width):
    """FASTA text of [(name, sequence), ...] with lines of `width` characters."""
    lines = []
    for name, seq in records:
        lines.append(">" + name)
        lines.extend(seq[i : i + width] for i in range(0, len(seq), width))
    return "\n".join(lines) + "\n"


def parse_fasta(text):
    """{name: sequence} by a character walk over the text (independent of render_fasta)."""
    seqs, name, buf = {}, None, []
    for line in text.split("\n"):
        if line.startswith(">"):
            if name is not None:
                seqs[name] = "".join(buf)
            name, buf = line[1:].split()[0], []
        elif name is not None:
            buf.append(line.strip())
    if name is not None:
        seqs[name] = "".join(buf)
    return seqs


def gc_rmask(seq):
    """(G+C fraction, lowercase fraction), both over the unambiguous bases (A, C, G, T in either case) of seq;
    None when seq has no unambiguous base (the fractions are then undefined)."""
    total = gc = low = 0
    for ch in seq:
        up = ch.upper()
        if up not in "ACGT":
            continue
        total += 1
        if up in "GC":
            gc += 1
        if ch != up:
            low += 1
    if not total:
        return None
    return gc / total, low / total


def gc_rmask_counts(seq):
    """Second formulation: set arithmetic on position lists."""
    pos = range(len(seq))
    unamb = [i for i in pos if seq[i] in "ACGTacgt"]
    if not unamb:
        return None
    gcs = [i for i in unamb if seq[i] in "GCgc"]
    lows = [i for i in unamb if seq[i].islower()]
    return len(gcs) / len(unamb), len(lows) / len(unamb)

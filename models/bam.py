"""Reference model of read-depth coverage: a per-base depth array built from the counted reads.

A read is a dict: {"contig": str, "start": int (0-based leftmost aligned base), "len": aligned length (all M),
"clip5": int, "clip3": int (soft clips), "flag": int, "mapq": int}.  Reads have no indels, so the aligned
block is [start, start+len).  Pure Python; never imports cnvlib.
"""
import math

FLAG_PAIRED, FLAG_UNMAPPED, FLAG_REVERSE, FLAG_SECONDARY, FLAG_QCFAIL, FLAG_DUP = 0x1, 0x4, 0x10, 0x100, 0x200, 0x400
EXCLUDE = FLAG_UNMAPPED | FLAG_SECONDARY | FLAG_QCFAIL | FLAG_DUP
NULL_LOG2 = -20.0


def counted(read, min_mapq):
    return not (read["flag"] & EXCLUDE) and read["mapq"] >= min_mapq


def depth_arrays(contigs, reads, min_mapq):
    """{contig: [depth per base]} from the counted reads' aligned blocks."""
    depth = {c: [0] * n for c, n in contigs.items()}
    for r in reads:
        if not counted(r, min_mapq):
            continue
        arr = depth[r["contig"]]
        for p in range(r["start"], min(r["start"] + r["len"], len(arr))):
            arr[p] += 1
    return depth


def bin_depth(depth, chrom, start, end):
    """(depth, log2) of one bin: aligned bases inside the bin / bin length; 0 / -20 when nothing overlaps."""
    if end <= start or chrom not in depth:
        return 0.0, NULL_LOG2
    arr = depth[chrom]
    bases = sum(arr[max(0, start) : max(0, min(end, len(arr)))])
    d = bases / (end - start)
    return (d, math.log2(d)) if d > 0 else (0.0, NULL_LOG2)


def expected_rows(contigs, reads, bins, min_mapq):
    """[(chrom, start, end, name, depth, log2)] for bins = [(chrom, start, end, name)], in the given order."""
    depth = depth_arrays(contigs, reads, min_mapq)
    out = []
    for chrom, start, end, name in bins:
        d, l2 = bin_depth(depth, chrom, start, end)
        out.append((chrom, start, end, name, d, l2))
    return out

"""Reference implementations of the descriptive statistics cnvlib relies on.

Pure Python (`math` only) on lists of finite floats; never imports cnvlib / skgenome / numpy.
Every function is a direct transcription of the textbook / published definition named in its
docstring, written for clarity, not speed (everything is O(n^2) at worst and used on n <= 400).
Inputs are *clean*: no NaN (callers strip them), weights finite and >= 0.

Layout (add new functions to the matching section):

  1. order statistics        median, quantile (linear interpolation), minmax
  2. scale estimators        mad, iqr, gapper, qn, weighted_std, weighted_mad_check
  3. M-estimators            biweight_location (iterated), biweight_midvariance
  4. kernel-density mode     kde_density, kde_mode_candidates
  5. weighted median         weighted_median_interval, is_weighted_median, half_weights

A second, differently shaped formulation of each lives in selftest/stats.py and is
cross-examined against these over the check's alphabet.
"""
import math

MAD_TO_SD = 1.4826  # 1 / Phi^-1(3/4), the consistency constant for the normal distribution


# =============================================================================================
# 1. order statistics
# =============================================================================================
def median(xs):
    """Middle order statistic; mean of the two middle ones for even n."""
    s = sorted(xs)
    n = len(s)
    if n == 0:
        raise ValueError("median of nothing")
    h = n // 2
    return s[h] if n % 2 else (s[h - 1] + s[h]) / 2.0


def quantile(xs, q):
    """Sample quantile by linear interpolation between order statistics at position (n-1)q
    (Hyndman & Fan type 7, the default of R, NumPy and spreadsheets)."""
    s = sorted(xs)
    n = len(s)
    pos = (n - 1) * q
    lo = int(math.floor(pos))
    hi = min(lo + 1, n - 1)
    frac = pos - lo
    return s[lo] + (s[hi] - s[lo]) * frac


def minmax(xs):
    return min(xs), max(xs)


# =============================================================================================
# 2. scale estimators
# =============================================================================================
def mad(xs, scale_to_sd=True):
    """Median absolute deviation from the median, x 1.4826 to estimate sigma."""
    m = median(xs)
    r = median([abs(x - m) for x in xs])
    return r * MAD_TO_SD if scale_to_sd else r


def iqr(xs):
    """Third minus first quartile (linear-interpolation quartiles)."""
    return quantile(xs, 0.75) - quantile(xs, 0.25)


def gapper(xs):
    """Gapper scale (Wainer & Thissen 1976; Beers, Flynn & Gebhardt 1990 eq. 7):
    sqrt(pi) / (n (n-1)) * sum_{i=1}^{n-1} i (n-i) (x_(i+1) - x_(i))."""
    s = sorted(xs)
    n = len(s)
    if n < 2:
        return 0.0
    tot = math.fsum(i * (n - i) * (s[i] - s[i - 1]) for i in range(1, n))
    return tot * math.sqrt(math.pi) / (n * (n - 1))


def qn_factor(n):
    """Finite-sample divisor documented in cnvlib.descriptives.q_n: 1.392 up to n = 10 (the
    simulated E[Qn] at n = 10), 1 + 4/n for 10 < n < 400 (fit to the simulated table), 1 beyond."""
    if n <= 10:
        return 1.392
    if n < 400:
        return 1.0 + 4.0 / n
    return 1.0


def qn(xs):
    """Q_n as documented by the code under test: first quartile (linear interpolation) of the
    pairwise distances |x_i - x_j|, i < j, divided by the finite-sample factor."""
    n = len(xs)
    if n < 2:
        return 0.0
    d = [abs(xs[i] - xs[j]) for i in range(n) for j in range(i + 1, n)]
    return quantile(d, 0.25) / qn_factor(n)


def weighted_mean(xs, ws):
    return math.fsum(x * w for x, w in zip(xs, ws)) / math.fsum(ws)


def weighted_std(xs, ws):
    """Weighted (population) standard deviation sqrt(sum w (x - mu)^2 / sum w), mu the weighted mean."""
    mu = weighted_mean(xs, ws)
    return math.sqrt(math.fsum(w * (x - mu) ** 2 for x, w in zip(xs, ws)) / math.fsum(ws))


# =============================================================================================
# 3. M-estimators (Tukey's biweight)
# =============================================================================================
def biweight_step(xs, m, c=6.0, floor=1e-3):
    """One biweight location step from estimate m (Mosteller & Tukey 1977; Beers et al. 1990 eq. 5):

        u_i = (x_i - m) / (c * MAD),  MAD = median |x_i - m|
        T   = m + sum_{|u_i|<1} (x_i - m)(1 - u_i^2)^2 / sum_{|u_i|<1} (1 - u_i^2)^2

    `floor` keeps the divisor away from zero (same constant as the convergence tolerance).
    Returns (T, info); T = m when no observation has |u| < 1.
    """
    d = [x - m for x in xs]
    s_mad = median([abs(v) for v in d])
    scale = max(c * s_mad, floor)
    num, den = [], []
    for v in d:
        u = v / scale
        if abs(u) < 1.0:
            wt = (1.0 - u * u) ** 2
            num.append(v * wt)
            den.append(wt)
    info = {"floor_active": c * s_mad < floor, "mad": s_mad}
    if not den or math.fsum(den) == 0.0:
        return m, info
    return m + math.fsum(num) / math.fsum(den), info


def biweight_location(xs, c=6.0, tol=1e-3, max_iter=5, slack=1e-9):
    """Iterated biweight location: start at the median, repeat the step at most `max_iter`
    times, stop as soon as a step moves the estimate by <= tol; the result is the last step's
    value.  Returns (values, info): `values` is the list of acceptable results - one, unless
    some step length was within `slack` of `tol` (then both continuations are acceptable).
    """
    info = {"iterations": 0, "floor_with_spread": False, "borderline": False, "hit_max_iter": False}
    out = []

    def go(m, k):
        new, st = biweight_step(xs, m, c, tol)
        if st["floor_active"] and st["mad"] > 0:
            info["floor_with_spread"] = True
        info["iterations"] = max(info["iterations"], k)
        step = abs(new - m)
        near = abs(step - tol) <= slack
        if near:
            info["borderline"] = True
        if step <= tol or near:
            out.append(new)
            if not near:
                return
        if k == max_iter:
            if not (step <= tol or near):
                info["hit_max_iter"] = True
                out.append(new)
            return
        go(new, k + 1)

    go(median(xs), 1)
    return out, info


def biweight_midvariance(xs, center, c=9.0, floor=1e-3):
    """Square root of the biweight midvariance about `center` (Mosteller & Tukey 1977;
    Beers et al. 1990 eq. 9; the form given by Wikipedia and astropy):

        u_i = (x_i - M) / (c * MAD),  MAD = median |x_i - M|
        s^2 = n * sum_{|u|<1} (x_i - M)^2 (1 - u_i^2)^4 / ( sum_{|u|<1} (1 - u_i^2)(1 - 5 u_i^2) )^2

    The published sources differ on n (all observations, or only those with |u| < 1), so both
    are returned.  `sum_u` is sum_{|u|<1} u_i (zero on exactly symmetric data, where the code
    under test is allowed to fall back to 1.4826 * MAD).
    """
    d = [x - center for x in xs]
    s_mad = median([abs(v) for v in d])
    scale = max(c * s_mad, floor)
    us = [v / scale for v in d]
    inside = [(v, u) for v, u in zip(d, us) if abs(u) < 1.0]
    num = math.fsum(v * v * (1.0 - u * u) ** 4 for v, u in inside)
    den = math.fsum((1.0 - u * u) * (1.0 - 5.0 * u * u) for v, u in inside)
    res = {
        "mad": s_mad,
        "mad_fallback": s_mad * MAD_TO_SD,
        "sum_u": math.fsum(u for v, u in inside),
        "sum_abs_u": math.fsum(abs(u) for v, u in inside),
        "n_inside": len(inside),
        "n_total": len(xs),
        "den": den,
        "floor_with_spread": c * s_mad < floor and s_mad > 0,
        "values": [],
    }
    if den != 0.0:
        res["values"] = [math.sqrt(n * num) / abs(den) for n in sorted({len(inside), len(xs)})]
    return res


# =============================================================================================
# 4. kernel-density mode
# =============================================================================================
def kde_density(xs):
    """Gaussian kernel density estimate evaluated at every x in xs (same order), Scott's rule:
    bandwidth h = n^(-1/5) * s, s^2 the unbiased sample variance.  Unnormalised (the common
    factor 1 / (n h sqrt(2 pi)) does not move the peak).  None when the variance is zero."""
    n = len(xs)
    if n < 2:
        return None
    mu = math.fsum(xs) / n
    var = math.fsum((x - mu) ** 2 for x in xs) / (n - 1)
    if var <= 0.0:
        return None
    h2 = var * n ** (-2.0 / 5.0)
    return [math.fsum(math.exp(-((x - y) ** 2) / (2.0 * h2)) for y in xs) for x in xs]


def kde_mode_candidates(xs, rel=1e-9):
    """Data values at which the kernel density estimate peaks (more than one on ties, e.g.
    symmetric bimodal data).  For zero-variance data the only candidate is the value itself."""
    dens = kde_density(xs)
    if dens is None:
        return sorted(set(xs))[:1] if len(set(xs)) == 1 else sorted(set(xs))
    top = max(dens)
    return sorted({x for x, y in zip(xs, dens) if y >= top * (1.0 - rel)})


# =============================================================================================
# 5. weighted median
# =============================================================================================
def half_weights(m, xs, ws):
    """(weight of values < m, weight of values > m, total weight)."""
    below = math.fsum(w for x, w in zip(xs, ws) if x < m)
    above = math.fsum(w for x, w in zip(xs, ws) if x > m)
    return below, above, math.fsum(ws)


def is_weighted_median(m, xs, ws, slack=1e-12):
    """The defining property: at most half the total weight lies strictly on either side."""
    below, above, total = half_weights(m, xs, ws)
    lim = total / 2.0 + slack * max(1.0, total)
    return below <= lim and above <= lim


def weighted_median_interval(xs, ws):
    """[lo, hi] = all m with the defining property: lo is the smallest value whose cumulative
    weight (values <= lo) reaches half the total, hi the largest value whose weight from above
    (values >= hi) reaches half.  lo == hi unless some prefix holds exactly half the weight."""
    total = math.fsum(ws)
    pairs = sorted(zip(xs, ws))
    lo = hi = None
    acc = 0.0
    for x, w in pairs:
        acc += w
        if acc >= total / 2.0:
            lo = x
            break
    acc = 0.0
    for x, w in reversed(pairs):
        acc += w
        if acc >= total / 2.0:
            hi = x
            break
    return lo, hi

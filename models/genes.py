"""Reference model for gene-level grouping (C16): plain Python on lists of bins.

A bin is a tuple (chromosome, start, end, gene, log2, depth, weight); depth / weight may be None when
the table has no such column.  Bins are given in genomic (table) order.  Nothing here imports cnvlib.

Definitions taken from the C16 statement:
* a *gene* is any bin name that is not Antitarget (or its alias) and not an ignored name;
* precondition: every gene lives on one chromosome and between its first and last bin there are only
  bins of that gene or non-gene bins;
* a gene's group = the bins from its first to its last bin; the maximal stretches of the remaining bins
  (per chromosome) are groups labelled Antitarget; groups come in genomic order.
"""
import itertools
import math

ANTITARGET = "Antitarget"
ANTITARGET_ALIASES = ("Antitarget", "Background")
IGNORED = ("-", ".", "CGH")
NONGENES = ANTITARGET_ALIASES + IGNORED
LOW_LOG2 = -15.0  # "very low coverage": log2 below NULL_LOG2_COVERAGE - MIN_REF_COVERAGE = -20 - (-5)

CHROM, START, END, GENE, LOG2, DEPTH, WEIGHT = range(7)


def chrom_runs(bins):
    """[(chromosome, [bin positions])] in table order (tables are sorted, so one run per chromosome)."""
    runs = []
    for i, b in enumerate(bins):
        if runs and runs[-1][0] == b[CHROM]:
            runs[-1][1].append(i)
        else:
            runs.append((b[CHROM], [i]))
    return runs


def precondition(bins, nongenes=NONGENES):
    """Every gene on one chromosome, its bins consecutive up to interleaved non-gene bins."""
    runs = chrom_runs(bins)
    if len({c for c, _ in runs}) != len(runs):
        return False
    home = {}
    for chrom, idxs in runs:
        closed = set()
        current = None
        for i in idxs:
            g = bins[i][GENE]
            if g in nongenes:
                continue
            if home.setdefault(g, chrom) != chrom:
                return False
            if g != current:
                if g in closed:
                    return False
                if current is not None:
                    closed.add(current)
                current = g
    return True


def groups(bins, nongenes=NONGENES):
    """[(label, [bin positions])] in genomic order: gene spans and Antitarget stretches."""
    out = []
    for _chrom, idxs in chrom_runs(bins):
        last = {}
        for p, i in enumerate(idxs):
            if bins[i][GENE] not in nongenes:
                last[bins[i][GENE]] = p
        p = 0
        gap = []
        while p < len(idxs):
            g = bins[idxs[p]][GENE]
            if g in nongenes:
                gap.append(idxs[p])
                p += 1
                continue
            if gap:
                out.append((ANTITARGET, gap))
                gap = []
            q = last[g]
            out.append((g, idxs[p : q + 1]))
            p = q + 1
        if gap:
            out.append((ANTITARGET, gap))
    return out


def gene_groups(bins, nongenes=NONGENES):
    return [(g, idxs) for g, idxs in groups(bins, nongenes) if g != ANTITARGET]


# ---------------------------------------------------------------------------------------------
# summaries


def is_low(b):
    return b[LOG2] < LOW_LOG2 or (b[DEPTH] is not None and b[DEPTH] == 0)


def wmean(values, weights):
    """Weighted mean; plain mean without weights (or when every weight is 0)."""
    if weights is None or not any(weights):
        return math.fsum(values) / len(values)
    return math.fsum(v * w for v, w in zip(values, weights)) / math.fsum(weights)


def summary(bins, idxs, label, log2=None, skip_low=False, count="all"):
    """One report row for the bins `idxs` (a gene or the part of a gene): dict of the promised fields.

    log2 = given value (segment mode) or the weighted mean of the bins (of the surviving bins with
    skip_low).  count = "all": bin count / weight / depth over all the bins; "surviving": over the bins
    that skip_low kept.  Returns None when no mean exists (every bin dropped).
    """
    sel = [bins[i] for i in idxs]
    kept = [b for b in sel if not (skip_low and is_low(b))]
    has_w = sel[0][WEIGHT] is not None
    has_d = sel[0][DEPTH] is not None
    if log2 is None:
        if not kept:
            return None
        log2 = wmean([b[LOG2] for b in kept], [b[WEIGHT] for b in kept] if has_w else None)
    basis = sel if count == "all" else kept
    row = {
        "gene": label,
        "chromosome": sel[0][CHROM],
        "start": sel[0][START],
        "end": sel[-1][END],
        "log2": log2,
        "probes": len(basis),
    }
    if has_w:
        row["weight"] = math.fsum(b[WEIGHT] for b in basis)
    if has_d and basis:
        if has_w:
            tw = math.fsum(b[WEIGHT] for b in basis)
            row["depth"] = math.fsum(b[DEPTH] * b[WEIGHT] for b in basis) / tw if tw else None
        else:
            row["depth"] = math.fsum(b[DEPTH] for b in basis) / len(basis)
    return row


TIE = 1e-9


def reaches(value, threshold):
    """True / False, or None when |value| is within rounding of the threshold (left open)."""
    if abs(abs(value) - threshold) < TIE:
        return None
    return abs(value) >= threshold


def genemetrics_by_gene(bins, threshold, min_probes, skip_low=False, count="all", nongenes=NONGENES):
    """[(row, required)] : required True, or None for a row the statement leaves open (threshold tie)."""
    out = []
    for g, idxs in gene_groups(bins, nongenes):
        row = summary(bins, idxs, g, skip_low=skip_low, count=count)
        if row is None:
            continue
        r = reaches(row["log2"], threshold)
        if r is False or row["probes"] < min_probes:
            continue
        out.append((row, True if r else None))
    return out


def genemetrics_by_segment(bins, segments, threshold, min_probes, part="named", minp="part", nongenes=NONGENES):
    """segments: [(chromosome, start, end, log2)].  For each segment reaching the threshold, the part of
    every gene inside it, with the segment's log2.

    part = "named": the part runs from the first to the last bin *named* by the gene inside the segment;
    part = "span": the part is every bin of the gene's first..last span that lies inside the segment.
    minp = "part": min_probes applies to the part's bin count; "segment": to the segment's bin count.
    """
    out = []
    spans = gene_groups(bins, nongenes)
    for chrom, s, e, log2 in segments:
        r = abs(log2) >= threshold  # a segment's log2 is given, not computed: no rounding latitude
        if not r:
            continue
        inside = [i for i, b in enumerate(bins) if b[CHROM] == chrom and b[START] < e and b[END] > s]
        inset = set(inside)
        for g, idxs in spans:
            sub = [i for i in idxs if i in inset]
            if part == "named":
                named = [i for i in sub if bins[i][GENE] == g]
                if not named:
                    continue
                sub = [i for i in sub if named[0] <= i <= named[-1]]
            if not sub:
                continue
            row = summary(bins, sub, g, log2=log2)
            # the statement promises the part (its extent) and the segment's log2; weight / depth of a part are left open
            row.pop("weight", None)
            row.pop("depth", None)
            n = row["probes"] if minp == "part" else len(inside)
            if n < min_probes:
                continue
            out.append((row, True))
    return out


def squash_coords(bins, nongenes=NONGENES):
    """[(gene, chromosome, start, end)] one per gene, genomic order."""
    return [(g, bins[idxs[0]][CHROM], bins[idxs[0]][START], bins[idxs[-1]][END]) for g, idxs in gene_groups(bins, nongenes)]


def breaks(bins, segments, min_probes, count="named", nongenes=NONGENES):
    """[(gene, chromosome, lo, hi, left, right)]: genes with >= min_probes bins on each side of a boundary
    between two consecutive segments of one chromosome; the boundary lies in [lo, hi] (end of the left
    segment .. start of the right one).  count = "named": only bins carrying the gene's name are counted;
    "span": every bin of the gene's first..last span."""
    out = []
    spans = gene_groups(bins, nongenes)
    for (c1, _s1, e1, _l1), (c2, s2, _e2, _l2) in zip(segments, segments[1:]):
        if c1 != c2:
            continue
        for g, idxs in spans:
            if bins[idxs[0]][CHROM] != c1:
                continue
            use = idxs if count == "span" else [i for i in idxs if bins[i][GENE] == g]
            left = sum(1 for i in use if bins[i][END] <= e1)
            right = sum(1 for i in use if bins[i][START] >= s2)
            if left + right != len(use):
                raise ValueError("segment boundary cuts a bin; outside the model's alphabet")
            if left >= max(1, min_probes) and right >= max(1, min_probes):
                out.append((g, c1, e1, s2, left, right))
    return out


# ---------------------------------------------------------------------------------------------
# enumeration of the bounded alphabet


def valid_word(word, genes):
    """Precondition on one chromosome's word + canonical gene naming (genes in order of first use)."""
    first, last = {}, {}
    for i, s in enumerate(word):
        if s in genes:
            first.setdefault(s, i)
            last[s] = i
    for g in first:
        for j in range(first[g], last[g] + 1):
            if word[j] in genes and word[j] != g:
                return False
    order = sorted(first, key=first.get)
    return order == list(genes[: len(order)])


def words(maxlen, genes, nongenes, minlen=1):
    """Every word of minlen..maxlen symbols over genes + nongenes that satisfies the precondition, with
    genes named in order of first appearance (renaming genes is a symmetry of the statement); shortest
    first, gene-poor first."""
    syms = tuple(nongenes) + tuple(genes)
    out = []
    for n in range(minlen, maxlen + 1):
        for w in itertools.product(syms, repeat=n):
            if valid_word(w, genes):
                out.append(w)
    return out


def cuts(n, max_segments):
    """Every way to cut n consecutive bins into 1..max_segments non-empty runs: tuples of cut positions."""
    out = []
    for k in range(0, max_segments):
        out += list(itertools.combinations(range(1, n), k))
    return out

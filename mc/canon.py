"""Structural fingerprints of results and of the 'world' of argument objects.

canon(obj) -> JSON-able canonical form: DataFrames as columns/index/rows with floats at 10 significant
digits (NaN -> "nan"); objects with .data/.meta (GenomicArray family) as {"data", "meta"} where the cached
chromosome-label entries the property exempts are dropped; containers recursively.  dtype differences that
do not change values (object vs string, int32 vs int64) are invisible by construction.
"""
import math
import types

import numpy as np
import pandas as pd

META_EXEMPT = ("chr_x", "chr_y")


def _num(x):
    if isinstance(x, (bool, np.bool_)):
        return bool(x)
    if isinstance(x, (int, np.integer)):
        return int(x)
    if isinstance(x, (float, np.floating)):
        x = float(x)
        if math.isnan(x):
            return "nan"
        if math.isinf(x):
            return "inf" if x > 0 else "-inf"
        if x == int(x) and abs(x) < 1e15:
            return int(x)
        return float("%.10g" % x)
    return None


def canon(obj, depth=0):
    if obj is None or isinstance(obj, str):
        return obj
    n = _num(obj)
    if n is not None:
        return n
    if isinstance(obj, bytes):
        return obj.decode("latin1")
    if hasattr(obj, "data") and hasattr(obj, "meta") and isinstance(getattr(obj, "data"), pd.DataFrame):
        meta = {str(k): canon(v, depth + 1) for k, v in sorted(obj.meta.items(), key=lambda kv: str(kv[0])) if k not in META_EXEMPT}
        return {"__array__": type(obj).__name__, "data": canon(obj.data, depth + 1), "meta": meta}
    if isinstance(obj, pd.DataFrame):
        return {
            "columns": [str(c) for c in obj.columns],
            "index": [canon(i, depth + 1) for i in obj.index.tolist()],
            "rows": [[canon(v, depth + 1) for v in row] for row in obj.itertuples(index=False, name=None)],
        }
    if isinstance(obj, pd.Series):
        return {"series": [canon(v, depth + 1) for v in obj.tolist()], "index": [canon(i, depth + 1) for i in obj.index.tolist()]}
    if isinstance(obj, pd.Index):
        return [canon(v, depth + 1) for v in obj.tolist()]
    if isinstance(obj, np.ndarray):
        return [canon(v, depth + 1) for v in obj.tolist()]
    if isinstance(obj, dict):
        return {str(k): canon(v, depth + 1) for k, v in sorted(obj.items(), key=lambda kv: str(kv[0]))}
    if isinstance(obj, (list, tuple)):
        return [canon(v, depth + 1) for v in obj]
    if isinstance(obj, (set, frozenset)):
        return sorted((canon(v, depth + 1) for v in obj), key=repr)
    if isinstance(obj, types.GeneratorType) or hasattr(obj, "__next__"):
        return [canon(v, depth + 1) for v in obj]
    if hasattr(obj, "_fields") and hasattr(obj, "_asdict"):
        return [canon(v, depth + 1) for v in obj]
    return repr(obj)


def diff(a, b, path="", out=None, limit=4):
    """First few paths where two canonical forms differ."""
    if out is None:
        out = []
    if len(out) >= limit:
        return out
    if type(a) is not type(b):
        out.append(f"{path}: {str(a)[:80]!r} != {str(b)[:80]!r}")
    elif isinstance(a, dict):
        for k in sorted(set(a) | set(b)):
            if k not in a or k not in b:
                out.append(f"{path}/{k}: present on one side only")
            else:
                diff(a[k], b[k], f"{path}/{k}", out, limit)
            if len(out) >= limit:
                break
    elif isinstance(a, list):
        if len(a) != len(b):
            out.append(f"{path}: length {len(a)} != {len(b)}")
        for i, (x, y) in enumerate(zip(a, b)):
            diff(x, y, f"{path}[{i}]", out, limit)
            if len(out) >= limit:
                break
    elif a != b:
        out.append(f"{path}: {a!r} != {b!r}")
    return out


def module_state(prefixes=("cnvlib", "skgenome")):
    """Fingerprint of module-level mutable state: function __defaults__/__kwdefaults__ and plain-data globals
    of every loaded module of the packages under test."""
    import sys

    out = {}
    for name in sorted(sys.modules):
        if not any(name == p or name.startswith(p + ".") for p in prefixes):
            continue
        mod = sys.modules[name]
        if mod is None:
            continue
        for attr, val in sorted(vars(mod).items()):
            if attr.startswith("__"):
                continue
            key = f"{name}.{attr}"
            if isinstance(val, types.FunctionType):
                if val.__module__ != name:
                    continue
                if val.__defaults__ or val.__kwdefaults__:
                    out[key + ".__defaults__"] = _plain(val.__defaults__) + "|" + _plain(val.__kwdefaults__)
            elif isinstance(val, type):
                if getattr(val, "__module__", None) != name:
                    continue
                for mname, m in sorted(vars(val).items()):
                    f = getattr(m, "__func__", m)
                    if isinstance(f, types.FunctionType) and (f.__defaults__ or f.__kwdefaults__):
                        out[f"{key}.{mname}.__defaults__"] = _plain(f.__defaults__) + "|" + _plain(f.__kwdefaults__)
                    elif isinstance(m, (list, dict, set, tuple, str, int, float)) and not mname.startswith("__"):
                        out[f"{key}.{mname}"] = _plain(m)
            elif isinstance(val, (list, dict, set, tuple, str, int, float, bool)) or val is None:
                out[key] = _plain(val)
    return out


def _plain(v):
    try:
        if isinstance(v, (set, frozenset)):
            return repr(sorted(v, key=repr))
        if isinstance(v, dict):
            return repr(sorted(((repr(k), _plain(x)) for k, x in v.items())))
        if isinstance(v, (list, tuple)):
            return repr([_plain(x) if isinstance(x, (list, tuple, dict, set)) else _short(x) for x in v])
        return _short(v)
    except Exception as e:  # noqa: BLE001
        return f"<unprintable {type(v).__name__}: {e}>"


def _short(x):
    if isinstance(x, (types.FunctionType, types.BuiltinFunctionType, type, types.MethodType)):
        return f"<callable {getattr(x, '__module__', '?')}.{getattr(x, '__qualname__', '?')}>"
    r = repr(x)
    return r if len(r) < 300 else r[:300] + "..."

"""CLI: ./check C07 --tier quick|thorough | --replay <path>  (internal: --shard i/n --result p)."""
import argparse
import os
import sys


def main(argv=None):
    ap = argparse.ArgumentParser(prog="check")
    ap.add_argument("prop")
    ap.add_argument("--tier", default=os.environ.get("VERIF_TIER") or "quick", choices=["quick", "thorough"])
    ap.add_argument("--replay")
    ap.add_argument("--shard")
    ap.add_argument("--result")
    ap.add_argument("--jobs", type=int)
    a = ap.parse_args(argv)
    prop = a.prop.upper()
    from . import engine

    if a.replay:
        return engine.main_replay(prop, a.replay)
    if a.shard:
        i, n = a.shard.split("/")
        return engine.main_shard(prop, a.tier, (int(i), int(n)), a.result)
    return engine.main_check(prop, a.tier, a.jobs)


if __name__ == "__main__":
    sys.exit(main())

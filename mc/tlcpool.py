"""TLC side of the schedule exploration: the executor contract as a TLA+ model (models/tla/PoolMap.tla),
model-checked by TLC for K tasks and W workers; every terminal behaviour is one complete schedule.

`schedules(K, W)` returns the set of schedules as tuples of vpool labels ("produce", "run1@w0", "deliver0").
Checks compare that set with the set of schedules the stateless explorer (mc/vpool.py) actually drove the
real code through: equality means (a) every behaviour of the model was replayed against the implementation
and (b) the explorer did not invent or miss a schedule.  TLC's own counters go into the evidence.
"""
import os
import re
import shutil
import subprocess
import tempfile

HERE = os.path.dirname(os.path.dirname(os.path.abspath(__file__)))
SPEC = os.path.join(HERE, "models", "tla", "PoolMap.tla")
_CACHE = {}


class TLCError(RuntimeError):
    pass


def label(kind, i, w):
    if kind == "produce":
        return "produce"
    if kind == "run":
        return f"run{i}@w{w}"
    return f"deliver{i}"


def schedules(k, w, timeout=600):
    """(set of label tuples, stats dict) for K=k tasks on W=w workers."""
    key = (k, w)
    if key in _CACHE:
        return _CACHE[key]
    tlc = shutil.which("tlc")
    if not tlc:
        raise TLCError("tlc not on PATH")
    d = tempfile.mkdtemp(prefix="verif-tlc-")
    try:
        shutil.copy(SPEC, os.path.join(d, "PoolMap.tla"))
        with open(os.path.join(d, "PoolMap.cfg"), "w") as f:
            f.write(f"CONSTANTS K = {k} W = {w}\nSPECIFICATION Spec\nINVARIANTS InOrder NoRunBeforeSubmit\n")
        r = subprocess.run(
            [tlc, "-workers", "1", "-noGenerateSpecTE", "-metadir", os.path.join(d, "meta"), "PoolMap.tla"],
            cwd=d,
            stdout=subprocess.PIPE,
            stderr=subprocess.STDOUT,
            text=True,
            timeout=timeout,
        )
        out = r.stdout
        if "Model checking completed. No error has been found." not in out:
            raise TLCError("TLC did not complete cleanly:\n" + out[-3000:])
        m = re.search(r"(\d+) states generated, (\d+) distinct states found, (\d+) states left on queue", out)
        depth = re.search(r"depth of the complete state graph search is (\d+)", out)
        blocks = out.split('"SCHEDULE"')[1:]
        scheds = set()
        for b in blocks:
            # a block ends at the closing of the printed tuple; later TLC chatter has no action triples
            acts = re.findall(r'<<\s*"(produce|run|deliver)",\s*(\d+),\s*(\d+)\s*>>', b)
            scheds.add(tuple(label(kind, int(i), int(ww)) for kind, i, ww in acts))
        stats = {
            "K": k,
            "W": w,
            "tlc_states_generated": int(m.group(1)) if m else None,
            "tlc_distinct_states": int(m.group(2)) if m else None,
            "tlc_depth": int(depth.group(1)) if depth else None,
            "tlc_terminal_behaviours": len(scheds),
            "invariants": ["InOrder", "NoRunBeforeSubmit"],
        }
        if len(blocks) != len(scheds):
            raise TLCError(f"{len(blocks)} printed schedules but {len(scheds)} distinct: hist does not separate paths")
        _CACHE[key] = (scheds, stats)
        return _CACHE[key]
    finally:
        shutil.rmtree(d, ignore_errors=True)


if __name__ == "__main__":
    import sys

    s, st = schedules(int(sys.argv[1]), int(sys.argv[2]))
    print(st)
    for x in sorted(s)[:3]:
        print(" ".join(x))

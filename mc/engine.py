"""Exploration driver: enumerate a finite space, run every element against the real code in
16 shard processes, merge counters, match violations against known_findings.json, write the
evidence file, print KNOWN-FINDING / VIOLATION lines, pick the exit status.

The engine knows nothing about CNVkit semantics.  A check module provides

    ID            "C06"
    describe(tier) -> {"rule": str, "bound": {...}, "alphabet": {...}, "assumptions": [...]}
    cases(tier)   -> iterator of JSON-able case dicts, deterministic order, simplest first
    run(case, ctx)   executes the real code for that case and reports through ctx
    BUDGET        optional {"quick": seconds, "thorough": seconds} per shard (a cap, reported if hit)
    CASE_TIMEOUT  optional seconds for one case (default 300)

Nothing here makes a random choice; VERIF_SEED is recorded only.
"""
import fnmatch
import hashlib
import importlib
import json
import os
import pickle
import signal
import subprocess
import sys
import tempfile
import time
import traceback
from collections import Counter

VERIF_DIR = os.path.dirname(os.path.dirname(os.path.abspath(__file__)))
MAX_STORED_PER_KEY = 5
MAX_REPLAYS_PER_KEY = 2


def digest(obj):
    """64-bit structural fingerprint of a JSON-able object."""
    s = json.dumps(obj, sort_keys=True, default=_default, separators=(",", ":"))
    return int.from_bytes(hashlib.blake2b(s.encode(), digest_size=8).digest(), "big")


def _default(o):
    try:
        import numpy as np

        if isinstance(o, np.generic):
            return o.item()
        if isinstance(o, np.ndarray):
            return o.tolist()
    except Exception:
        pass
    if isinstance(o, (set, frozenset)):
        return sorted(o, key=repr)
    if isinstance(o, tuple):
        return list(o)
    return repr(o)


def jsonable(o):
    return json.loads(json.dumps(o, default=_default))


class CaseTimeout(Exception):
    pass


class Exc:
    """Marker returned by ctx.call when the implementation raised."""

    def __init__(self, exc, root):
        self.exc = exc
        self.type = type(exc).__name__
        self.msg = str(exc)[:200]
        self.where = innermost_repo_frame(exc.__traceback__, root)

    @property
    def key(self):
        return f"{self.type}@{self.where}"

    def __repr__(self):
        return f"<raised {self.type}@{self.where}: {self.msg}>"


def innermost_repo_frame(tb, root):
    where = "outside-repo"
    for fs in traceback.extract_tb(tb):
        fn = os.path.realpath(fs.filename)
        if fn.startswith(root + os.sep):
            rel = os.path.relpath(fn, root)
            where = f"{rel}:{fs.name}"
    return where


class Ctx:
    """Per-shard accumulator handed to check.run()."""

    def __init__(self, prop, tier, root):
        self.prop, self.tier, self.root = prop, tier, root
        self.states = set()
        self.nontrivial_states = set()
        self.outcomes = set()
        self.transitions = 0
        self.traces = 0
        self.evaluations = 0
        self.strata = Counter()
        self.violations = []  # stored records (bounded per key)
        self.vcounts = Counter()  # key -> total count
        self.samples = []
        self._sample_checks = set()
        self.case = None
        self.index = None
        self.caps = []

    # -- bookkeeping -------------------------------------------------------------------------
    def begin(self, index, case):
        self.index, self.case = index, case
        self.evaluations += 1

    def state(self, key, nontrivial=False):
        """Record a distinct canonical state (input / world / schedule / file-system state)."""
        d = key if isinstance(key, int) else digest(key)
        self.states.add(d)
        if nontrivial:
            self.nontrivial_states.add(d)
        return d

    def transition(self, n=1):
        self.transitions += n

    def trace(self, n=1):
        """An implementation execution whose observable result was compared with the model."""
        self.traces += n

    def stratum(self, name, n=1):
        self.strata[name] += n

    def outcome(self, obj):
        self.outcomes.add(obj if isinstance(obj, int) else digest(obj))

    def sample(self, name, obj):
        """Keep the first sample seen for each name (written to the evidence file)."""
        if name not in self._sample_checks and len(self.samples) < 12:
            self._sample_checks.add(name)
            self.samples.append({"check": name, **jsonable(obj)})

    def call(self, fn, *args, **kwargs):
        """Run one implementation operation; an exception comes back as an Exc marker."""
        self.transitions += 1
        try:
            return fn(*args, **kwargs)
        except CaseTimeout:
            raise
        except Exception as e:  # noqa: BLE001 - every implementation failure is data here
            return Exc(e, self.root)

    def violation(self, clause, key, expected=None, observed=None, sub=None, detail=None):
        key = f"{self.prop}/{key}"
        self.vcounts[key] += 1
        if sum(1 for v in self.violations if v["finding_key"] == key) >= MAX_STORED_PER_KEY:
            return
        self.violations.append(
            {
                "property": self.prop,
                "tier": self.tier,
                "index": self.index,
                "case": jsonable(self.case),
                "sub": jsonable(sub),
                "clause": clause,
                "expected": jsonable(expected),
                "observed": jsonable(observed if not isinstance(observed, Exc) else repr(observed)),
                "detail": jsonable(detail),
                "finding_key": key,
            }
        )


def load_check(prop):
    return importlib.import_module("checks." + prop.lower())


def _alarm(signum, frame):
    raise CaseTimeout()


def run_cases(mod, tier, root, shard=None, only_case=None, deadline=None):
    """Run (a shard of) the space; returns the Ctx."""
    ctx = Ctx(mod.ID, tier, root)
    case_timeout = getattr(mod, "CASE_TIMEOUT", 300)
    signal.signal(signal.SIGALRM, _alarm)
    t0 = time.time()
    if only_case is not None:
        it = [(only_case.get("index", 0), only_case["case"])]
    else:
        it = enumerate(mod.cases(tier))
    total = 0
    done = 0
    only = set(filter(None, os.environ.get("VERIF_ONLY", "").split(",")))  # dev aid: restrict to named sub-checks (reported as a cap)
    if only and only_case is None:
        ctx.caps.append("VERIF_ONLY=" + ",".join(sorted(only)) + " (development filter: other sub-checks not run)")
    for index, case in it:
        total += 1
        if shard is not None and index % shard[1] != shard[0]:
            continue
        if only and only_case is None and case.get("check") not in only:
            continue
        if deadline is not None and time.time() - t0 > deadline:
            ctx.caps.append(f"shard {shard} stopped at case index {index} after {deadline}s budget")
            break
        ctx.begin(index, case)
        signal.setitimer(signal.ITIMER_REAL, case_timeout)
        try:
            mod.run(case, ctx)
        except CaseTimeout:
            ctx.violation(
                "the operation returns (no hang)",
                f"{case.get('check', 'case')}/timeout-after-{case_timeout}s",
                observed="no result",
            )
        except Exception as e:  # noqa: BLE001
            where = innermost_repo_frame(e.__traceback__, root)
            if where == "outside-repo":
                signal.setitimer(signal.ITIMER_REAL, 0)
                sys.stderr.write(f"HARNESS-ERROR in case {index}: {json.dumps(jsonable(case))[:2000]}\n")
                raise
            ctx.violation(
                "the operation returns a result on an in-scope input",
                f"{case.get('check', 'case')}/uncaught/{type(e).__name__}@{where}",
                observed=f"{type(e).__name__}: {str(e)[:200]}",
            )
        finally:
            signal.setitimer(signal.ITIMER_REAL, 0)
        done += 1
    ctx.total_enumerated = total
    ctx.done = done
    return ctx


# ---------------------------------------------------------------------------------------------
# parent side


def load_findings():
    path = os.path.join(VERIF_DIR, "known_findings.json")
    if not os.path.exists(path):
        return {"known": [], "fixed": []}
    with open(path) as f:
        return json.load(f)


def match_known(key, prop, findings):
    for ent in findings.get("known", []):
        if ent.get("property") == prop and fnmatch.fnmatchcase(key, ent["key"]):
            return ent
    return None


def main_check(prop, tier, jobs=None):
    from . import repo

    root = repo.repo_root()
    mod = load_check(prop)
    seed = int(os.environ.get("VERIF_SEED", "0") or 0)
    jobs = jobs or int(os.environ.get("VERIF_JOBS", "0") or 0) or min(16, os.cpu_count() or 1)
    jobs = min(jobs, getattr(mod, "MAX_JOBS", jobs))
    t0 = time.time()
    tmpd = tempfile.mkdtemp(prefix=f"verif-{prop}-")
    procs = []
    env = dict(os.environ)
    env.setdefault("PYTHONHASHSEED", "0")
    env["PYTHONDONTWRITEBYTECODE"] = "1"
    for var in ("OMP_NUM_THREADS", "OPENBLAS_NUM_THREADS", "MKL_NUM_THREADS"):
        env.setdefault(var, "1")
    env["PYTHONPATH"] = VERIF_DIR + os.pathsep + env.get("PYTHONPATH", "")
    try:
        for i in range(jobs):
            out = os.path.join(tmpd, f"shard{i}.pkl")
            err = open(os.path.join(tmpd, f"shard{i}.err"), "w")
            p = subprocess.Popen(
                [sys.executable, "-m", "mc.main", prop, "--tier", tier, "--shard", f"{i}/{jobs}", "--result", out],
                cwd=VERIF_DIR,
                env=env,
                stdout=err,
                stderr=err,
            )
            procs.append((p, out, err))
        results = []
        harness_error = False
        for i, (p, out, err) in enumerate(procs):
            rc = p.wait()
            err.close()
            if rc != 0 or not os.path.exists(out):
                harness_error = True
                with open(err.name) as f:
                    sys.stderr.write(f"--- shard {i} exited {rc}\n" + f.read()[-4000:] + "\n")
                continue
            with open(out, "rb") as f:
                results.append(pickle.load(f))
        if harness_error:
            print(f"HARNESS-ERROR property={prop}: a shard failed; no verdict")
            return 2
    finally:
        for p, _, _ in procs:
            if p.poll() is None:
                p.kill()
        subprocess.call(["rm", "-rf", tmpd])

    # merge
    states, nontriv, outcomes = set(), set(), set()
    transitions = traces = evaluations = 0
    strata, vcounts = Counter(), Counter()
    violations, samples, caps = [], [], []
    seen_samples = set()
    total_enum = 0
    for r in results:
        states |= r["states"]
        nontriv |= r["nontrivial_states"]
        outcomes |= r["outcomes"]
        transitions += r["transitions"]
        traces += r["traces"]
        evaluations += r["evaluations"]
        strata.update(r["strata"])
        vcounts.update(r["vcounts"])
        violations.extend(r["violations"])
        caps.extend(r["caps"])
        total_enum = max(total_enum, r["total_enumerated"])
        for s in r["samples"]:
            if s["check"] not in seen_samples and len(samples) < 12:
                seen_samples.add(s["check"])
                samples.append(s)
    findings = load_findings()
    known_hits = Counter()
    unknown = {}
    for key, n in sorted(vcounts.items()):
        ent = match_known(key, prop, findings)
        if ent:
            known_hits[ent["key"]] += n
        else:
            unknown[key] = n
    violations.sort(key=lambda v: (v["index"], v["finding_key"]))
    replay_paths = []
    for key in sorted(unknown):
        recs = [v for v in violations if v["finding_key"] == key][:MAX_REPLAYS_PER_KEY]
        for rec in recs:
            d = os.path.join(VERIF_DIR, "replays", prop)
            os.makedirs(d, exist_ok=True)
            name = "%016x.json" % digest([rec["case"], rec["sub"], rec["clause"], key])
            path = os.path.join(d, name)
            with open(path, "w") as f:
                json.dump(rec, f, indent=1, sort_keys=True)
            replay_paths.append((key, path, rec))
    wall = time.time() - t0
    desc = mod.describe(tier)
    coverage = {
        "states": len(states),
        "transitions": transitions,
        "traces_validated_against_impl": traces,
        "evaluations": evaluations,
        "distinct_nontrivial": len(nontriv),
        "rule": desc.get("rule", ""),
        "samples": samples or [{"note": "no sample recorded"}],
        "exhaustive": not caps,
        "bound": desc.get("bound", {}),
        "alphabet": desc.get("alphabet", {}),
        "strata": dict(sorted(strata.items())),
        "distinct_outcomes": len(outcomes),
        "cases_enumerated": total_enum,
        "caps_hit": caps,
        "shards": jobs,
        "known_findings_hit": dict(known_hits),
        "unlisted_violation_keys": {k: n for k, n in unknown.items()},
        "tree": root,
    }
    evidence = {
        "property_id": prop,
        "tier": tier,
        "seed": seed,
        "level": "model_checking",
        "coverage": coverage,
        "assumptions": desc.get("assumptions", []),
        "wall_s": round(wall, 2),
        "violations": int(sum(unknown.values())),
    }
    # runs against a scratch copy of the tree (mutant runs) must not overwrite the evidence of /repo
    evdir = os.path.join(VERIF_DIR, "evidence" if root == "/repo" and not os.environ.get("VERIF_ONLY") else "evidence-scratch")
    os.makedirs(evdir, exist_ok=True)
    with open(os.path.join(evdir, f"{prop}.json"), "w") as f:
        json.dump(evidence, f, indent=1, sort_keys=True)
        f.write("\n")
    print(
        f"{prop} tier={tier} cases={evaluations} states={len(states)} transitions={transitions} "
        f"traces={traces} outcomes={len(outcomes)} nontrivial={len(nontriv)} wall={wall:.1f}s"
        + (f" CAPPED({len(caps)})" if caps else "")
    )
    for k, n in sorted(strata.items()):
        print(f"  stratum {k}: {n}")
    for ent in findings.get("known", []):
        if ent.get("property") == prop and known_hits.get(ent["key"]):
            print(f"KNOWN-FINDING: property={prop} {ent['what']} [{ent['key']}; {known_hits[ent['key']]} cases]")
    for key, path, rec in replay_paths:
        print(f"VIOLATION property={prop} replay={path}")
        print(f"  key={key} count={unknown[key]} clause={rec['clause']}")
        print(f"  case={json.dumps(rec['case'])[:600]}")
        if rec.get("sub") is not None:
            print(f"  sub={json.dumps(rec['sub'])[:600]}")
        print(f"  expected={json.dumps(rec['expected'])[:400]}")
        print(f"  observed={json.dumps(rec['observed'])[:400]}")
    return 1 if unknown else 0


def main_shard(prop, tier, shard, result_path):
    from . import repo

    root = repo.bind()
    mod = load_check(prop)
    budget = getattr(mod, "BUDGET", {}).get(tier)
    if os.environ.get("VERIF_DEADLINE_S"):
        budget = float(os.environ["VERIF_DEADLINE_S"])
    ctx = run_cases(mod, tier, root, shard=shard, deadline=budget)
    with open(result_path, "wb") as f:
        pickle.dump(
            {
                "states": ctx.states,
                "nontrivial_states": ctx.nontrivial_states,
                "outcomes": ctx.outcomes,
                "transitions": ctx.transitions,
                "traces": ctx.traces,
                "evaluations": ctx.evaluations,
                "strata": ctx.strata,
                "vcounts": ctx.vcounts,
                "violations": ctx.violations,
                "samples": ctx.samples,
                "caps": ctx.caps,
                "total_enumerated": ctx.total_enumerated,
            },
            f,
        )
    return 0


def main_replay(prop, path):
    """Re-run exactly one recorded case, twice, without the explorer."""
    from . import repo

    root = repo.bind()
    mod = load_check(prop)
    with open(path) as f:
        rec = json.load(f)
    obs = []
    for _ in range(2):
        ctx = run_cases(mod, rec.get("tier", "quick"), root, only_case=rec)
        obs.append(sorted((v["finding_key"], json.dumps(v["sub"], sort_keys=True), json.dumps(v["observed"], sort_keys=True)) for v in ctx.violations))
    if obs[0] != obs[1]:
        print(f"HARNESS-ERROR property={prop}: replay diverged between two runs of the same case")
        print(json.dumps(obs, indent=1)[:3000])
        return 2
    want = rec["finding_key"]
    hit = [v for v in ctx.violations if v["finding_key"] == want]
    if not hit:
        hit = ctx.violations
    if hit:
        v = hit[0]
        findings = load_findings()
        if match_known(v["finding_key"], prop, findings):
            print(f"KNOWN-FINDING: property={prop} {v['finding_key']}")
            return 0
        print(f"VIOLATION property={prop} replay={path}")
        print(f"  key={v['finding_key']} clause={v['clause']}")
        print(f"  expected={json.dumps(v['expected'])[:600]}")
        print(f"  observed={json.dumps(v['observed'])[:600]}")
        return 1
    print(f"replay property={prop}: the recorded case satisfies the property on this tree")
    return 0

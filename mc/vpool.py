"""Virtual ProcessPoolExecutor + choice-sequence DFS (E3: worker-schedule exploration).

The virtual executor honours exactly the contract the code under test relies on:

* `map(fn, iterable)` pulls the iterable *lazily, in order*, one item per "produce" step (the real
  Executor.map submits while it iterates, so a worker may already run task i while item i+1 is still being
  produced); it returns only after the iterable is exhausted (all tasks submitted);
* a task runs *atomically* in one of `workers` persistent forked worker processes (state inside a worker
  persists from task to task, as in a real pool; arguments and results cross the boundary by pickle);
* results are delivered in submission order; the consumer's loop body runs between deliveries;
* an exception in a task is re-raised in the consumer when that result is delivered;
* leaving the `with` block runs every task still pending (shutdown(wait=True) does not cancel);
* `submit` is eager (the task is pending at once; tasks already pending may run before the call returns),
  `Future.result()` and `as_completed()` are scheduling points: any pending task may run first, and
  `as_completed` may yield any finished future next (every completion order is explored).

Every point where more than one of {produce next item, run pending task i on worker w, deliver next result}
is enabled is a *choice point*; `explore()` enumerates every complete choice sequence by depth-first search,
re-running the call from scratch for each (stateless model checking).  Workers are symmetric, so a task may
go to any worker that has already run something, or to the first fresh one.
"""
import os
import pickle
import struct
import sys
import traceback


class ScheduleDivergence(Exception):
    """Replaying a recorded prefix met a different set of enabled actions: nondeterminism the harness
    does not own.  Always a hard error, never a verdict."""


class Scheduler:
    def __init__(self, prefix=()):
        self.prefix = list(prefix)
        self.trace = []  # (n_enabled, chosen, label)
        self.pools = 0

    def choose(self, labels):
        i = len(self.trace)
        if i < len(self.prefix):
            c = self.prefix[i]
            if c >= len(labels):
                raise ScheduleDivergence(f"choice {i}: recorded alternative {c} but only {labels} enabled")
        else:
            c = 0
        self.trace.append((len(labels), c, labels[c]))
        return c

    @property
    def labels(self):
        return [t[2] for t in self.trace]

    @property
    def choices(self):
        return [t[1] for t in self.trace]

    def preemptions(self):
        """Number of choice points where the default (first) action was not taken."""
        return sum(1 for t in self.trace if t[1] != 0)


def explore_part(run_once, part, split_depth):
    """Like explore(), but yields only the executions owned by part=(j, m).  An execution is owned according
    to its first `split_depth` choices; every part discovers all depth-`split_depth` prefixes (one execution
    each, not yielded unless owned) and expands deeper alternatives only below the prefixes it owns.  The union
    over j of the yielded executions is exactly explore()'s, each once.  run_once(prefix) -> (trace, obs)."""
    import zlib

    j, m = part

    def owner(trace):
        key = ",".join(str(t[1]) for t in trace[:split_depth])
        return zlib.crc32(key.encode()) % m

    stack = [[]]
    while stack:
        prefix = stack.pop()
        trace, obs = run_once(prefix)
        mine = owner(trace) == j
        if mine:
            yield trace, obs
        for i in range(len(trace) - 1, len(prefix) - 1, -1):
            if i >= split_depth and not mine:
                continue
            for alt in range(trace[i][0] - 1, 0, -1):
                stack.append([t[1] for t in trace[:i]] + [alt])


def explore(run_once, max_deviations=None, max_schedules=None):
    """Yield (scheduler, observation) for every complete choice sequence (DFS, stateless).

    run_once(scheduler) executes the whole call under that scheduler.  With max_deviations=d only sequences
    with at most d non-default choices are explored (iterative context bounding); None = all.
    """
    stack = [[]]
    n = 0
    while stack:
        prefix = stack.pop()
        s = Scheduler(prefix)
        obs = run_once(s)
        n += 1
        yield s, obs
        if max_schedules is not None and n >= max_schedules:
            return
        for i in range(len(s.trace) - 1, len(prefix) - 1, -1):
            width = s.trace[i][0]
            if width <= 1:
                continue
            dev_before = sum(1 for t in s.trace[:i] if t[1] != 0)
            if max_deviations is not None and dev_before + 1 > max_deviations:
                continue
            for alt in range(width - 1, 0, -1):
                stack.append([t[1] for t in s.trace[:i]] + [alt])


# ---------------------------------------------------------------------------------------------
def _send(fd, obj):
    data = pickle.dumps(obj, protocol=pickle.HIGHEST_PROTOCOL)
    os.write(fd, struct.pack("<Q", len(data)))
    view = memoryview(data)
    while view:
        n = os.write(fd, view[: 1 << 16])
        view = view[n:]


def _recv(fd):
    head = b""
    while len(head) < 8:
        chunk = os.read(fd, 8 - len(head))
        if not chunk:
            raise EOFError("worker pipe closed")
        head += chunk
    (size,) = struct.unpack("<Q", head)
    buf = bytearray()
    while len(buf) < size:
        chunk = os.read(fd, min(1 << 16, size - len(buf)))
        if not chunk:
            raise EOFError("worker pipe closed")
        buf += chunk
    return pickle.loads(bytes(buf))


class _Worker:
    """A persistent forked worker: runs pickled (fn, args) requests one at a time."""

    def __init__(self):
        req_r, req_w = os.pipe()
        res_r, res_w = os.pipe()
        pid = os.fork()
        if pid == 0:
            code = 0
            try:
                os.close(req_w)
                os.close(res_r)
                while True:
                    try:
                        msg = _recv(req_r)
                    except EOFError:
                        break
                    if msg is None:
                        break
                    fn, args = msg
                    try:
                        out = ("ok", fn(*args))
                    except BaseException as e:  # noqa: BLE001
                        out = ("exc", e, traceback.format_exc())
                    try:
                        _send(res_w, out)
                    except Exception as e:  # unpicklable result
                        _send(res_w, ("exc", RuntimeError(f"result not picklable: {e!r}"), ""))
            except BaseException:  # noqa: BLE001
                code = 1
            finally:
                os._exit(code)
        os.close(req_r)
        os.close(res_w)
        self.pid, self.req_w, self.res_r = pid, req_w, res_r
        self.used = False

    def run(self, fn, args):
        self.used = True
        _send(self.req_w, (fn, args))
        return _recv(self.res_r)

    def close(self):
        try:
            _send(self.req_w, None)
        except OSError:
            pass
        for fd in (self.req_w, self.res_r):
            try:
                os.close(fd)
            except OSError:
                pass
        try:
            os.waitpid(self.pid, 0)
        except ChildProcessError:
            pass


class _Task:
    __slots__ = ("fn", "args", "state", "result", "index")

    def __init__(self, index, fn, args):
        self.index, self.fn, self.args = index, fn, args
        self.state = "pending"
        self.result = None


def make_executor_class(scheduler, workers=2, log=None):
    """A class with ProcessPoolExecutor's interface bound to `scheduler`."""

    class VirtualExecutor:
        def __init__(self, max_workers=None, *a, **k):
            n = workers if not max_workers else max(1, min(workers, max_workers))
            self._nworkers = n
            self._workers = []
            self._tasks = []
            scheduler.pools += 1
            self._pool_id = scheduler.pools

        # -- context manager -----------------------------------------------------------------
        def __enter__(self):
            return self

        def __exit__(self, *exc):
            self.shutdown(wait=True)
            return False

        def shutdown(self, wait=True, cancel_futures=False):
            try:
                for t in self._tasks:
                    if t.state == "pending":
                        self._run(t, self._default_worker())
            finally:
                for w in self._workers:
                    w.close()
                self._workers = []

        # -- scheduling ------------------------------------------------------------------------
        def _default_worker(self):
            if not self._workers:
                self._workers.append(_Worker())
            return self._workers[0]

        def _worker_choices(self):
            """Workers a task may go to: every used worker, plus one fresh one (symmetry)."""
            used = [w for w in self._workers if w.used]
            out = list(range(len(used)))
            if len(used) < self._nworkers:
                out.append(len(used))
            return out

        def _get_worker(self, k):
            while len(self._workers) <= k:
                self._workers.append(_Worker())
            return self._workers[k]

        def _run(self, task, worker):
            out = worker.run(task.fn, task.args)
            task.state = "done"
            task.result = out
            if log is not None:
                log.append(("run", self._pool_id, task.index))

        def _step(self, can_produce, deliver_idx):
            """One scheduling decision.  Returns 'produce', 'deliver', or 'ran'."""
            actions = []
            if can_produce:
                actions.append(("produce", None, None))
            if deliver_idx is not None and self._tasks[deliver_idx].state == "done":
                actions.append(("deliver", deliver_idx, None))
            for t in self._tasks:
                if t.state == "pending":
                    for w in self._worker_choices():
                        actions.append(("run", t.index, w))
            labels = [a[0] if a[0] == "produce" else f"{a[0]}{a[1]}" + (f"@w{a[2]}" if a[2] is not None else "") for a in actions]
            c = scheduler.choose(labels)
            kind, idx, w = actions[c]
            if kind == "run":
                self._run(self._tasks[idx], self._get_worker(w))
                return "ran"
            return kind

        # -- Executor interface ----------------------------------------------------------------
        def map(self, fn, *iterables, timeout=None, chunksize=1):
            it = zip(*iterables)
            base = len(self._tasks)
            exhausted = False
            while not exhausted:
                what = self._step(True, None)
                if what == "produce":
                    try:
                        args = next(it)
                    except StopIteration:
                        exhausted = True
                        # the attempt to pull found the iterable empty: not a task
                        continue
                    self._tasks.append(_Task(len(self._tasks), fn, args))
                    if log is not None:
                        log.append(("submit", self._pool_id, len(self._tasks) - 1))
            mine = list(range(base, len(self._tasks)))

            def results():
                for idx in mine:
                    while True:
                        what = self._step(False, idx)
                        if what == "deliver":
                            break
                    if log is not None:
                        log.append(("deliver", self._pool_id, idx))
                    out = self._tasks[idx].result
                    if out[0] == "exc":
                        raise out[1]
                    yield out[1]

            return results()

        def submit(self, fn, *args, **kwargs):
            """Eager submission: the task is pending from now on; tasks already pending may run first."""
            if kwargs:
                import functools

                fn = functools.partial(fn, **kwargs)
            while True:
                actions = [("submit", None, None)] + self._run_actions()
                kind, idx, w = self._choose(actions)
                if kind == "submit":
                    break
                self._run(self._tasks[idx], self._get_worker(w))
            t = _Task(len(self._tasks), fn, args)
            self._tasks.append(t)
            if log is not None:
                log.append(("submit", self._pool_id, t.index))
            return VirtualFuture(self, t)

        def _run_actions(self):
            return [("run", t.index, w) for t in self._tasks if t.state == "pending" for w in self._worker_choices()]

        def _choose(self, actions):
            labels = [a[0] if a[1] is None else f"{a[0]}{a[1]}" + (f"@w{a[2]}" if a[2] is not None else "") for a in actions]
            return actions[scheduler.choose(labels)]

    class VirtualFuture:
        """Future of a submitted task; result() is a scheduling point (other pending tasks may run first)."""

        def __init__(self, pool, task):
            self._pool, self._task = pool, task

        def done(self):
            return self._task.state == "done"

        def result(self, timeout=None):
            pool, task = self._pool, self._task
            while True:
                actions = ([("result", task.index, None)] if task.state == "done" else []) + pool._run_actions()
                kind, idx, w = pool._choose(actions)
                if kind == "result":
                    break
                pool._run(pool._tasks[idx], pool._get_worker(w))
            if log is not None:
                log.append(("deliver", pool._pool_id, task.index))
            out = task.result
            if out[0] == "exc":
                raise out[1]
            return out[1]

        def exception(self, timeout=None):
            try:
                self.result()
            except BaseException as e:  # noqa: BLE001
                return e
            return None

        def add_done_callback(self, fn):
            raise NotImplementedError("virtual futures: done callbacks are not modelled")

    def as_completed(fs, timeout=None):
        """Yield futures as they complete: any finished, not yet yielded future may come next, and any pending
        task may finish first - every completion order is a schedule."""
        fs = list(fs)
        left = list(fs)
        while left:
            pool = left[0]._pool
            actions = [("yield", f._task.index, None) for f in left if f._task.state == "done"] + pool._run_actions()
            kind, idx, w = pool._choose(actions)
            if kind == "yield":
                f = next(x for x in left if x._task.index == idx)
                left.remove(f)
                yield f
            else:
                pool._run(pool._tasks[idx], pool._get_worker(w))

    def wait(fs, timeout=None, return_when="ALL_COMPLETED"):
        fs = list(fs)
        for f in fs:
            if f._task.state == "pending":
                f._pool._run(f._task, f._pool._default_worker())
        import collections

        return collections.namedtuple("DoneAndNotDoneFutures", "done not_done")(set(fs), set())

    VirtualExecutor.as_completed = staticmethod(as_completed)
    VirtualExecutor.wait = staticmethod(wait)
    return VirtualExecutor


class patched_pool:
    """Context manager: concurrent.futures.ProcessPoolExecutor -> virtual executor bound to scheduler."""

    def __init__(self, scheduler, workers=2, log=None):
        self.cls = make_executor_class(scheduler, workers, log)

    def __enter__(self):
        import concurrent.futures as cf

        self._cf = cf
        self._orig = (cf.ProcessPoolExecutor, cf.as_completed, cf.wait)
        cf.ProcessPoolExecutor = self.cls
        virt_ac, virt_wait, real_ac, real_wait = self.cls.as_completed, self.cls.wait, cf.as_completed, cf.wait

        def as_completed(fs, timeout=None):
            fs = list(fs)
            return virt_ac(fs) if fs and hasattr(fs[0], "_task") else real_ac(fs, timeout)

        def wait(fs, timeout=None, return_when="ALL_COMPLETED"):
            fs = list(fs)
            return virt_wait(fs) if fs and hasattr(fs[0], "_task") else real_wait(fs, timeout, return_when)

        cf.as_completed, cf.wait = as_completed, wait
        return self

    def __exit__(self, *exc):
        self._cf.ProcessPoolExecutor, self._cf.as_completed, self._cf.wait = self._orig
        return False

"""Bind the harness to the tree under test.

CNVKIT_VERIF_REPO (default /repo) is put first on sys.path; the editable-install finder in /venv
is *appended* to sys.meta_path, so the path entry wins.  Import is refused unless cnvlib and
skgenome really resolve under that tree (a check that silently tested another copy would be
worse than no check).
"""
import logging
import os
import sys
import warnings

_BOUND = None


def repo_root():
    return os.path.realpath(os.environ.get("CNVKIT_VERIF_REPO", "/repo"))


def bind():
    """Import cnvlib / skgenome from the tree under test; return its root."""
    global _BOUND
    if _BOUND:
        return _BOUND
    root = repo_root()
    if not os.path.isdir(os.path.join(root, "cnvlib")):
        raise SystemExit(f"HARNESS-ERROR: no cnvlib under {root}")
    sys.dont_write_bytecode = True
    os.environ.setdefault("PYTHONDONTWRITEBYTECODE", "1")
    os.environ["CNVKIT_VERIF"] = "1"  # the guard name recorded in MANIFEST.hooks (no source hooks exist)
    if sys.path[0] != root:
        sys.path.insert(0, root)
    for name in list(sys.modules):
        if name == "cnvlib" or name.startswith("cnvlib.") or name == "skgenome" or name.startswith("skgenome."):
            del sys.modules[name]
    warnings.simplefilter("ignore")
    logging.disable(logging.CRITICAL)
    import cnvlib
    import skgenome

    for mod in (cnvlib, skgenome):
        path = os.path.realpath(mod.__file__)
        if not path.startswith(root + os.sep):
            raise SystemExit(f"HARNESS-ERROR: {mod.__name__} resolved to {path}, not under {root}")
    warnings.simplefilter("ignore")
    _BOUND = root
    return root

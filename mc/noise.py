"""Deterministic noise alphabet (DESIGN section 5, C11).  No random number generator anywhere.

A "noise realisation" of length n and standard deviation sd is one *arrangement* of the same n values

    q_i = sd * Phi^-1((i + 1/2) / n),   i = 0 .. n-1      (the n mid-point normal quantiles)

so every realisation has exactly the stated marginal distribution (symmetric, mean 0, standard deviation
sd * sqrt(mean(z_i^2)) which is a little below sd and tends to sd as n grows; never above sd).

Arrangements (all are permutations of 0..n-1, position -> quantile rank):

  affine(a, b)          i -> (a*i + b) mod n, with a coprime to n.  The multipliers are the first K
                        integers >= 0.382*n that are coprime to n (0.382 = 2 - golden ratio: consecutive
                        positions are far apart in rank, the sequence is equidistributed at every scale);
                        the offsets are 0, n//3, n//2.
  block-reversed(B)     an affine arrangement with every consecutive block of B positions reversed
                        (changes the local order, keeps each block's content).
  interleaved           an affine arrangement with its two halves interleaved (position 2k takes from the
                        first half, 2k+1 from the second): another short-range correlation structure.
  modular-inverse(a, b) i -> a * (i + b)^-1 mod p in the prime field just above n (values >= n deleted).
                        Measured over the lengths C11 builds (selftest/noise.py): the affine-derived families are
                        *smoother* than independent noise (rank autocorrelation -0.29 at lag 1, up to +1.0 at
                        Fibonacci lags; the standard deviation of sums over 16- and 32-bin windows averages
                        0.55..0.65 of the white-noise value), which flatters a segmenter.  The inversion map has
                        rank autocorrelations of the order 1/sqrt(n) and window sums averaging 0.93..1.0 of the
                        white-noise value (single realisations 0.45..1.55), so this family is the one that
                        exercises the "no false breakpoint" side of a claim.  It is a
                        closed-form permutation, not a generator: no state, no seed.

Everything is plain Python on lists; Phi^-1 is statistics.NormalDist.inv_cdf (stdlib, deterministic).
"""
import math
from statistics import NormalDist

GOLDEN_FRACTION = 0.382
_ND = NormalDist()
_QCACHE = {}


def unit_quantiles(n):
    """The n mid-point quantiles of the standard normal distribution, ascending."""
    if n not in _QCACHE:
        _QCACHE[n] = tuple(_ND.inv_cdf((i + 0.5) / n) for i in range(n))
    return _QCACHE[n]


def quantiles(n, sd):
    return [sd * z for z in unit_quantiles(n)]


def multipliers(n, k, frac=GOLDEN_FRACTION):
    """First k integers >= frac*n that are coprime to n (and >= 1)."""
    out = []
    a = max(1, int(math.ceil(frac * n)))
    while len(out) < k:
        if math.gcd(a, n) == 1:
            out.append(a)
        a += 1
    return out


def offsets(n):
    return [0, n // 3, n // 2]


def affine(n, a, b):
    if math.gcd(a, n) != 1:
        raise ValueError("multiplier %d is not coprime to %d" % (a, n))
    return [(a * i + b) % n for i in range(n)]


def block_reversed(perm, block):
    out = []
    for s in range(0, len(perm), block):
        out.extend(reversed(perm[s : s + block]))
    return out


def interleaved(perm):
    n = len(perm)
    h = (n + 1) // 2
    first, second = perm[:h], perm[h:]
    out = []
    for k in range(h):
        out.append(first[k])
        if k < len(second):
            out.append(second[k])
    return out


def next_prime(n):
    """Smallest prime > n."""
    p = max(2, n + 1)
    while any(p % d == 0 for d in range(2, int(math.isqrt(p)) + 1)):
        p += 1
    return p


def modular_inverse(n, a, b):
    """Arrangement by inversion in the prime field just above n: with p the smallest prime > n, the sequence
    v_i = a * ((i + b) mod p)^-1 mod p  (0^-1 := 0), i = 0..p-1, is a permutation of 0..p-1; the p - n values
    >= n are deleted.  Unlike an affine map its short- and long-range rank correlations are all small
    (O(1/sqrt(p))), so window sums fluctuate the way independent noise does."""
    p = next_prime(n)
    out = []
    for i in range(p):
        x = (i + b) % p
        v = (a * pow(x, -1, p)) % p if x else 0
        if v < n:
            out.append(v)
    return out


def arrangement_names(k, extras=True, km=None):
    """Names of the arrangements of the alphabet, simplest first: k affine multipliers (x 3 offsets, + the two
    derived arrangements each when `extras`), km modular-inverse arrangements (default: 3 * k).

    'A<j>.<m>'  affine, j-th multiplier (0-based), m-th offset (0: 0, 1: n//3, 2: n//2)
    'R<j>'      block-reversed (blocks of 8) affine(j, offset 0)
    'I<j>'      interleaved affine(j, offset 0)
    'M<j>'      modular inverse in the prime field above n, j-th multiplier, offset number j mod 3
    """
    names = []
    for j in range(k):
        for m in range(3):
            names.append("A%d.%d" % (j, m))
    if extras:
        for j in range(k):
            names.append("R%d" % j)
            names.append("I%d" % j)
        for j in range(3 * k if km is None else km):
            names.append("M%d" % j)
    return names


def permutation(n, name):
    kind = name[0]
    if kind == "A":
        j, m = name[1:].split(".")
        j, m = int(j), int(m)
        a = multipliers(n, j + 1)[j]
        return affine(n, a, offsets(n)[m])
    if kind == "M":
        j = int(name[1:])
        p = next_prime(n)
        return modular_inverse(n, multipliers(p, j + 1)[j], offsets(p)[j % 3])
    j = int(name[1:])
    a = multipliers(n, j + 1)[j]
    base = affine(n, a, 0)
    if kind == "R":
        return block_reversed(base, 8)
    if kind == "I":
        return interleaved(base)
    raise ValueError(name)


def noise(n, sd, name):
    """The noise realisation `name` of length n and standard deviation sd (list of floats)."""
    q = unit_quantiles(n)
    perm = permutation(n, name)
    assert sorted(perm) == list(range(n))
    return [sd * q[r] for r in perm]

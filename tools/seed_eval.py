#!/venv/bin/python
"""Confirm and record one independently written property-breaking change (dev tool, not in MANIFEST).

usage: tools/seed_eval.py --src <dir with patch.diff demo.py notes.md> --id C09-A --prop C09 [--check C09 C10 ...]
                          [--tier quick] [--skip-baseline]

Steps (all on a scratch copy of /repo under a mktemp dir outside /repo and /verif, removed at the end):
  1. patch applies;  2. pinned 61-test baseline still passes on the patched copy;
  3. demo.py exits 0 on /repo and non-zero on the patched copy;
  4. each named check is run with CNVKIT_VERIF_REPO=<patched copy>; verdict and first violation keys recorded.
Writes /verif/seeded/<id>/{patch.diff,demo.py,notes.md,meta.json}.
"""
import argparse
import json
import os
import re
import shutil
import subprocess
import sys
import tempfile
import time

HERE = os.path.dirname(os.path.dirname(os.path.abspath(__file__)))
PY = "/venv/bin/python"


def sh(cmd, **kw):
    return subprocess.run(cmd, stdout=subprocess.PIPE, stderr=subprocess.STDOUT, text=True, **kw)


def main():
    ap = argparse.ArgumentParser()
    ap.add_argument("--src", required=True)
    ap.add_argument("--id", required=True)
    ap.add_argument("--prop", required=True)
    ap.add_argument("--check", nargs="*")
    ap.add_argument("--tier", default="quick")
    ap.add_argument("--skip-baseline", action="store_true")
    ap.add_argument("--jobs", default=os.environ.get("VERIF_JOBS", "16"))
    a = ap.parse_args()
    checks = a.check or [a.prop]
    dest = os.path.join(HERE, "seeded", a.id)
    os.makedirs(dest, exist_ok=True)
    for fn in ("patch.diff", "demo.py", "notes.md"):
        src = os.path.join(a.src, fn)
        if os.path.exists(src) and os.path.realpath(src) != os.path.realpath(os.path.join(dest, fn)):
            shutil.copy(src, os.path.join(dest, fn))
    patch = os.path.join(dest, "patch.diff")
    demo = os.path.join(dest, "demo.py")
    meta_path = os.path.join(dest, "meta.json")
    meta = json.load(open(meta_path)) if os.path.exists(meta_path) else {}
    meta.update({"id": a.id, "property": a.prop, "source": "fresh sub-agent given only the property text and a scratch worktree"})
    scratch = tempfile.mkdtemp(prefix="seedeval.")
    tree = os.path.join(scratch, "repo")
    try:
        sh(["rsync", "-a", "--exclude", ".git", "--exclude", "*.pyc", "--exclude", "__pycache__", "--exclude", "out", "/repo/", tree + "/"])
        r = sh(["patch", "-p1", "-s", "-i", patch], cwd=tree)
        meta["applies"] = r.returncode == 0
        if r.returncode:
            print("PATCH DOES NOT APPLY:\n" + r.stdout[-1500:])
            meta["confirmed"] = False
            return 1
        ran = []
        if not a.skip_baseline:
            r = sh([PY, os.path.join(HERE, "tools", "baseline.py"), tree])
            meta["baseline"] = r.stdout.strip().splitlines()[0] if r.stdout.strip() else "?"
            meta["baseline_ok"] = r.returncode == 0
            ran.append("tools/baseline.py <patched copy>: " + meta["baseline"])
            print(r.stdout.strip())
        env = dict(os.environ, PYTHONDONTWRITEBYTECODE="1")
        env.pop("CNVKIT_VERIF_REPO", None)
        if os.path.exists(demo):
            r0 = sh([PY, demo], env=dict(env, PYTHONPATH="/repo"), cwd=scratch)
            r1 = sh([PY, demo], env=dict(env, PYTHONPATH=tree), cwd=scratch)
            meta["demo_exit_unchanged"] = r0.returncode
            meta["demo_exit_patched"] = r1.returncode
            meta["demo_output_patched"] = r1.stdout.strip()[-600:]
            ran.append(f"demo.py on /repo: exit {r0.returncode}; on patched copy: exit {r1.returncode}")
            print(f"demo: unchanged exit={r0.returncode} patched exit={r1.returncode}")
            if r0.returncode != 0:
                print(r0.stdout[-800:])
        meta["confirmed"] = bool(meta.get("baseline_ok", True) and meta.get("demo_exit_unchanged") == 0 and meta.get("demo_exit_patched") not in (0, None))
        det = meta.setdefault("detection", {})
        for c in checks:
            t0 = time.time()
            r = sh([os.path.join(HERE, "check"), c, "--tier", a.tier], cwd=HERE, env=dict(env, CNVKIT_VERIF_REPO=tree, VERIF_JOBS=str(a.jobs)))
            keys = re.findall(r"^\s+key=(\S+) count=(\d+)", r.stdout, re.M)
            det[f"{c}:{a.tier}"] = {
                "exit": r.returncode,
                "violation_keys": [f"{k} x{n}" for k, n in keys][:8],
                "wall_s": round(time.time() - t0, 1),
            }
            ran.append(f"CNVKIT_VERIF_REPO=<patched copy> ./check {c} --tier {a.tier}: exit {r.returncode}")
            print(f"check {c} {a.tier}: exit={r.returncode} keys={[k for k, _ in keys][:4]}")
            if r.returncode == 2:
                print(r.stdout[-1500:])
        meta["ran"] = ran
        meta["caught_by"] = sorted(k for k, v in det.items() if v["exit"] == 1)
    finally:
        shutil.rmtree(scratch, ignore_errors=True)
        with open(meta_path, "w") as f:
            json.dump(meta, f, indent=1, sort_keys=True)
            f.write("\n")
    return 0


if __name__ == "__main__":
    sys.exit(main())

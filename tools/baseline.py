#!/venv/bin/python
"""Run the pinned pytest baseline on a tree (default /repo) and compare with BASELINE.json's stable_pass list.
usage: tools/baseline.py [tree]      exit 0 iff all 61 stable tests pass."""
import json, os, subprocess, sys, tempfile
import xml.etree.ElementTree as ET

tree = sys.argv[1] if len(sys.argv) > 1 else "/repo"
base = json.load(open("/root/.vp/BASELINE.json"))
fd, junit = tempfile.mkstemp(suffix=".xml"); os.close(fd)
env = dict(os.environ); env.pop("CNVKIT_VERIF", None); env["PYTHONDONTWRITEBYTECODE"] = "1"
env["PYTHONPATH"] = tree
subprocess.run(["/venv/bin/python", "-m", "pytest", "-q", "-p", "no:cacheprovider", "--timeout=900",
                "--continue-on-collection-errors", f"--junitxml={junit}"], cwd=tree, env=env,
               stdout=subprocess.DEVNULL, stderr=subprocess.DEVNULL)
passed = set()
for tc in ET.parse(junit).getroot().iter("testcase"):
    if not any(ch.tag in ("failure", "error", "skipped") for ch in tc):
        passed.add(f"{tc.get('classname')}::{tc.get('name')}")
os.unlink(junit)
missing = [t for t in base["stable_pass"] if t not in passed]
print(f"baseline on {tree}: {len(base['stable_pass']) - len(missing)}/{len(base['stable_pass'])} stable tests pass")
for t in missing:
    print("  NOT PASSING:", t)
sys.exit(1 if missing else 0)

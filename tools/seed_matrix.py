#!/venv/bin/python
"""Print the detection matrix (markdown) from seeded/*/meta.json; `--write` also refreshes seeded/README.md."""
import glob
import json
import os
import sys

HERE = os.path.dirname(os.path.dirname(os.path.abspath(__file__)))


def first_line(path):
    try:
        for line in open(path):
            line = line.strip().lstrip("#").strip()
            if line:
                return line[:160]
    except OSError:
        pass
    return ""


def main():
    rows = []
    stats = {}
    for mp in sorted(glob.glob(os.path.join(HERE, "seeded", "*", "meta.json"))):
        m = json.load(open(mp))
        d = os.path.dirname(mp)
        det = m.get("detection", {})
        caught = [k for k, v in det.items() if v["exit"] == 1]
        missed = [k for k, v in det.items() if v["exit"] == 0]
        err = [k for k, v in det.items() if v["exit"] not in (0, 1)]
        keys = []
        for k in caught:
            keys += [x.split(" x")[0] for x in det[k]["violation_keys"][:2]]
        h = m.get("history", "")
        first = (
            "harness error; check corrected" if "HARNESS" in h
            else "missed; check strengthened" if h.startswith("first run: NOT caught") or h.startswith("predicted miss")
            else "not a violation of the statement as read (left open)" if h.startswith("NOT caught, deliberately") or h.startswith("NOT caught, not claimed")
            else "missed by its own check, caught by another" if h.startswith("NOT caught by")
            else "caught"
        )
        stats[first] = stats.get(first, 0) + 1
        rows.append(
            "| %s | %s | %s | %s | %s | %s | %s | %s |"
            % (
                m["id"],
                m["property"],
                "yes" if m.get("confirmed") else "NO",
                first,
                m.get("needs") or first_line(os.path.join(d, "notes.md")),
                ", ".join(caught) or "-",
                ", ".join(missed + [e + " (harness error)" for e in err]) or "-",
                "; ".join(dict.fromkeys(keys)) or "-",
            )
        )
    out = [
        "| change | property | confirmed (baseline 61/61, demo fails only when patched) | first run | what it is / needs | caught by (now) | not caught by | first finding keys |",
        "|---|---|---|---|---|---|---|---|",
    ] + rows
    text = "\n".join(out) + "\n\nFirst-run outcome over %d changes: %s\n" % (len(rows), "; ".join("%s: %d" % kv for kv in sorted(stats.items())))
    print(text)
    if "--write" in sys.argv:
        with open(os.path.join(HERE, "seeded", "README.md"), "w") as f:
            f.write(
                "# Independently written property-breaking changes\n\nEach directory: `patch.diff` (never committed to /repo), the author's `demo.py`, "
                "`notes.md`, and `meta.json` written by `tools/seed_eval.py`.  Authors were fresh sub-agents that saw only the property text "
                "and a scratch worktree.\n\n" + text
            )


if __name__ == "__main__":
    main()
